(* C09 (A1) — the antichain algorithm with its memo tables (NfaAcDefs.v) returns, for every pair of
   word automata, exactly the verdict of the verified decider:
     memo_sound      the two memo tables only ever contain true comparison results (current filling)
     ac_erase        hence the run equals the run of the memo-free algorithm
     loop0_correct   the memo-free worklist algorithm is partially correct (any fuel, any pick order)
     ac_terminates   the structural fuel [ac_fuel] suffices
     ac_refines      ac_model A B = wincl_dec A B
     memo_refuted    with the historical filling the model answers "included" wrongly (vm_compute) *)
From Coq Require Import List NArith Bool Arith Lia.
Import ListNotations.
From V Require Import Fix Sem Prod Incl TrimDefs TrimProofs Lang NfaDefs NfaProofs NfaAcDefs.

(* ---------- the order on macro-states ---------- *)
Lemma msub_true l r : msub l r = true <-> incl l r /\ length l <= length r.
Proof.
  unfold msub. destruct (Nat.ltb_spec (length r) (length l)) as [H|H].
  - split; [discriminate | intros [_ X]; lia].
  - rewrite subN_incl. split; [intros X; split; auto | tauto].
Qed.
Lemma msub_refl l : msub l l = true.
Proof. apply msub_true. split; [apply incl_refl | lia]. Qed.
Lemma msub_trans a b c : msub a b = true -> msub b c = true -> msub a c = true.
Proof. rewrite !msub_true. intros [H1 H2] [H3 H4]. split; [eapply incl_tran; eauto | lia]. Qed.

Lemma filter_len_mono {X} (f g : X -> bool) l :
  (forall x, In x l -> f x = true -> g x = true) -> length (filter f l) <= length (filter g l).
Proof.
  induction l as [|x l IH]; simpl; intros H; auto.
  assert (IH' : length (filter f l) <= length (filter g l)) by (apply IH; intros; apply H; auto).
  destruct (f x) eqn:Ef.
  - rewrite (H x) by auto. simpl. lia.
  - destruct (g x); simpl; lia.
Qed.

Definition mpost_pred (B : nfa) (a : N) (P : mset) (q : N) : bool :=
  existsb (fun e => memN (esrc e) P && N.eqb (esym e) a && N.eqb (edst e) q) (edges B).

Lemma mpost_pred_spec B a P q : mpost_pred B a P q = true <-> exists p, In p P /\ In (p, a, q) (edges B).
Proof.
  unfold mpost_pred. rewrite existsb_exists. split.
  - intros [e [He H]]. apply andb_true_iff in H as [H H3]. apply andb_true_iff in H as [H1 H2].
    apply memN_In in H1. apply N.eqb_eq in H2, H3. exists (esrc e). split; auto. subst. rewrite <- edge_eta. auto.
  - intros [p [Hp He]]. exists (p, a, q). split; auto. unfold esrc, esym, edst; simpl.
    apply memN_In in Hp. rewrite Hp, !N.eqb_refl. reflexivity.
Qed.

Lemma Qn_in B q : In q (Qn B) <-> In q (nstates B).
Proof. unfold Qn. apply nodup_In. Qed.

Lemma mpost_in B a P q : In q (mpost B a P) <-> exists p, In p P /\ In (p, a, q) (edges B).
Proof.
  unfold mpost. rewrite filter_In. fold (mpost_pred B a P q). rewrite mpost_pred_spec. split; [tauto|].
  intros [p [Hp He]]. split; [|exists p; auto]. apply Qn_in. apply nstates_edge in He. tauto.
Qed.

Lemma mpost_mono B a Q P : msub Q P = true -> msub (mpost B a Q) (mpost B a P) = true.
Proof.
  rewrite !msub_true. intros [Hi _]. split.
  - intros q Hq. apply mpost_in in Hq as [p [Hp He]]. apply mpost_in. exists p. auto.
  - unfold mpost. apply filter_len_mono. intros q _ H. fold (mpost_pred B a Q q) in H. fold (mpost_pred B a P q).
    apply mpost_pred_spec in H as [p [Hp He]]. apply mpost_pred_spec. exists p. auto.
Qed.

Lemma macc_spec B P : macc B P = true <-> exists q, In q P /\ In q (nfinals B).
Proof. unfold macc. rewrite existsb_exists. split; intros [q [H1 H2]]; exists q; split; auto; apply memN_In; auto. Qed.
Lemma macc_mono B Q P : msub Q P = true -> macc B Q = true -> macc B P = true.
Proof. rewrite msub_true, !macc_spec. intros [Hi _] [q [H1 H2]]. exists q. auto. Qed.

(* the macro-state reached by a word (given in reverse) *)
Fixpoint mrun (B : nfa) (rw : list N) : mset :=
  match rw with [] => minit B | a :: r => mpost B a (mrun B r) end.

Lemma mrun_spec B : forall rw q, In q (mrun B rw) <-> wreach B rw q.
Proof.
  induction rw as [|a r IH]; simpl; intros q.
  - unfold minit. rewrite filter_In, memN_In, Qn_in. split; [tauto|]. intros H. split; auto. apply nstates_start; auto.
  - rewrite mpost_in. split; intros [p [H1 H2]]; exists p; split; auto; apply IH; auto.
Qed.

(* ---------- the memo tables ---------- *)
Definition memo_sound (m : memo) : Prop :=
  (forall l r, In (l, r) (fst m) -> msub l r = true) /\ (forall l r, In (l, r) (snd m) -> msub l r = false).

Lemma mset_eqb_eq l r : mset_eqb l r = true <-> l = r.
Proof. unfold mset_eqb. destruct (list_eq_dec N.eq_dec l r); split; auto; discriminate. Qed.

Lemma mem_pair_In x m : mem_pair x m = true <-> In x m.
Proof.
  unfold mem_pair. rewrite existsb_exists. split.
  - intros [y [Hy H]]. apply andb_true_iff in H as [H1 H2]. apply mset_eqb_eq in H1, H2.
    destruct x, y; simpl in *; subst; auto.
  - intros H. exists x. split; auto. apply andb_true_iff. split; apply mset_eqb_eq; auto.
Qed.

Lemma memo_sound_nil : memo_sound ([], []).
Proof. split; intros l r []. Qed.

Lemma lte_m_sound m l r : memo_sound m ->
  fst (lte_m false m l r) = msub l r /\ memo_sound (snd (lte_m false m l r)).
Proof.
  intros [Hp Hn]. unfold lte_m.
  destruct (mem_pair (l, r) (fst m)) eqn:E1.
  { apply mem_pair_In in E1. simpl. split; [symmetry; auto | split; auto]. }
  destruct (mem_pair (l, r) (snd m)) eqn:E2.
  { apply mem_pair_In in E2. simpl. split; [symmetry; auto | split; auto]. }
  destruct (msub l r) eqn:E; simpl; (split; [reflexivity|]); split; simpl; auto.
  - intros l' r' [X|X]; [inversion X; subst; auto | auto].
  - intros l' r' [X|X]; [inversion X; subst; auto | auto].
Qed.

Lemma gte_m_sound m l r : memo_sound m ->
  fst (gte_m false m l r) = msub r l /\ memo_sound (snd (gte_m false m l r)).
Proof.
  intros [Hp Hn]. unfold gte_m.
  destruct (mem_pair (r, l) (fst m)) eqn:E1.
  { apply mem_pair_In in E1. simpl. split; [symmetry; auto | split; auto]. }
  destruct (mem_pair (r, l) (snd m)) eqn:E2.
  { apply mem_pair_In in E2. simpl. split; [symmetry; auto | split; auto]. }
  destruct (msub r l) eqn:E; simpl; (split; [reflexivity|]); split; simpl; auto.
  - intros l' r' [X|X]; [inversion X; subst; auto | auto].
  - intros l' r' [X|X]; [inversion X; subst; auto | auto].
Qed.

(* the memo-free antichain operations *)
Definition covers (X : list mpair) (p : N) (S : mset) : bool :=
  existsb (fun x => N.eqb (fst x) p && msub (snd x) S) X.
Definition prune (X : list mpair) (p : N) (S : mset) : list mpair :=
  filter (fun x => negb (N.eqb (fst x) p && msub S (snd x))) X.

Lemma contains_m_sound : forall X m p S, memo_sound m ->
  fst (contains_m false m X p S) = covers X p S /\ memo_sound (snd (contains_m false m X p S)).
Proof.
  induction X as [|x X IH]; intros m p S Hm; [simpl; auto|].
  cbn [contains_m covers existsb].
  destruct (N.eqb (fst x) p) eqn:E.
  - destruct (lte_m_sound m (snd x) S Hm) as [H1 H2].
    remember (lte_m false m (snd x) S) as bm. destruct bm as [b m']. simpl in H1, H2. subst b.
    cbn [fst snd andb]. fold (covers X p S).
    destruct (msub (snd x) S); cbn [orb fst snd]; auto.
  - cbn [andb orb]. fold (covers X p S). apply IH; auto.
Qed.

Lemma refine_m_sound : forall X m p S, memo_sound m ->
  fst (refine_m false m X p S) = prune X p S /\ memo_sound (snd (refine_m false m X p S)).
Proof.
  induction X as [|x X IH]; intros m p S Hm; [simpl; auto|].
  cbn [refine_m prune filter].
  destruct (N.eqb (fst x) p) eqn:E.
  - destruct (gte_m_sound m (snd x) S Hm) as [H1 H2].
    remember (gte_m false m (snd x) S) as bm. destruct bm as [b m']. simpl in H1, H2. subst b.
    destruct (IH m' p S H2) as [H3 H4]. cbn [fst snd andb]. fold (prune X p S).
    destruct (msub S (snd x)); cbn [negb fst snd]; rewrite H3; auto.
  - destruct (IH m p S Hm) as [H3 H4]. cbn [fst snd andb negb]. fold (prune X p S). rewrite H3. auto.
Qed.

(* ---------- the memo-free algorithm ---------- *)
Record pst := { p_ac : list mpair; p_nx : list mpair; p_fail : bool }.
Definition erase (st : acst) : pst := {| p_ac := st_ac st; p_nx := st_nx st; p_fail := st_fail st |}.

Definition add_pair0 (s : pst) (p : N) (S : mset) : pst :=
  if covers (p_ac s) p S then s
  else
    let ac2 := prune (p_ac s) p S ++ [(p, S)] in
    if covers (p_nx s) p S then {| p_ac := ac2; p_nx := p_nx s; p_fail := p_fail s |}
    else {| p_ac := ac2; p_nx := prune (p_nx s) p S ++ [(p, S)]; p_fail := p_fail s |}.

Definition init_step0 (A B : nfa) (s : pst) (q : N) : pst :=
  let s' := add_pair0 s q (minit B) in
  {| p_ac := p_ac s'; p_nx := p_nx s'; p_fail := p_fail s' || (memN q (nfinals A) && negb (macc B (minit B))) |}.
Definition init0 (A B : nfa) : pst :=
  fold_left (init_step0 A B) (nstarts A) {| p_ac := []; p_nx := []; p_fail := false |}.

Fixpoint post_edges0 (A B : nfa) (es : list edge) (P : mset) (s : pst) : pst :=
  match es with
  | [] => s
  | e :: r =>
      let P' := mpost B (esym e) P in
      if memN (edst e) (nfinals A) && negb (macc B P') then {| p_ac := p_ac s; p_nx := p_nx s; p_fail := true |}
      else post_edges0 A B r P (add_pair0 s (edst e) P')
  end.

Fixpoint loop0 (fuel : nat) (A B : nfa) (s : pst) : option bool :=
  if p_fail s then Some false else
  match fuel with
  | 0 => None
  | S f =>
      match p_nx s with
      | [] => Some true
      | x :: r => let mr := extract_min x r in
                  loop0 f A B (post_edges0 A B (out_edges A (fst (fst mr))) (snd (fst mr))
                                 {| p_ac := p_ac s; p_nx := snd mr; p_fail := p_fail s |})
      end
  end.

Lemma add_pair_erase st p S : memo_sound (st_memo st) ->
  erase (add_pair false st p S) = add_pair0 (erase st) p S /\ memo_sound (st_memo (add_pair false st p S)).
Proof.
  intros Hm. unfold add_pair, add_pair0. simpl.
  destruct (contains_m_sound (st_ac st) (st_memo st) p S Hm) as [C1 M1]. rewrite C1.
  destruct (covers (st_ac st) p S); simpl.
  { split; auto. }
  destruct (refine_m_sound (st_ac st) _ p S M1) as [R1 M2]. rewrite R1.
  destruct (contains_m_sound (st_nx st) _ p S M2) as [C2 M3]. rewrite C2.
  destruct (covers (st_nx st) p S); simpl.
  { split; auto. }
  destruct (refine_m_sound (st_nx st) _ p S M3) as [R2 M4]. rewrite R2. split; auto.
Qed.

Lemma init_erase A B : forall l st, memo_sound (st_memo st) ->
  let f := fun st s => let st' := add_pair false st s (minit B) in
                       set_fail st' (st_fail st' || (memN s (nfinals A) && negb (macc B (minit B)))) in
  erase (fold_left f l st) = fold_left (init_step0 A B) l (erase st) /\ memo_sound (st_memo (fold_left f l st)).
Proof.
  induction l as [|q l IH]; intros st Hm f; simpl; auto.
  destruct (add_pair_erase st q (minit B) Hm) as [E M].
  specialize (IH (f st q)). simpl in IH.
  assert (Hm' : memo_sound (st_memo (f st q))) by (unfold f; simpl; auto).
  destruct (IH Hm') as [E2 M2]. split; auto. fold f in E2. rewrite E2. f_equal.
  unfold f, init_step0. rewrite <- E. reflexivity.
Qed.

Lemma ac_init_erase A B : erase (ac_init false A B) = init0 A B /\ memo_sound (st_memo (ac_init false A B)).
Proof.
  unfold ac_init, init0.
  apply (init_erase A B (nstarts A) {| st_ac := []; st_nx := []; st_memo := ([], []); st_fail := false |} memo_sound_nil).
Qed.

Lemma post_edges_erase A B : forall es P st, memo_sound (st_memo st) ->
  erase (post_edges false A B es P st) = post_edges0 A B es P (erase st) /\
  memo_sound (st_memo (post_edges false A B es P st)).
Proof.
  induction es as [|e es IH]; intros P st Hm; simpl; auto.
  destruct (memN (edst e) (nfinals A) && negb (macc B (mpost B (esym e) P))); simpl.
  { split; auto. }
  destruct (add_pair_erase st (edst e) (mpost B (esym e) P) Hm) as [E M].
  destruct (IH P _ M) as [E2 M2]. split; auto. rewrite E2, E. reflexivity.
Qed.

(* memo_sound is an invariant of the run, and the run is the run of the memo-free algorithm *)
Theorem ac_erase A B : forall fuel st, memo_sound (st_memo st) ->
  ac_loop false fuel A B st = loop0 fuel A B (erase st).
Proof.
  induction fuel as [|f IH]; intros st Hm; simpl.
  - reflexivity.
  - destruct (st_fail st) eqn:Ef; auto. destruct (st_nx st) as [|x r] eqn:En; auto.
    unfold make_post.
    assert (Hm' : memo_sound (st_memo (set_nx st (snd (extract_min x r))))) by (simpl; auto).
    destruct (post_edges_erase A B (out_edges A (fst (fst (extract_min x r)))) (snd (fst (extract_min x r))) _ Hm') as [E M].
    rewrite (IH _ M), E. unfold erase, set_nx. simpl. rewrite Ef. reflexivity.
Qed.

(* ---------- covering ---------- *)
Lemma covers_spec X p S : covers X p S = true <-> exists Q, In (p, Q) X /\ msub Q S = true.
Proof.
  unfold covers. rewrite existsb_exists. split.
  - intros [[q Q] [Hx H]]. simpl in H. apply andb_true_iff in H as [H1 H2]. apply N.eqb_eq in H1. subst. exists Q. auto.
  - intros [Q [Hx H]]. exists (p, Q). split; auto. simpl. rewrite N.eqb_refl, H. reflexivity.
Qed.

Lemma covers_up X p S T : covers X p S = true -> msub S T = true -> covers X p T = true.
Proof. rewrite !covers_spec. intros [Q [H1 H2]] H. exists Q. split; auto. eapply msub_trans; eauto. Qed.

Lemma prune_in X p S x : In x (prune X p S) <-> In x X /\ (N.eqb (fst x) p && msub S (snd x) = false).
Proof. unfold prune. rewrite filter_In, negb_true_iff. tauto. Qed.

(* inserting (p,S) after pruning never uncovers anything, and covers (p,S) *)
Lemma covers_insert X p S q T : covers X q T = true -> covers (prune X p S ++ [(p, S)]) q T = true.
Proof.
  rewrite !covers_spec. intros [Q [Hx H]].
  destruct (N.eqb q p && msub S Q) eqn:E.
  - apply andb_true_iff in E as [E1 E2]. apply N.eqb_eq in E1. subst q. exists S. split.
    + apply in_or_app. right. simpl; auto.
    + eapply msub_trans; eauto.
  - exists Q. split; auto. apply in_or_app. left. apply prune_in. split; auto.
Qed.
Lemma covers_new X p S : covers (X ++ [(p, S)]) p S = true.
Proof. apply covers_spec. exists S. split; [apply in_or_app; right; simpl; auto | apply msub_refl]. Qed.

Lemma ap_fail s p S : p_fail (add_pair0 s p S) = p_fail s.
Proof. unfold add_pair0. destruct (covers (p_ac s) p S); auto. destruct (covers (p_nx s) p S); auto. Qed.

Lemma ap_ac_mono s p S q T : covers (p_ac s) q T = true -> covers (p_ac (add_pair0 s p S)) q T = true.
Proof.
  unfold add_pair0. destruct (covers (p_ac s) p S); auto.
  destruct (covers (p_nx s) p S); simpl; apply covers_insert.
Qed.
Lemma ap_nx_mono s p S q T : covers (p_nx s) q T = true -> covers (p_nx (add_pair0 s p S)) q T = true.
Proof.
  unfold add_pair0. destruct (covers (p_ac s) p S); auto.
  destruct (covers (p_nx s) p S); simpl; auto. apply covers_insert.
Qed.
Lemma ap_ac_cov s p S : covers (p_ac (add_pair0 s p S)) p S = true.
Proof.
  unfold add_pair0. destruct (covers (p_ac s) p S) eqn:E; auto.
  destruct (covers (p_nx s) p S); simpl; apply covers_new.
Qed.
Lemma ap_ac_new s p S x : In x (p_ac (add_pair0 s p S)) ->
  In x (p_ac s) \/ (x = (p, S) /\ covers (p_nx (add_pair0 s p S)) p S = true /\ covers (p_ac s) p S = false).
Proof.
  unfold add_pair0. destruct (covers (p_ac s) p S) eqn:E; auto.
  destruct (covers (p_nx s) p S) eqn:E2; simpl; intros H; apply in_app_or in H as [H|[H|[]]].
  - apply prune_in in H. tauto.
  - right. auto.
  - apply prune_in in H. tauto.
  - right. split; auto. split; auto. apply covers_new.
Qed.
Lemma ap_nx_new s p S x : In x (p_nx (add_pair0 s p S)) -> In x (p_nx s) \/ (x = (p, S) /\ covers (p_ac s) p S = false).
Proof.
  unfold add_pair0. destruct (covers (p_ac s) p S) eqn:E; auto.
  destruct (covers (p_nx s) p S) eqn:E2; simpl; auto. intros H. apply in_app_or in H as [H|[H|[]]]; auto.
  apply prune_in in H. tauto.
Qed.

(* ---------- extract_min returns a member and the others ---------- *)
Lemma extract_min_spec : forall r x z, In z (x :: r) <-> z = fst (extract_min x r) \/ In z (snd (extract_min x r)).
Proof.
  induction r as [|y r IH]; intros x z.
  - simpl. intuition.
  - cbn [extract_min]. destruct (mp_less y x); cbn [fst snd].
    + pose proof (IH y z) as H. simpl in H. simpl. tauto.
    + pose proof (IH x z) as H. simpl in H. simpl. tauto.
Qed.
Lemma extract_min_len : forall r x, length (snd (extract_min x r)) = length r.
Proof.
  induction r as [|y r IH]; intros x; simpl; auto.
  destruct (mp_less y x); simpl; rewrite IH; reflexivity.
Qed.

(* ---------- partial correctness of the memo-free worklist algorithm ---------- *)
Section Correct.
Variables A B : nfa.

(* pairs reachable in the product of A with the subset construction of B *)
Definition Rsem (x : mpair) : Prop := exists rw, wreach A rw (fst x) /\ snd x = mrun B rw.
Definition safe (x : mpair) : Prop := memN (fst x) (nfinals A) = true -> macc B (snd x) = true.
Definition Closed (X : list mpair) (x : mpair) : Prop :=
  forall e, In e (edges A) -> esrc e = fst x -> covers X (edst e) (mpost B (esym e) (snd x)) = true.

(* [pend]: the pair being processed by MakePost (popped from the worklist, successors not yet all stored) *)
Record InvP (pend : option mpair) (s : pst) : Prop := {
  inv_nx : forall x, In x (p_nx s) -> Rsem x;
  inv_safe : forall x, In x (p_ac s) -> safe x;
  inv_done : forall x, In x (p_ac s) ->
     covers (p_nx s) (fst x) (snd x) = true \/ Closed (p_ac s) x \/
     (exists y, pend = Some y /\ fst x = fst y /\ msub (snd y) (snd x) = true) }.

Lemma closed_mono X Y x : (forall q T, covers X q T = true -> covers Y q T = true) -> Closed X x -> Closed Y x.
Proof. intros H C e He Hs. apply H, C; auto. Qed.

Lemma closed_up X x y : fst x = fst y -> msub (snd y) (snd x) = true -> Closed X y -> Closed X x.
Proof.
  intros Hf Hs C e He Hsrc. eapply covers_up; [apply C; auto; congruence|]. apply mpost_mono; auto.
Qed.

Lemma rsem_succ x e : Rsem x -> In e (edges A) -> esrc e = fst x -> Rsem (edst e, mpost B (esym e) (snd x)).
Proof.
  intros [rw [Hr Hs]] He Hsrc. exists (esym e :: rw). simpl. split.
  - exists (fst x). split; auto. rewrite <- Hsrc, <- edge_eta. auto.
  - rewrite Hs. reflexivity.
Qed.

(* a reachable pair with an accepting state of A and a rejecting macro-state of B refutes the inclusion *)
Lemma rsem_unsafe x : Rsem x -> memN (fst x) (nfinals A) = true -> macc B (snd x) = false -> ~ wlincl A B.
Proof.
  intros [rw [Hr Hs]] Hf Hm Hincl. apply memN_In in Hf.
  assert (HA : waccepts A (rev rw)). { apply waccepts_wreach. exists (fst x). rewrite rev_involutive. auto. }
  apply Hincl, waccepts_wreach in HA as [q [Hq Hw]]. rewrite rev_involutive in Hw.
  assert (X : macc B (snd x) = true). { apply macc_spec. exists q. split; auto. rewrite Hs. apply mrun_spec; auto. }
  congruence.
Qed.

Lemma add_pair0_inv pend s q T : InvP pend s -> Rsem (q, T) -> safe (q, T) -> InvP pend (add_pair0 s q T).
Proof.
  intros I HR HS. split.
  - intros x Hx. apply ap_nx_new in Hx as [Hx|[-> _]]; auto. apply (inv_nx _ _ I); auto.
  - intros x Hx. apply ap_ac_new in Hx as [Hx|[-> _]]; auto. apply (inv_safe _ _ I); auto.
  - intros x Hx. apply ap_ac_new in Hx as [Hx|[-> [Hc _]]].
    + destruct (inv_done _ _ I x Hx) as [H|[H|H]].
      * left. apply ap_nx_mono; auto.
      * right; left. eapply closed_mono; [|exact H]. intros; apply ap_ac_mono; auto.
      * right; right; auto.
    + left. simpl. auto.
Qed.

(* MakePost on the popped pair [y] *)
Lemma post_edges0_inv y : Rsem y -> forall es s,
  (forall e, In e es -> In e (edges A) /\ esrc e = fst y) ->
  p_fail s = false -> InvP (Some y) s ->
  let s' := post_edges0 A B es (snd y) s in
  (p_fail s' = true -> ~ wlincl A B) /\
  (p_fail s' = false ->
     InvP (Some y) s' /\
     (forall q T, covers (p_ac s) q T = true -> covers (p_ac s') q T = true) /\
     (forall e, In e es -> covers (p_ac s') (edst e) (mpost B (esym e) (snd y)) = true)).
Proof.
  intros HR. induction es as [|e es IH]; intros s Hes Hf I; simpl.
  - split; [congruence|]. intros _. split; [exact I|]. split; [auto|]. intros e [].
  - destruct (Hes e (or_introl eq_refl)) as [He Hsrc].
    pose proof (rsem_succ y e HR He Hsrc) as HR'.
    destruct (memN (edst e) (nfinals A)) eqn:Efin; simpl.
    + destruct (macc B (mpost B (esym e) (snd y))) eqn:Eacc; simpl.
      * assert (HS : safe (edst e, mpost B (esym e) (snd y))) by (intros _; exact Eacc).
        specialize (IH (add_pair0 s (edst e) (mpost B (esym e) (snd y)))).
        destruct IH as [IH1 IH2]; [intros; apply Hes; right; auto | rewrite ap_fail; auto | apply add_pair0_inv; auto |].
        split; auto. intros Hf'. destruct (IH2 Hf') as [J1 [J2 J3]]. split; auto. split.
        -- intros q T H. apply J2, ap_ac_mono; auto.
        -- intros e' [<-|He']; auto. apply J2, ap_ac_cov.
      * split; [|discriminate]. intros _. eapply rsem_unsafe; eauto.
    + assert (HS : safe (edst e, mpost B (esym e) (snd y))) by (intros X; simpl in X; congruence).
      specialize (IH (add_pair0 s (edst e) (mpost B (esym e) (snd y)))).
      destruct IH as [IH1 IH2]; [intros; apply Hes; right; auto | rewrite ap_fail; auto | apply add_pair0_inv; auto |].
      split; auto. intros Hf'. destruct (IH2 Hf') as [J1 [J2 J3]]. split; auto. split.
      * intros q T H. apply J2, ap_ac_mono; auto.
      * intros e' [<-|He']; auto. apply J2, ap_ac_cov.
Qed.

Lemma out_edges_in p e : In e (out_edges A p) <-> In e (edges A) /\ esrc e = p.
Proof. unfold out_edges. rewrite filter_In, N.eqb_eq. tauto. Qed.

Definition starts_covered (s : pst) : Prop := forall q, In q (nstarts A) -> covers (p_ac s) q (minit B) = true.

(* when the worklist is empty every reachable pair is covered by a safe pair *)
Lemma final_cover s : InvP None s -> p_nx s = [] -> starts_covered s ->
  forall rw p, wreach A rw p -> covers (p_ac s) p (mrun B rw) = true.
Proof.
  intros I Hn Hst. induction rw as [|a r IH]; simpl; intros p Hp.
  - apply Hst; auto.
  - destruct Hp as [p0 [Hp0 He]]. apply IH in Hp0. apply covers_spec in Hp0 as [Q [HQ Hs]].
    destruct (inv_done _ _ I _ HQ) as [H|[H|[y [H _]]]].
    + rewrite Hn in H. discriminate.
    + specialize (H (p0, a, p) He eq_refl). simpl in H. unfold esym, edst in H; simpl in H.
      eapply covers_up; eauto. apply mpost_mono; auto.
    + discriminate.
Qed.

Theorem loop0_correct : forall fuel s b,
  (p_fail s = true -> ~ wlincl A B) ->
  (p_fail s = false -> InvP None s /\ starts_covered s) ->
  loop0 fuel A B s = Some b -> (b = true <-> wlincl A B).
Proof.
  induction fuel as [|f IH]; intros s b Hfail Hinv; simpl.
  - destruct (p_fail s) eqn:Ef; [|discriminate]. intros X; inversion X; subst. split; [discriminate | intros H; exfalso; apply Hfail; auto].
  - destruct (p_fail s) eqn:Ef.
    { intros X; inversion X; subst. split; [discriminate | intros H; exfalso; apply Hfail; auto]. }
    destruct (Hinv eq_refl) as [I Hst].
    destruct (p_nx s) as [|x r] eqn:En.
    + intros X; inversion X; subst. split; auto. intros _ w Hw.
      apply waccepts_wreach in Hw as [q [Hq Hw]].
      pose proof (final_cover s I En Hst _ _ Hw) as C. apply covers_spec in C as [Q [HQ Hs]].
      assert (Hacc : macc B Q = true) by (apply (inv_safe _ _ I _ HQ); simpl; apply memN_In; auto).
      pose proof (macc_mono B _ _ Hs Hacc) as Hacc'. apply macc_spec in Hacc' as [f' [Hf1 Hf2]].
      apply waccepts_wreach. exists f'. split; auto. apply mrun_spec; auto.
    + set (mr := extract_min x r). set (y := fst mr).
      set (s1 := {| p_ac := p_ac s; p_nx := snd mr; p_fail := false |}).
      assert (Hmem : forall z, In z (p_nx s) <-> z = y \/ In z (snd mr)) by (intros z; rewrite En; apply extract_min_spec).
      assert (HRy : Rsem y) by (apply (inv_nx _ _ I), Hmem; auto).
      assert (I1 : InvP (Some y) s1).
      { split; simpl.
        - intros z Hz. apply (inv_nx _ _ I), Hmem; auto.
        - apply (inv_safe _ _ I).
        - intros z Hz. destruct (inv_done _ _ I z Hz) as [H|[H|[y' [H _]]]]; [|right; left; auto|discriminate].
          apply covers_spec in H as [Q [HQ Hs]]. apply Hmem in HQ as [HQ|HQ].
          + right; right. exists y. split; auto. rewrite <- HQ. simpl. auto.
          + left. apply covers_spec. exists Q. auto. }
      pose proof (post_edges0_inv y HRy (out_edges A (fst y)) s1) as P.
      destruct P as [P1 P2]; [intros e He; apply out_edges_in; auto | reflexivity | exact I1 |].
      fold y. fold s1. fold y in P1, P2.
      set (s2 := post_edges0 A B (out_edges A (fst y)) (snd y) s1) in *.
      apply IH; auto.
      intros Hf2. destruct (P2 Hf2) as [J1 [J2 J3]].
      assert (Cy : Closed (p_ac s2) y). { intros e He Hsrc. apply J3, out_edges_in. auto. }
      split.
      * split; [apply (inv_nx _ _ J1) | apply (inv_safe _ _ J1) |].
        intros z Hz. destruct (inv_done _ _ J1 z Hz) as [H|[H|[y' [E [H1 H2]]]]]; auto.
        inversion E; subst y'. right; left. eapply closed_up; eauto.
      * intros q Hq. apply J2. simpl. apply Hst; auto.
Qed.

(* Init *)
Lemma init0_inv : let s := init0 A B in
  (p_fail s = true -> ~ wlincl A B) /\ (p_fail s = false -> InvP None s /\ starts_covered s).
Proof.
  unfold init0.
  assert (G : forall l s,
    (forall q, In q l -> In q (nstarts A)) ->
    (p_fail s = true -> ~ wlincl A B) -> (p_fail s = false -> InvP None s) ->
    let s' := fold_left (init_step0 A B) l s in
    (p_fail s' = true -> ~ wlincl A B) /\
    (p_fail s' = false -> InvP None s' /\
       (forall q T, covers (p_ac s) q T = true -> covers (p_ac s') q T = true) /\
       (forall q, In q l -> covers (p_ac s') q (minit B) = true))).
  { induction l as [|q l IH]; intros s Hl Hf Hi; simpl.
    - split; [auto|]. intros E. split; [auto|]. split; [auto|]. intros q [].
    - assert (HR : Rsem (q, minit B)). { exists []. simpl. split; auto. apply Hl; left; auto. }
      set (s1 := init_step0 A B s q).
      assert (F1 : p_fail s1 = true -> ~ wlincl A B).
      { unfold s1, init_step0. simpl. rewrite ap_fail. intros E. apply orb_true_iff in E as [E|E]; auto.
        apply andb_true_iff in E as [E1 E2]. apply negb_true_iff in E2. eapply rsem_unsafe; eauto. }
      assert (F2 : p_fail s1 = false -> InvP None s1).
      { unfold s1, init_step0. simpl. rewrite ap_fail. intros E. apply orb_false_iff in E as [E1 E2].
        assert (HS : safe (q, minit B)).
        { intros X. simpl in X. rewrite X in E2. simpl in E2. apply negb_false_iff in E2. auto. }
        pose proof (add_pair0_inv None s q (minit B) (Hi E1) HR HS) as J.
        split; simpl; [apply (inv_nx _ _ J) | apply (inv_safe _ _ J) | apply (inv_done _ _ J)]. }
      destruct (IH s1) as [K1 K2]; auto. { intros; apply Hl; right; auto. }
      split; auto. intros E. destruct (K2 E) as [L1 [L2 L3]]. split; auto. split.
      + intros q' T H. apply L2. unfold s1, init_step0. simpl. apply ap_ac_mono; auto.
      + intros q' [<-|Hq']; auto. apply L2. unfold s1, init_step0. simpl. apply ap_ac_cov. }
  destruct (G (nstarts A) {| p_ac := []; p_nx := []; p_fail := false |}) as [G1 G2]; auto.
  - simpl. discriminate.
  - intros _. split; simpl; intros x [].
  - split; auto. intros E. destruct (G2 E) as [H1 [_ H3]]. split; auto.
Qed.

Theorem ac0_partial fuel b : loop0 fuel A B (init0 A B) = Some b -> (b = true <-> wlincl A B).
Proof. destruct init0_inv as [H1 H2]. apply loop0_correct; auto. Qed.

End Correct.

(* ---------- termination within the structural fuel ---------- *)
Lemma filter_len_strict {X} (f g : X -> bool) l z :
  (forall x, In x l -> f x = true -> g x = true) -> In z l -> f z = false -> g z = true ->
  length (filter f l) < length (filter g l).
Proof.
  induction l as [|x l IH]; simpl; intros H Hz Hf Hg; [destruct Hz|].
  destruct Hz as [->|Hz].
  - rewrite Hf, Hg. simpl. assert (length (filter f l) <= length (filter g l)) by (apply filter_len_mono; intros; apply H; auto). lia.
  - assert (IH' : length (filter f l) < length (filter g l)) by (apply IH; auto; intros; apply H; auto).
    destruct (f x) eqn:Ef.
    + rewrite (H x) by auto. simpl. lia.
    + destruct (g x); simpl; lia.
Qed.

Lemma filter_len_le {X} (f : X -> bool) l : length (filter f l) <= length l.
Proof. induction l as [|x l IH]; simpl; auto. destruct (f x); simpl; lia. Qed.

Section Termination.
Variables A B : nfa.
Let U := ac_universe A B.

Definition uncov (X : list mpair) (x : mpair) : bool := negb (covers X (fst x) (snd x)).
Definition unc (X : list mpair) : nat := length (filter (uncov X) U).
Definition mu (s : pst) : nat := 2 * unc (p_ac s) + length (p_nx s).

Lemma prune_len X p S : length (prune X p S) <= length X.
Proof. unfold prune. induction X as [|x X IH]; simpl; auto. destruct (negb _); simpl; lia. Qed.

Lemma unc_insert X p S : In (p, S) U -> covers X p S = false -> unc (prune X p S ++ [(p, S)]) < unc X.
Proof.
  intros HU Hc. unfold unc. apply (filter_len_strict _ _ U (p, S)); auto.
  - intros x _. unfold uncov. rewrite !negb_true_iff. intros H.
    destruct (covers X (fst x) (snd x)) eqn:E; auto. apply (covers_insert X p S) in E. congruence.
  - unfold uncov. simpl. rewrite covers_new. reflexivity.
  - unfold uncov. simpl. rewrite Hc. reflexivity.
Qed.

Lemma add_pair0_mu s p S : In (p, S) U -> mu (add_pair0 s p S) <= mu s.
Proof.
  intros HU. unfold add_pair0. destruct (covers (p_ac s) p S) eqn:E; auto.
  pose proof (unc_insert (p_ac s) p S HU E) as Hlt.
  destruct (covers (p_nx s) p S); unfold mu; simpl; [lia|].
  rewrite app_length. simpl. pose proof (prune_len (p_nx s) p S). lia.
Qed.

Lemma in_universe q T : In q (nstates A) -> (exists f, T = filter f (Qn B)) -> In (q, T) U.
Proof. intros Hq [f ->]. unfold U, ac_universe. apply in_prod; [apply Qn_in; auto | apply filter_sublist]. Qed.

Lemma post_edges0_mu : forall es P s, (forall e, In e es -> In e (edges A)) -> mu (post_edges0 A B es P s) <= mu s.
Proof.
  induction es as [|e es IH]; intros P s Hes; simpl; auto.
  destruct (memN (edst e) (nfinals A) && negb (macc B (mpost B (esym e) P))); [unfold mu; simpl; lia|].
  etransitivity; [apply IH; intros; apply Hes; right; auto|].
  apply add_pair0_mu. apply in_universe.
  - assert (He : In e (edges A)) by (apply Hes; left; auto). rewrite (edge_eta e) in He. apply nstates_edge in He. tauto.
  - eexists. reflexivity.
Qed.

Lemma loop0_terminates : forall fuel s, mu s < fuel -> loop0 fuel A B s <> None.
Proof.
  induction fuel as [|f IH]; intros s Hmu; [lia|]. simpl.
  destruct (p_fail s) eqn:Ef; [discriminate|].
  destruct (p_nx s) as [|x r] eqn:En; [discriminate|].
  apply IH.
  eapply Nat.le_lt_trans; [apply post_edges0_mu; intros e He; apply out_edges_in in He; tauto|].
  unfold mu in *. simpl. rewrite extract_min_len. rewrite En in Hmu. simpl in Hmu. lia.
Qed.

Lemma init0_mu : mu (init0 A B) <= 2 * length U.
Proof.
  unfold init0.
  assert (G : forall l s, (forall q, In q l -> In q (nstarts A)) -> mu (fold_left (init_step0 A B) l s) <= mu s).
  { induction l as [|q l IH]; intros s Hl; simpl; auto.
    etransitivity; [apply IH; intros; apply Hl; right; auto|].
    unfold init_step0. unfold mu at 1. simpl. fold (mu (add_pair0 s q (minit B))).
    apply add_pair0_mu. apply in_universe; [apply nstates_start, Hl; left; auto | eexists; reflexivity]. }
  etransitivity; [apply G; auto|]. unfold mu, unc. simpl.
  pose proof (filter_len_le (uncov []) U). lia.
Qed.

Lemma universe_len : length U = length (Qn A) * 2 ^ length (Qn B).
Proof.
  subst U. unfold ac_universe. etransitivity; [apply (prod_length (Qn A) (sublists (Qn B)))|].
  rewrite sublists_length. reflexivity.
Qed.

Theorem ac0_terminates : loop0 (ac_fuel A B) A B (init0 A B) <> None.
Proof. apply loop0_terminates. unfold ac_fuel. rewrite <- universe_len. pose proof init0_mu. lia. Qed.

End Termination.

(* ---------- the theorems about the model as extracted ---------- *)
Theorem ac_run_eq A B : ac_run false A B = loop0 (ac_fuel A B) A B (init0 A B).
Proof.
  unfold ac_run. destruct (ac_init_erase A B) as [E M]. rewrite (ac_erase A B _ _ M), E. reflexivity.
Qed.

(* the run never ends for lack of fuel *)
Theorem ac_terminates A B : ac_run false A B <> None.
Proof. rewrite ac_run_eq. apply ac0_terminates. Qed.

(* any answer of the run, with any fuel, is the truth *)
Theorem ac_partial A B fuel b : ac_loop false fuel A B (ac_init false A B) = Some b -> (b = true <-> wlincl A B).
Proof.
  destruct (ac_init_erase A B) as [E M]. rewrite (ac_erase A B _ _ M), E. apply ac0_partial.
Qed.

Theorem ac_model_spec A B : ac_model A B = true <-> wlincl A B.
Proof.
  unfold ac_model. pose proof (ac_terminates A B) as T. destruct (ac_run false A B) as [b|] eqn:E; [|congruence].
  rewrite <- (ac_partial A B (ac_fuel A B) b E). tauto.
Qed.

Theorem ac_refines A B : ac_model A B = wincl_dec A B.
Proof. apply bool_ext. rewrite ac_model_spec, wincl_dec_spec. tauto. Qed.

Theorem ac_incl_model_spec A B : ac_incl_model A B = true <-> wlincl A B.
Proof.
  unfold ac_incl_model. rewrite ac_model_spec. unfold wlincl. split; intros H w Hw.
  - apply nuseless_lang, H, nuseless_lang, Hw.
  - apply nuseless_lang, H, nuseless_lang, Hw.
Qed.

(* memo_sound is an invariant: every table reached by the run is sound (stated for the final state of
   every prefix of the run through the erase lemmas; here: after Init and after each MakePost) *)
Theorem memo_sound_init A B : memo_sound (st_memo (ac_init false A B)).
Proof. apply ac_init_erase. Qed.
Theorem memo_sound_step A B st p P : memo_sound (st_memo st) -> memo_sound (st_memo (make_post false A B st p P)).
Proof. intros H. unfold make_post. apply post_edges_erase; auto. Qed.

(* ---------- the historical memo filling (before commit 7ca3f30b) ---------- *)
Definition acw_A : nfa := {| nstarts := [0; 1]%N; nfinals := [0%N]; edges := [(0, 0, 1); (1, 0, 0)]%N |}.
Definition acw_B : nfa := {| nstarts := [0%N]; nfinals := [0%N]; edges := [(0, 0, 1); (1, 0, 0)]%N |}.

(* the word "a" is accepted by acw_A (from start state 1) and not by acw_B (even lengths only), but the
   run with the historical filling answers "included": a failed test {0} ⊆ {1} had recorded {1} ⊆ {0} *)
Theorem memo_refuted : exists A B, ac_run true A B = Some true /\ wincl_dec A B = false.
Proof. exists acw_A, acw_B. split; vm_compute; reflexivity. Qed.
Example memo_fixed_witness : ac_run false acw_A acw_B = Some false.
Proof. vm_compute. reflexivity. Qed.
