(* C01 / C07 (A) increment — upward inclusion with antichain pruning: the saturation of reachable macro pairs (q, S)
   that skips every new pair subsumed by a stored one ((q, S') with S' a subset of S), as the `contains` test of the
   antichain does. Theorem: pruning by subsumption does not change the verdict. (The code additionally removes stored
   pairs that a new pair subsumes — `refine` — which only shrinks the stored set further.) *)
From Coq Require Import List NArith Bool Arith Lia.
Import ListNotations.
From V Require Import Fix Sem Prod Incl TrimDefs TrimProofs.

Definition subsumesb (x y : mp) : bool := N.eqb (fst x) (fst y) && subN (snd x) (snd y).
Definition covered (R : list mp) (y : mp) : bool := existsb (fun x => subsumesb x y) R.
Definition ac_step (A B : ta) (R : list mp) : list mp := filter (fun y => negb (covered R y)) (mstep A B R).
Definition up_ac_reach (A B : ta) : list mp :=
  saturate2 mp mp_eq_dec (ac_step A B) (length (states A) + length (QB B)) [].
Definition pair_ok (A B : ta) (p : mp) : bool :=
  implb (memN (fst p) (finals A)) (existsb (fun q => memN q (finals B)) (snd p)).
Definition up_ac (A B : ta) : bool := forallb (pair_ok A B) (up_ac_reach A B).

(* ---------- proofs ---------- *)
Definition subsumes (x y : mp) := fst x = fst y /\ incl (snd x) (snd y).
Lemma subsumesb_spec x y : subsumesb x y = true <-> subsumes x y.
Proof. unfold subsumesb, subsumes. rewrite andb_true_iff, N.eqb_eq, subN_spec. tauto. Qed.
Lemma subsumes_refl x : subsumes x x. Proof. split; [reflexivity | apply incl_refl]. Qed.
Lemma subsumes_trans x y z : subsumes x y -> subsumes y z -> subsumes x z.
Proof. intros [E1 I1] [E2 I2]. split; [congruence | eapply incl_tran; eauto]. Qed.

Lemma ac_step_sub A B R : incl (ac_step A B R) (mstep A B R).
Proof. intros x Hx. apply filter_In in Hx. tauto. Qed.
Lemma ac_step_bounded A B S : incl S (universe A B) -> incl (ac_step A B S) (universe A B).
Proof. intros H x Hx. apply (mstep_bounded A B S H). apply ac_step_sub; auto. Qed.

Lemma up_ac_reach_eq A B : up_ac_reach A B = saturate mp mp_eq_dec (ac_step A B) (S (length (universe A B))) [].
Proof.
  unfold up_ac_reach. rewrite saturate2_pow.
  apply (saturate_more mp mp_eq_dec (ac_step A B) (universe A B) (ac_step_bounded A B)). apply universe_fuel.
Qed.

(* every stored pair is a reachable macro pair *)
Lemma der_ac_mstep A B x : Der mp (ac_step A B) x -> Der mp (mstep A B) x.
Proof. induction 1 as [S x _ IH Hx]. apply (der mp (mstep A B) S); auto. apply ac_step_sub; auto. Qed.
Lemma up_ac_sound A B x : In x (up_ac_reach A B) -> In x (macro_reach A B).
Proof.
  rewrite up_ac_reach_eq. intros H. apply saturate_sound in H; [|intros y []].
  unfold macro_reach. apply (saturate2_lfp mp mp_eq_dec (mstep A B) (mstep_mono A B) (universe A B) (mstep_bounded A B) _ (universe_fuel A B)).
  apply der_ac_mstep; auto.
Qed.

(* the stored set is closed up to subsumption *)
Lemma up_ac_closed A B x : In x (mstep A B (up_ac_reach A B)) -> exists y, In y (up_ac_reach A B) /\ subsumes y x.
Proof.
  intros Hx. destruct (covered (up_ac_reach A B) x) eqn:E.
  - apply existsb_exists in E as [y [Hy Hs]]. exists y. split; auto. apply subsumesb_spec; auto.
  - exists x. split; [|apply subsumes_refl].
    assert (C : incl (ac_step A B (up_ac_reach A B)) (up_ac_reach A B)).
    { rewrite up_ac_reach_eq. apply (saturate_closed mp mp_eq_dec (ac_step A B) (universe A B) (ac_step_bounded A B));
        [constructor | intros y [] | simpl; lia]. }
    apply C. apply filter_In. split; auto. rewrite E. reflexivity.
Qed.

(* post is monotone in the macro-states of the children *)
Lemma matches_mono : forall qs Ss Ss', Forall2 (fun S' S => incl S' S) Ss' Ss -> matches qs Ss' = true -> matches qs Ss = true.
Proof.
  induction qs as [|q qs IH]; intros Ss Ss' F H; inversion F as [|S1 S2 l1 l2 HI HF]; subst; simpl in *; auto; try discriminate.
  apply andb_true_iff in H as [Ha Hb]. apply andb_true_iff. split; [|eapply IH; eauto].
  apply memN_In. apply memN_In in Ha. auto.
Qed.
Lemma postB_mono B f Ss Ss' : Forall2 (fun S' S => incl S' S) Ss' Ss -> incl (postB B f Ss') (postB B f Ss).
Proof.
  intros F p Hp. unfold postB in *. apply filter_In in Hp as [Hq Hf]. apply filter_In. split; auto.
  unfold fires in *. apply existsb_exists in Hf as [r [Hr H]]. apply existsb_exists. exists r. split; auto.
  apply andb_true_iff in H as [H H3]. apply andb_true_iff in H as [H1 H2]. rewrite H1, H3, (matches_mono _ _ _ F H2). reflexivity.
Qed.

(* every reachable macro pair is subsumed by a stored one *)
Lemma up_ac_complete A B x : Der mp (mstep A B) x -> exists y, In y (up_ac_reach A B) /\ subsumes y x.
Proof.
  induction 1 as [S x _ IH Hx]. apply mstep_in in Hx as [r [Ss [Hr [F ->]]]].
  assert (X : exists Ss', Forall2 (fun q S' => In (q, S') (up_ac_reach A B)) (ch r) Ss' /\ Forall2 (fun S' S0 => incl S' S0) Ss' Ss).
  { clear Hr. induction F as [|c S0 cs Ss0 H F IH2].
    - exists []. split; constructor.
    - destruct (IH (c, S0) H) as [[c' S'] [Hy [E I]]]. simpl in E, I. subst c'.
      destruct IH2 as [Ss' [F1 F2]]. exists (S' :: Ss'). split; constructor; auto. }
  destruct X as [Ss' [F1 F2]].
  destruct (up_ac_closed A B (par r, postB B (sym r) Ss')) as [y [Hy Hs]].
  { apply mstep_in. exists r, Ss'. auto. }
  exists y. split; auto. eapply subsumes_trans; eauto. split; [reflexivity | simpl; apply postB_mono; auto].
Qed.

Lemma pair_ok_subsumes A B y x : subsumes y x -> pair_ok A B y = true -> pair_ok A B x = true.
Proof.
  intros [E I] H. unfold pair_ok in *. rewrite <- E. destruct (memN (fst y) (finals A)); simpl in *; auto.
  apply existsb_exists in H as [q [Hq Hf]]. apply existsb_exists. exists q. split; auto.
Qed.

Theorem up_antichain_refines A B : up_ac A B = incl_dec A B.
Proof.
  apply eq_true_iff_eq. unfold up_ac, incl_dec. fold (pair_ok A B). rewrite !forallb_forall. split.
  - intros H x Hx.
    assert (D : Der mp (mstep A B) x).
    { unfold macro_reach in Hx. apply (saturate2_lfp mp mp_eq_dec (mstep A B) (mstep_mono A B) (universe A B) (mstep_bounded A B) _ (universe_fuel A B)) in Hx. auto. }
    destruct (up_ac_complete A B x D) as [y [Hy Hs]]. eapply pair_ok_subsumes; eauto.
  - intros H x Hx. apply H. apply up_ac_sound; auto.
Qed.

Theorem up_antichain_exact A B : up_ac A B = true <-> lincl A B.
Proof. rewrite up_antichain_refines. apply incl_dec_spec. Qed.

(* non-vacuity: pruning really happens — fewer pairs are stored than are reachable *)
Example up_ac_prunes :
  let A := {| rules := [ {| sym := 0; ch := []; par := 0 |}; {| sym := 2; ch := [0%N]; par := 0 |} ]; finals := [0%N] |} in
  let B := {| rules := [ {| sym := 0; ch := []; par := 0 |}; {| sym := 2; ch := [0%N]; par := 0 |}; {| sym := 2; ch := [0%N]; par := 1 |};
                         {| sym := 2; ch := [1%N]; par := 1 |} ]; finals := [0%N] |} in
  length (up_ac_reach A B) = 1 /\ length (macro_reach A B) = 2 /\ up_ac A B = true.
Proof. vm_compute. repeat split; reflexivity. Qed.
