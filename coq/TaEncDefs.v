(* C04 — (A) models of the two LTS encodings of src/explicit_tree_transl.hh (TranslateDownward, TranslateUpward),
   parameterised by the indices the code builds in visiting order ((R): the state index `stateIndex`, the symbol
   index `symbolTranslator`, the numbering of tuple nodes `lhsTranslator` resp. environment nodes `envTranslator`).
   Definitions only; proofs in TaEncProofs.v. *)
From Coq Require Import List NArith Bool Arith.
Import ListNotations.
From V Require Import Sem Prod LtsSimDefs TaSimDefs.

(* ---------------- downward ---------------- *)
Record dix := { d_idx : N -> N;            (* automaton state -> LTS state  (stateIndex)            *)
                d_sidx : N -> N;           (* symbol -> label               (symbolTranslator)      *)
                d_nsym : N;                (* number of symbols             (symbolMap.size())      *)
                d_tidx : list N -> N }.    (* child tuple -> tuple node     (lhsTranslator, >= n)   *)

(* tuple node t --(nsym + i)--> i-th child *)
Fixpoint tuple_edges (nsym t i : N) (cs : list N) : lts :=
  match cs with
  | [] => []
  | c :: r => (t, (nsym + i)%N, c) :: tuple_edges nsym t (N.succ i) r
  end.

(* a(c) -> q  gives  q --a--> c  (unary rules are inlined);
   a(c1..ck) -> q, k <> 1, gives  q --a--> tuple node  and the tuple node's position edges *)
Definition down_rule_edges (X : dix) (p : rule) : lts :=
  match ch p with
  | [c] => [(d_idx X (par p), d_sidx X (sym p), d_idx X c)]
  | cs => (d_idx X (par p), d_sidx X (sym p), d_tidx X cs)
          :: tuple_edges (d_nsym X) (d_tidx X cs) 0 (map (d_idx X) cs)
  end.
Definition translate_down (X : dix) (A : ta) : lts := flat_map (down_rule_edges X) (rules A).

(* ---------------- upward ---------------- *)
(* an environment: siblings (automaton states), position, symbol label, parent (LTS state) *)
Definition env := (list N * N * N * N)%type.
Definition e_sibs (e : env) : list N := fst (fst (fst e)).
Definition e_pos (e : env) : N := snd (fst (fst e)).
Definition e_sym (e : env) : N := snd (fst e).
Definition e_par (e : env) : N := snd e.

Record uix := { u_idx : N -> N;            (* stateIndex *)
                u_sidx : N -> N;           (* symbolTranslator *)
                u_nsym : N;                (* symbolCnt after the first loop: label of the state -> environment edges *)
                u_eidx : env -> N }.       (* envTranslator: environment -> LTS state (> n) *)

Definition envs_of_rule (X : uix) (p : rule) : list (N * env) :=      (* (child at the position, environment) *)
  map (fun s => (snd (fst s), (fst (fst s) ++ snd s, N.of_nat (length (fst (fst s))), u_sidx X (sym p), u_idx X (par p))))
      (splits (ch p)).

(* leaf rule a -> q : leaf --a--> q ;  a(c) -> q : c --a--> q ;
   a(c1..ck) -> q, k >= 2 : ci --nsym--> env(siblings, i, a, q) --a--> q *)
Definition up_rule_edges (X : uix) (leaf : N) (p : rule) : lts :=
  match ch p with
  | [] => [(leaf, u_sidx X (sym p), u_idx X (par p))]
  | [c] => [(u_idx X c, u_sidx X (sym p), u_idx X (par p))]
  | _ => flat_map (fun ce => [(u_idx X (fst ce), u_nsym X, u_eidx X (snd ce));
                              (u_eidx X (snd ce), e_sym (snd ce), e_par (snd ce))]) (envs_of_rule X p)
  end.
Definition translate_up (X : uix) (n : nat) (A : ta) : lts := flat_map (up_rule_edges X (N.of_nat n)) (rules A).

(* the environments that exist as LTS states *)
Definition all_envs (X : uix) (A : ta) : list env :=
  flat_map (fun p => match ch p with [] => [] | [_] => [] | _ => map snd (envs_of_rule X p) end) (rules A).

(* the initial relation induced by the partition / block relation TranslateUpward builds:
   states: q related to r iff (q final -> r final); the leaf state only to itself;
   environments: equal siblings, position and symbol (the parameter relation is the identity) *)
Definition env_key_eqb (e e' : env) : bool :=
  listN_eqb (e_sibs e) (e_sibs e') && N.eqb (e_pos e) (e_pos e') && N.eqb (e_sym e) (e_sym e').

Definition up_node_init (X : uix) (n : nat) (A : ta) : list (N * N) :=
  map (fun x => (u_idx X (fst x), u_idx X (snd x))) (up_init A n)
  ++ [(N.of_nat n, N.of_nat n)]
  ++ flat_map (fun e => flat_map (fun e' => if env_key_eqb e e' then [(u_eidx X e, u_eidx X e')] else []) (all_envs X A)) (all_envs X A).

Definition up_lts_sim (X : uix) (n : nat) (A : ta) : list (N * N) :=
  lts_sim_from (translate_up X n A) (up_node_init X n A).

(* ---- the partition and block relation as the code builds them (for the correspondence) ---- *)
(* classes of environments in order of first appearance *)
Fixpoint env_heads (seen : list env) (es : list env) : list env :=
  match es with
  | [] => rev seen
  | e :: r => if existsb (env_key_eqb e) seen then env_heads seen r else env_heads (e :: seen) r
  end.
Definition nodup_env (X : uix) (es : list env) : list env :=
  fold_right (fun e acc => if existsb (fun e' => N.eqb (u_eidx X e) (u_eidx X e')) acc then acc else e :: acc) [] es.

Definition up_partition (X : uix) (n : nat) (A : ta) : list (list N) :=
  let st := seqN n in
  let fin := filter (fun q => memN q (finals A)) st in
  let nonfin := filter (fun q => negb (memN q (finals A))) st in
  let base := match fin, nonfin with [], _ => [st] | _, [] => [st] | _, _ => [fin; nonfin] end in
  let es := nodup_env X (all_envs X A) in
  map (map (u_idx X)) base ++ [[N.of_nat n]]
  ++ map (fun h => map (u_eidx X) (filter (env_key_eqb h) es)) (env_heads [] es).

Definition up_block_rel (X : uix) (n : nat) (A : ta) : list (N * N) :=
  let st := seqN n in
  let fin := filter (fun q => memN q (finals A)) st in
  let nonfin := filter (fun q => negb (memN q (finals A))) st in
  let nb := length (up_partition X n A) in
  match fin, nonfin with
  | [], _ | _, [] => map (fun i => (i, i)) (seqN nb)
  | _, _ => (1%N, 0%N) :: map (fun i => (i, i)) (seqN nb)
  end.

(* ---- decidable validity of an index, and the canonical index (identity on states and symbols) ---- *)
Definition unaryb (p : rule) : bool := Nat.eqb (length (ch p)) 1.
Definition down_ok_b (X : dix) (A : ta) (n NN : nat) : bool :=
  forallb (fun x => N.ltb (d_idx X x) (N.of_nat n)) (seqN n) &&
  forallb (fun x => forallb (fun y => negb (N.eqb (d_idx X x) (d_idx X y)) || N.eqb x y) (seqN n)) (seqN n) &&
  forallb (fun p => forallb (fun p' => negb (N.eqb (d_sidx X (sym p)) (d_sidx X (sym p'))) || N.eqb (sym p) (sym p')) (rules A)) (rules A) &&
  forallb (fun p => N.ltb (d_sidx X (sym p)) (d_nsym X)) (rules A) &&
  forallb (fun p => forallb (fun p' => unaryb p || unaryb p' || negb (N.eqb (d_tidx X (ch p)) (d_tidx X (ch p'))) || listN_eqb (ch p) (ch p')) (rules A)) (rules A) &&
  forallb (fun p => unaryb p || (N.leb (N.of_nat n) (d_tidx X (ch p)) && N.ltb (d_tidx X (ch p)) (N.of_nat NN))) (rules A) &&
  Nat.leb n NN.

Fixpoint pos_in {T} (eqb : T -> T -> bool) (x : T) (l : list T) (i : N) : N :=
  match l with [] => i | y :: r => if eqb x y then i else pos_in eqb x r (N.succ i) end.
Definition max_sym (A : ta) : N := fold_right N.max 0%N (map sym (rules A)).
Definition canon_dix (A : ta) (n : nat) : dix :=
  {| d_idx := fun x => x; d_sidx := fun s => s; d_nsym := N.succ (max_sym A);
     d_tidx := fun cs => pos_in listN_eqb cs (map ch (rules A)) (N.of_nat n) |}.

Definition env_eqb (e e' : env) : bool := env_key_eqb e e' && N.eqb (e_par e) (e_par e').
Definition up_ok_b (X : uix) (A : ta) (n : nat) : bool :=
  forallb (fun x => N.ltb (u_idx X x) (N.of_nat n)) (seqN n) &&
  forallb (fun x => forallb (fun y => negb (N.eqb (u_idx X x) (u_idx X y)) || N.eqb x y) (seqN n)) (seqN n) &&
  forallb (fun p => forallb (fun p' => negb (N.eqb (u_sidx X (sym p)) (u_sidx X (sym p'))) || N.eqb (sym p) (sym p')) (rules A)) (rules A) &&
  forallb (fun p => N.ltb (u_sidx X (sym p)) (u_nsym X)) (rules A) &&
  forallb (fun e => forallb (fun e' => negb (N.eqb (u_eidx X e) (u_eidx X e')) || env_eqb e e') (all_envs X A)) (all_envs X A) &&
  forallb (fun e => N.ltb (N.of_nat n) (u_eidx X e)) (all_envs X A).
Definition canon_uix (A : ta) (n : nat) : uix :=
  let X0 := {| u_idx := fun x => x; u_sidx := fun s => s; u_nsym := N.succ (max_sym A); u_eidx := fun _ => 0%N |} in
  {| u_idx := fun x => x; u_sidx := fun s => s; u_nsym := N.succ (max_sym A);
     u_eidx := fun e => pos_in env_eqb e (all_envs X0 A) (N.succ (N.of_nat n)) |}.

(* ---- the historical TranslateUpward (before the fix of D3): the parent stored in an environment is already an LTS
   state, and was translated through the state index a second time when the environment -> parent edge was added ---- *)
Definition up_rule_edges_old (X : uix) (leaf : N) (p : rule) : lts :=
  match ch p with
  | [] => [(leaf, u_sidx X (sym p), u_idx X (par p))]
  | [c] => [(u_idx X c, u_sidx X (sym p), u_idx X (par p))]
  | _ => flat_map (fun ce => [(u_idx X (fst ce), u_nsym X, u_eidx X (snd ce));
                              (u_eidx X (snd ce), e_sym (snd ce), u_idx X (e_par (snd ce)))]) (envs_of_rule X p)
  end.
Definition translate_up_old (X : uix) (n : nat) (A : ta) : lts := flat_map (up_rule_edges_old X (N.of_nat n)) (rules A).
Definition up_lts_sim_old (X : uix) (n : nat) (A : ta) : list (N * N) :=
  lts_sim_from (translate_up_old X n A) (up_node_init X n A).

(* an index with a given state numbering and canonical symbol / environment numbering *)
Definition mk_uix (f : N -> N) (A : ta) (n : nat) : uix :=
  let X0 := {| u_idx := f; u_sidx := fun s => s; u_nsym := N.succ (max_sym A); u_eidx := fun _ => 0%N |} in
  {| u_idx := f; u_sidx := fun s => s; u_nsym := N.succ (max_sym A);
     u_eidx := fun e => pos_in env_eqb e (all_envs X0 A) (N.succ (N.of_nat n)) |}.
