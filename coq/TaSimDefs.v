(* C04 — functional models of the downward and upward tree-automata simulations returned by
   ExplicitTreeAut::ComputeSimulation (src/explicit_tree_sim.cc): greatest fixpoints of the two step
   conditions, written as the property states them.  Definitions only (extracted); proofs in
   TaSimProofs.v.  The LTS encodings of src/explicit_tree_transl.hh are modelled in TaEncDefs.v. *)
From Coq Require Import List NArith Bool Arith.
Import ListNotations.
From V Require Import Gfp Sem Prod Incl TrimDefs LtsSimDefs.

(* children pairwise related *)
Fixpoint pairwise (R : list (N * N)) (l m : list N) : bool :=
  match l, m with
  | [], [] => true
  | x :: l', y :: m' => memP (x, y) R && pairwise R l' m'
  | _, _ => false
  end.

(* downward: every rule a(q1..qk)->q is answered by a rule a(r1..rk)->r with (qi,ri) related *)
Definition down_keep (A : ta) (R : list (N * N)) (x : N * N) : bool :=
  forallb (fun p =>
    if N.eqb (par p) (fst x)
    then existsb (fun p' => N.eqb (par p') (snd x) && N.eqb (sym p') (sym p) && pairwise R (ch p) (ch p')) (rules A)
    else true) (rules A).

Definition down_sim (A : ta) (n : nat) : list (N * N) :=
  refine (N * N) (down_keep A) (S (length (all_pairs n))) (all_pairs n).

(* all ways of writing l as a ++ y :: b  (a child position together with its siblings) *)
Fixpoint splits (l : list N) : list (list N * N * list N) :=
  match l with
  | [] => []
  | x :: r => ([], x, r) :: map (fun s => (x :: fst (fst s), snd (fst s), snd s)) (splits r)
  end.

Fixpoint listN_eqb (a b : list N) : bool :=
  match a, b with
  | [], [] => true
  | x :: a', y :: b' => N.eqb x y && listN_eqb a' b'
  | _, _ => false
  end.

(* upward: r final whenever q is; every rule using q at a child position is answered by a rule with the
   same symbol using r at the same position with identical siblings and a related parent *)
Definition up_keep (A : ta) (R : list (N * N)) (x : N * N) : bool :=
  forallb (fun p =>
    forallb (fun s =>
      if N.eqb (snd (fst s)) (fst x)
      then existsb (fun p' => N.eqb (sym p') (sym p) &&
                              listN_eqb (ch p') (fst (fst s) ++ snd x :: snd s) &&
                              memP (par p, par p') R) (rules A)
      else true) (splits (ch p))) (rules A).

Definition up_init (A : ta) (n : nat) : list (N * N) :=
  filter (fun x => implb (memN (fst x) (finals A)) (memN (snd x) (finals A))) (all_pairs n).

Definition up_sim (A : ta) (n : nat) : list (N * N) :=
  refine (N * N) (up_keep A) (S (length (up_init A n))) (up_init A n).

(* ---- renaming of states ---- *)
Definition map_pair (h : N -> N) (R : list (N * N)) : list (N * N) := map (fun x => (h (fst x), h (snd x))) R.
(* a renaming given as the list of images of 0..n-1 *)
Definition perm_fun (p : list N) (q : N) : N := nth (N.to_nat q) p q.
Definition is_perm (n : nat) (p : list N) : bool :=
  Nat.eqb (length p) n && forallb (fun q => memN q p) (seqN n).
(* inverse of a permutation list: position of y in p *)
Fixpoint index_of (y : N) (p : list N) (i : N) : N :=
  match p with [] => i | x :: r => if N.eqb x y then i else index_of y r (N.succ i) end.
Definition perm_inv (p : list N) (y : N) : N := index_of y p 0.
Definition image_ta (h : N -> N) (A : ta) : ta :=
  {| rules := map (fun r => {| sym := sym r; ch := map h (ch r); par := h (par r) |}) (rules A);
     finals := map h (finals A) |}.

(* ---- input validity ---- *)
(* states are exactly 0..n-1 : every state below n, every number below n occurs *)
Definition dense_ok (A : ta) (n : nat) : bool :=
  forallb (fun q => N.ltb q (N.of_nat n)) (states A) && forallb (fun q => memN q (states A)) (seqN n).
(* no useless states (hypothesis of the upward half) *)
Definition trimmed_ok (A : ta) : bool := no_useless A.
(* ranked alphabet: a symbol code has one arity *)
Definition ranked_ok (A : ta) : bool :=
  forallb (fun p => forallb (fun p' => if N.eqb (sym p) (sym p') then Nat.eqb (length (ch p)) (length (ch p')) else true) (rules A)) (rules A).

(* ---- gates ---- *)
Definition gate_down (A : ta) (n : nat) (impl : list (N * N)) : bool := rel_same impl (down_sim A n).
Definition gate_up (A : ta) (n : nat) (impl : list (N * N)) : bool := rel_same impl (up_sim A n).
(* equivariance evaluated on two implementation outputs: variant = image of base under h *)
Definition gate_equivariant (h : N -> N) (base variant : list (N * N)) : bool := rel_same variant (map_pair h base).
Definition is_reflexive (n : nat) (R : list (N * N)) : bool := forallb (fun q => memP (q, q) R) (seqN n).
Definition is_transitive (R : list (N * N)) : bool := brel_trans R.
