From Coq Require Import List NArith Bool Arith Lia.
Import ListNotations.
From V Require Import Fix Sem Prod Incl TrimDefs TrimProofs Lang ComplDefs.

Inductive over (S : sigma) : tree -> Prop :=
| over_node f ts : in_sigma S f (length ts) = true -> Forall (over S) ts -> over S (Node f ts).

Lemma in_sigma_spec S f k : in_sigma S f k = true <-> In (f, k) S.
Proof.
  unfold in_sigma. rewrite existsb_exists. split.
  - intros [[g j] [H E]]. simpl in E. apply andb_true_iff in E as [E1 E2]. apply N.eqb_eq in E1. apply Nat.eqb_eq in E2. subst; auto.
  - intros H. exists (f, k). split; auto. simpl. rewrite N.eqb_refl, Nat.eqb_refl. reflexivity.
Qed.

Lemma Forall2_repeat_iff (R : tree -> N -> Prop) (c : N) ts : forall k,
  Forall2 R ts (repeat c k) <-> (length ts = k /\ Forall (fun t => R t c) ts).
Proof.
  induction ts as [|t ts IH]; intros [|k]; simpl; split; intros H; try (inversion H; fail); try (destruct H; discriminate).
  - split; auto.
  - constructor.
  - inversion H as [|? ? ? ? H1 H2]; subst. apply IH in H2 as [E F]. split; auto.
  - destruct H as [E F]. inversion F; subst. constructor; auto. apply IH. split; auto.
Qed.

Lemma Forall_iff {X} (P Q : X -> Prop) l : Forall (fun x => P x <-> Q x) l -> (Forall P l <-> Forall Q l).
Proof. intros H. induction H as [|x l Hx H IH]; split; intros F; try constructor; inversion F; subst; try apply Hx; try apply IH; auto. Qed.

Lemma univ_reach S : forall t, reach (univ S) t 0%N <-> over S t.
Proof.
  induction t as [f ts IH] using tree_ind'. apply Forall_iff in IH. split.
  - intros R. inversion R as [f' ts' r Hr Hs HF]; subst. simpl in Hr. apply in_map_iff in Hr as [[g k] [<- Hg]]. simpl in *.
    apply Forall2_repeat_iff in HF as [E F]. constructor; [apply in_sigma_spec; rewrite E; auto | apply IH; auto].
  - intros O. inversion O as [f' ts' Hin HF]; subst. apply in_sigma_spec in Hin.
    change 0%N with (par {| sym := f; ch := repeat 0%N (length ts); par := 0%N |}). constructor; simpl; auto.
    + apply in_map_iff. exists (f, length ts). split; auto.
    + apply Forall2_repeat_iff. split; auto. apply IH; auto.
Qed.

Theorem univ_accepts S t : accepts (univ S) t <-> over S t.
Proof.
  unfold accepts; simpl. rewrite <- univ_reach. split; [intros [q [[<-|[]] R]]; auto | intros R; exists 0%N; auto].
Qed.

Lemma empty_ta_accepts t : ~ accepts empty_ta t.
Proof. intros [q [[] _]]. Qed.

Definition compl_prop (S : sigma) (A C : ta) :=
  (forall t, over S t -> accepts A t \/ accepts C t) /\ (forall t, ~ (accepts A t /\ accepts C t)) /\ (forall t, accepts C t -> over S t).

Theorem compl_gate_spec S A C : compl_gate S A C = true <-> compl_prop S A C.
Proof.
  unfold compl_gate, compl_prop. rewrite !andb_true_iff, !incl_dec_spec, isect_gate_spec. unfold lincl. split.
  - intros [[H1 H2] H3]. split; [|split].
    + intros t Ht. apply tagged_lang. apply H1. apply univ_accepts; auto.
    + intros t Ht. apply H2 in Ht. apply (empty_ta_accepts t Ht).
    + intros t Ht. apply univ_accepts. apply H3; auto.
  - intros [H1 [H2 H3]]. split; [split|].
    + intros t Ht. apply tagged_lang. apply H1. apply univ_accepts; auto.
    + intros t. split; [intros Ht; exfalso; apply (empty_ta_accepts t Ht) | intros Ht; exfalso; apply (H2 t Ht)].
    + intros t Ht. apply univ_accepts. apply H3; auto.
Qed.

(* in the words of the property: over Sigma, C accepts exactly what A rejects *)
Theorem compl_prop_exact S A C : compl_prop S A C -> forall t, over S t -> (accepts C t <-> ~ accepts A t).
Proof.
  intros [H1 [H2 _]] t Ht. split.
  - intros Hc Ha. apply (H2 t); auto.
  - intros Hn. destruct (H1 t Ht); [contradiction | auto].
Qed.
