(* Generic least fixpoint by bounded saturation in a finite universe (pigeonhole on |U|). *)
From Coq Require Import List Arith Lia Bool.
Import ListNotations.

Section Fix.
Variable X : Type.
Variable eq_dec : forall x y : X, {x = y} + {x <> y}.

Definition add1 (acc : list X) (x : X) : list X := if in_dec eq_dec x acc then acc else x :: acc.
Definition add_new (S news : list X) : list X := fold_left add1 news S.

Lemma add1_in acc x y : In y (add1 acc x) <-> In y acc \/ y = x.
Proof. unfold add1. destruct (in_dec eq_dec x acc) as [H|H]; simpl; split; intros; intuition; subst; auto. Qed.
Lemma add1_nodup acc x : NoDup acc -> NoDup (add1 acc x).
Proof. unfold add1. destruct (in_dec eq_dec x acc); auto. intros. constructor; auto. Qed.
Lemma add1_len acc x : length acc <= length (add1 acc x).
Proof. unfold add1. destruct (in_dec eq_dec x acc); simpl; lia. Qed.

Lemma add_new_in news : forall S y, In y (add_new S news) <-> In y S \/ In y news.
Proof. induction news as [|n ns IH]; simpl; intros S y. tauto. rewrite IH, add1_in. intuition. Qed.
Lemma add_new_nodup news : forall S, NoDup S -> NoDup (add_new S news).
Proof. induction news as [|n ns IH]; simpl; intros S H; auto. apply IH, add1_nodup, H. Qed.
Lemma add_new_len news : forall S, length S <= length (add_new S news).
Proof. induction news as [|n ns IH]; simpl; intros S; auto. specialize (IH (add1 S n)). pose proof (add1_len S n). lia. Qed.
Lemma add_new_same_len news : forall S, NoDup S -> length (add_new S news) = length S -> incl news S.
Proof.
  induction news as [|n ns IH]; simpl; intros S ND HL. intros x [].
  assert (Hl1 := add1_len S n). assert (Hl2 := add_new_len ns (add1 S n)).
  assert (E : length (add1 S n) = length S) by lia.
  assert (In n S). { unfold add1 in E. destruct (in_dec eq_dec n S); auto. simpl in E. lia. }
  assert (add1 S n = S). { unfold add1. destruct (in_dec eq_dec n S); tauto. }
  rewrite H0 in *. intros x [<-|Hx]; auto. apply IH in HL; auto.
Qed.

Variable step : list X -> list X.
Hypothesis step_mono : forall S T, incl S T -> incl (step S) (step T).

Fixpoint saturate (fuel : nat) (S : list X) : list X :=
  match fuel with
  | 0 => S
  | Datatypes.S f => let S' := add_new S (step S) in
                     if Nat.eqb (length S') (length S) then S else saturate f S'
  end.

Lemma saturate_nodup fuel : forall S, NoDup S -> NoDup (saturate fuel S).
Proof. induction fuel as [|f IH]; simpl; intros S H; auto. destruct (Nat.eqb _ _); auto. apply IH, add_new_nodup, H. Qed.

Inductive Der : X -> Prop :=
| der S x : (forall y, In y S -> Der y) -> In x (step S) -> Der x.

Lemma saturate_sound fuel : forall S, (forall y, In y S -> Der y) -> forall x, In x (saturate fuel S) -> Der x.
Proof.
  induction fuel as [|f IH]; simpl; intros S HS x Hx; auto.
  destruct (Nat.eqb _ _); auto. apply IH in Hx; auto.
  intros y Hy. apply add_new_in in Hy as [Hy|Hy]; auto. eapply der; eauto.
Qed.

Variable U : list X.
Hypothesis step_bounded : forall S, incl S U -> incl (step S) U.

Lemma saturate_closed fuel : forall S, NoDup S -> incl S U -> length U < fuel + length S ->
  incl (step (saturate fuel S)) (saturate fuel S).
Proof.
  induction fuel as [|f IH]; simpl; intros S ND HU Hf.
  - exfalso. pose proof (NoDup_incl_length ND HU). lia.
  - destruct (Nat.eqb_spec (length (add_new S (step S))) (length S)) as [E|NE].
    + apply add_new_same_len; auto.
    + apply IH.
      * apply add_new_nodup; auto.
      * intros x Hx. apply add_new_in in Hx as [Hx|Hx]; auto. eapply step_bounded; eauto.
      * pose proof (add_new_len (step S) S). lia.
Qed.

Lemma closed_complete R : incl (step R) R -> forall x, Der x -> In x R.
Proof. intros HR x D. induction D as [S x _ IH Hx]. apply HR. eapply step_mono; [|exact Hx]. exact IH. Qed.

Theorem saturate_lfp : forall x, In x (saturate (S (length U)) []) <-> Der x.
Proof.
  intros x; split.
  - apply saturate_sound. intros y [].
  - apply closed_complete. apply saturate_closed; [constructor | intros y [] | simpl; lia].
Qed.

(* ---- the same iteration with logarithmic fuel: 2^k rounds by nesting (early exit makes extra rounds harmless) ---- *)
Lemma add_new_incl_len news : forall S, incl news S -> length (add_new S news) = length S.
Proof.
  induction news as [|n ns IH]; simpl; intros S H; auto.
  assert (E : add1 S n = S). { unfold add1. destruct (in_dec eq_dec n S); auto. exfalso. apply n0, H. left; auto. }
  rewrite E. apply IH. intros x Hx. apply H. right; auto.
Qed.

Lemma saturate_stable fuel S : length (add_new S (step S)) = length S -> saturate fuel S = S.
Proof. destruct fuel; simpl; auto. intros ->. rewrite Nat.eqb_refl. reflexivity. Qed.

Lemma saturate_add n : forall m S, saturate (n + m) S = saturate m (saturate n S).
Proof.
  induction n as [|n IH]; simpl; intros m S; auto.
  destruct (Nat.eqb_spec (length (add_new S (step S))) (length S)) as [E|NE]; auto.
  symmetry. apply saturate_stable; auto.
Qed.

Fixpoint saturate2b (k : nat) (S : list X) : list X * bool :=
  match k with
  | 0 => let S' := add_new S (step S) in
         if Nat.eqb (length S') (length S) then (S, true) else (S', false)
  | Datatypes.S k' => let (S1, b1) := saturate2b k' S in
                      if b1 then (S1, true) else saturate2b k' S1
  end.
Definition saturate2 (k : nat) (S : list X) : list X := fst (saturate2b k S).

Lemma saturate2b_spec k : forall S,
  fst (saturate2b k S) = saturate (2 ^ k) S /\
  (snd (saturate2b k S) = true -> length (add_new (fst (saturate2b k S)) (step (fst (saturate2b k S)))) = length (fst (saturate2b k S))).
Proof.
  induction k as [|k IH]; intros S.
  - simpl. destruct (Nat.eqb_spec (length (add_new S (step S))) (length S)) as [E|NE]; simpl; split; auto; discriminate.
  - cbn [saturate2b]. destruct (IH S) as [E1 F1]. destruct (saturate2b k S) as [S1 b1]. simpl in E1, F1.
    replace (2 ^ Datatypes.S k) with (2 ^ k + 2 ^ k) by (simpl; lia). rewrite saturate_add, <- E1.
    destruct b1.
    + simpl. split; auto. symmetry. apply saturate_stable. auto.
    + apply IH.
Qed.

Lemma saturate2_pow k S : saturate2 k S = saturate (2 ^ k) S.
Proof. apply saturate2b_spec. Qed.

Theorem saturate_more n : S (length U) <= n -> saturate n [] = saturate (S (length U)) [].
Proof.
  intros H. replace n with (S (length U) + (n - S (length U))) by lia. rewrite saturate_add.
  apply saturate_stable. apply add_new_incl_len.
  apply saturate_closed; [constructor | intros y [] | simpl; lia].
Qed.

Theorem saturate2_lfp k : S (length U) <= 2 ^ k -> forall x, In x (saturate2 k []) <-> Der x.
Proof. intros H x. rewrite saturate2_pow, (saturate_more _ H). apply saturate_lfp. Qed.
End Fix.
