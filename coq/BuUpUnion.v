(* C07 — the post-image step of CheckUpwardTreeInclusion as it was before the fix (defect D9): for every child position
   the UNION of all macro-states known for the child state is used instead of one choice per position. The model of
   that step answers "included" on the D9 pair, the verified decider does not. *)
From Coq Require Import List NArith Bool Arith.
Import ListNotations.
From V Require Import Fix Sem Prod Incl TrimDefs AntichainUp.

Definition union_of (R : list mp) (q : N) : list N := nodup N.eq_dec (concat (lookup R q)).
Definition has_entry (R : list mp) (q : N) : bool := existsb (fun p => N.eqb (fst p) q) R.

(* one macro pair per rule whose children all have an entry, built from the unions *)
Definition mstep_union (A B : ta) (R : list mp) : list mp :=
  flat_map (fun r => if forallb (has_entry R) (ch r)
                     then [(par r, postB B (sym r) (map (union_of R) (ch r)))] else []) (rules A).
Definition up_union_reach (A B : ta) : list mp :=
  saturate2 mp mp_eq_dec (mstep_union A B) (length (states A) + length (QB B)) [].
Definition up_union (A B : ta) : bool := forallb (pair_ok A B) (up_union_reach A B).

Definition d9_A : ta := {| rules := [ {| sym := 0; ch := []; par := 0 |}; {| sym := 1; ch := []; par := 0 |};
                                     {| sym := 3; ch := [0%N; 0%N]; par := 1 |} ]; finals := [1%N] |}.
Definition d9_B : ta := {| rules := [ {| sym := 0; ch := []; par := 1 |}; {| sym := 1; ch := []; par := 2 |};
                                     {| sym := 3; ch := [1%N; 1%N]; par := 3 |}; {| sym := 3; ch := [2%N; 2%N]; par := 3 |} ]; finals := [3%N] |}.

Theorem bu_up_union_refuted : up_union d9_A d9_B = true /\ incl_dec d9_A d9_B = false /\ up_ac d9_A d9_B = false.
Proof. vm_compute. repeat split; reflexivity. Qed.
