From Coq Require Import List NArith Bool Arith Lia.
Import ListNotations.
From V Require Import Fix Gfp Sem Prod Incl TrimDefs TrimProofs Lang BinopDefs BinopProofs ReduceDefs.

Lemma relb_spec D q r : relb D q r = true <-> In (q, r) D.
Proof.
  unfold relb. rewrite existsb_exists. split.
  - intros [[a b] [H E]]. simpl in E. apply andb_true_iff in E as [E1 E2]. apply N.eqb_eq in E1, E2. subst; auto.
  - intros H. exists (q, r). split; auto. simpl. rewrite !N.eqb_refl. reflexivity.
Qed.

Lemma all2_spec D : forall qs rs, all2 D qs rs = true <-> Forall2 (fun q r => In (q, r) D) qs rs.
Proof.
  induction qs as [|q qs IH]; intros [|r rs]; simpl; split; intros H; try discriminate; try constructor; try (inversion H; fail).
  - apply andb_true_iff in H as [H1 H2]. apply relb_spec; auto.
  - apply andb_true_iff in H as [H1 H2]. apply IH; auto.
  - inversion H; subst. apply andb_true_iff. split; [apply relb_spec; auto | apply IH; auto].
Qed.

(* D is a downward simulation on A *)
Definition is_down_sim (A : ta) (D : list pr) :=
  forall q r, In (q, r) D -> forall rq, In rq (rules A) -> par rq = q ->
    exists rr, In rr (rules A) /\ par rr = r /\ sym rr = sym rq /\ Forall2 (fun a b => In (a, b) D) (ch rq) (ch rr).

Lemma is_down_simb_spec A D : is_down_simb A D = true <-> is_down_sim A D.
Proof.
  unfold is_down_simb, is_down_sim. rewrite forallb_forall. split.
  - intros H q r Hqr rq Hrq Hp. specialize (H (q, r) Hqr). unfold down_keep in H. rewrite forallb_forall in H.
    specialize (H rq Hrq). simpl in H. rewrite Hp, N.eqb_refl in H. simpl in H.
    apply existsb_exists in H as [rr [Hrr E]]. apply andb_true_iff in E as [E E3]. apply andb_true_iff in E as [E1 E2].
    apply N.eqb_eq in E1, E2. apply all2_spec in E3. exists rr; auto.
  - intros H [q r] Hqr. unfold down_keep. apply forallb_forall. intros rq Hrq. simpl.
    destruct (N.eqb_spec (par rq) q) as [E|NE]; simpl; auto.
    destruct (H q r Hqr rq Hrq E) as [rr [Hrr [E1 [E2 E3]]]]. apply existsb_exists. exists rr. split; auto.
    rewrite E1, E2, !N.eqb_refl. simpl. apply all2_spec; auto.
Qed.

(* a downward simulation transfers runs *)
Lemma Forall2_sim_step (P : tree -> N -> Prop) (D : list pr) : forall qs rs ts,
  Forall2 (fun a b => In (a, b) D) qs rs -> Forall2 (fun t q => forall r, In (q, r) D -> P t r) ts qs -> Forall2 P ts rs.
Proof.
  induction qs as [|q qs IHq]; intros rs ts F IH; inversion F; subst; inversion IH; subst; constructor; auto.
Qed.

Lemma sim_reach A D : is_down_sim A D -> forall t q, reach A t q -> forall r, In (q, r) D -> reach A t r.
Proof.
  intros HD. apply (reach_ind' A (fun t q => forall r, In (q, r) D -> reach A t r)).
  intros f ts rq Hrq Hs _ IH r Hqr. destruct (HD _ _ Hqr rq Hrq eq_refl) as [rr [Hrr [E1 [E2 E3]]]].
  subst. rewrite <- E2. constructor; auto. eapply Forall2_sim_step; eauto.
Qed.

Definition valid_rep (A : ta) (D : list pr) (rep : N -> N) :=
  forall q, In q (states A) -> In (q, rep q) D /\ In (rep q, q) D.
Lemma valid_repb_spec A D rep : valid_repb A D rep = true <-> valid_rep A D rep.
Proof. unfold valid_repb, valid_rep. rewrite forallb_forall. split; intros H q Hq; specialize (H q Hq).
  - apply andb_true_iff in H as [H1 H2]. split; apply relb_spec; auto.
  - apply andb_true_iff. split; apply relb_spec; tauto. Qed.

(* the quotient keeps the language *)
Lemma quot_reach A D rep : is_down_sim A D -> valid_rep A D rep ->
  forall t s, reach (image rep A) t s -> reach A t s.
Proof.
  intros HD HV. apply (reach_ind' (image rep A) (fun t s => reach A t s)).
  intros f ts r' Hr' Hs _ IH. simpl in Hr'. apply in_map_iff in Hr' as [r [<- Hr]]. simpl in *.
  assert (R : reach A (Node f ts) (par r)).
  { rewrite <- Hs. constructor; auto.
    assert (Hc : forall c, In c (ch r) -> In c (states A)) by (apply rule_states; auto).
    clear Hr Hs. revert ts IH Hc. induction (ch r) as [|c cs IHc]; intros ts IH Hc; simpl in IH; inversion IH; subst; constructor.
    - eapply sim_reach; eauto. apply HV. apply Hc; left; auto.
    - apply IHc; auto. intros; apply Hc; right; auto. }
  eapply sim_reach; eauto. apply HV. apply (proj1 (rule_states A r Hr)).
Qed.

Theorem quot_lang A D rep : is_down_sim A D -> valid_rep A D rep -> leq (image rep A) A.
Proof.
  intros HD HV t. split; [|apply image_lang_sup].
  intros [s [Hs R]]. simpl in Hs. apply in_map_iff in Hs as [q [<- Hq]].
  exists q. split; auto. eapply sim_reach; eauto. eapply quot_reach; eauto. apply HV. apply finals_states; auto.
Qed.

Theorem reduce_lang A D rep : is_down_simb A D = true -> valid_repb A D rep = true -> leq (reduce_with rep A) A.
Proof.
  intros HD HV t. unfold reduce_with. rewrite (unreach_lang_any shortcut (image rep A) t).
  apply quot_lang with (D := D); [apply is_down_simb_spec | apply valid_repb_spec]; auto.
Qed.

(* sizes never grow *)
Lemma nodup_map_le {X Y} (dx : forall a b : X, {a = b} + {a <> b}) (dy : forall a b : Y, {a = b} + {a <> b}) (f : X -> Y) l :
  length (nodup dy (map f l)) <= length (nodup dx l).
Proof.
  rewrite <- (map_length f (nodup dx l)). apply NoDup_incl_length; [apply NoDup_nodup|].
  intros y Hy. apply nodup_In in Hy. apply in_map_iff in Hy as [x [<- Hx]]. apply in_map. apply nodup_In; auto.
Qed.
Lemma nodup_incl_le {X} (dx : forall a b : X, {a = b} + {a <> b}) l m : incl l m -> length (nodup dx l) <= length (nodup dx m).
Proof. intros H. apply NoDup_incl_length; [apply NoDup_nodup|]. intros x Hx. apply nodup_In. apply H. apply nodup_In in Hx; auto. Qed.

Lemma image_states_map h A : incl (states (image h A)) (map h (states A)).
Proof. intros x Hx. apply image_states in Hx as [y [Hy ->]]. apply in_map; auto. Qed.

Theorem reduce_states_le rep A : nstates (reduce_with rep A) <= nstates A.
Proof.
  unfold nstates, ustates, reduce_with. etransitivity; [|apply (nodup_map_le N.eq_dec N.eq_dec rep (states A))].
  apply nodup_incl_le. intros x Hx. apply image_states_map.
  revert Hx. apply states_sub; [apply unreach_rules_sub | rewrite unreach_finals; apply incl_refl].
Qed.

Theorem reduce_rules_le rep A : nrules (reduce_with rep A) <= nrules A.
Proof.
  unfold nrules, reduce_with. etransitivity; [|apply (nodup_map_le rule_eq_dec rule_eq_dec (map_rule rep) (rules A))].
  apply nodup_incl_le. apply (unreach_rules_sub (image rep A)).
Qed.

Theorem reduce_onto rep A s : In s (states (reduce_with rep A)) -> exists q, In q (states A) /\ s = rep q.
Proof.
  intros Hs. apply image_states. revert Hs. unfold reduce_with. apply states_sub; [apply unreach_rules_sub | rewrite unreach_finals; apply incl_refl].
Qed.

(* the gate decides the property on libvata's result *)
Definition reduce_prop (A R : ta) :=
  leq R A /\ nstates R <= nstates A /\ nrules R <= nrules A /\
  forall s, In s (states R) -> exists q, In q (states A) /\ forall t, reach R t s <-> reach A t q.

Theorem reduce_gate_spec A R : reduce_gate A R = true <-> reduce_prop A R.
Proof.
  unfold reduce_gate, reduce_prop. rewrite !andb_true_iff, equiv_dec_spec, !Nat.leb_le. unfold onto_gate. rewrite forallb_forall.
  split.
  - intros [[[H1 H2] H3] H4]. split; [exact H1|]. split; [exact H2|]. split; [exact H3|]. intros s Hs. specialize (H4 s (proj2 (ustates_in R s) Hs)).
    apply existsb_exists in H4 as [q [Hq H]]. exists q. split; [apply ustates_in; auto | apply same_state_lang_spec; auto].
  - intros [H1 [H2 [H3 H4]]]. split; [split; [split|]|]; auto. intros s Hs. apply ustates_in in Hs. destruct (H4 s Hs) as [q [Hq H]].
    apply existsb_exists. exists q. split; [apply ustates_in; auto | apply same_state_lang_spec; auto].
Qed.

(* non-vacuity: two equivalent states are merged; the computed relation is a simulation and the representative map valid *)
Example reduce_example :
  let A := {| rules := [ {| sym := 0; ch := []; par := 0 |}; {| sym := 0; ch := []; par := 1 |};
                         {| sym := 2; ch := [0%N]; par := 2 |}; {| sym := 2; ch := [1%N]; par := 2 |} ]; finals := [2%N] |} in
  let D := down_sim_rel A in
  let rep := fun q => if N.eqb q 1 then 0%N else q in
  is_down_simb A D = true /\ valid_repb A D rep = true /\ nstates (reduce_with rep A) = 2 /\ reduce_gate A (reduce_with rep A) = true.
Proof. vm_compute. repeat split; reflexivity. Qed.
