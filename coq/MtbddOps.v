(* C17 / C18 — the leaf operations used by the correspondence drivers, by code, on the printed
   representation of the two leaf domains (the same tables as harness/drv/mtbdd_common.hh):
   dom = false: unsigned values 0..3;  dom = true: subsets of {0,1,2} as bit masks 0..7.
   Also: the value sets shown to the traversing (void) apply functors.  Definitions only. *)
From Coq Require Import List NArith Bool.
From V Require Import MtbddDefs.
Import ListNotations.
Local Open Scope N_scope.

Definition op1 (dom : bool) (f : N) (a : N) : N :=
  if dom then
    match f with 0 => N.lxor 7 a | 1 => a | 2 => 0 | _ => N.land a 1 end
  else
    match f with 0 => (a + 1) mod 4 | 1 => a mod 2 | 2 => 1 | 3 => a | _ => 3 - a end.
Definition op2 (dom : bool) (f : N) (a b : N) : N :=
  if dom then
    match f with 0 => N.lor a b | 1 => N.land a b | 2 => N.ldiff a b | _ => N.lxor a b end
  else
    match f with
    | 0 => (a + b) mod 4 | 1 => N.max a b | 2 => N.min a b | 3 => (a * b) mod 4
    | 4 => a | 5 => b | _ => if a =? b then 1 else 0
    end.
Definition op3 (dom : bool) (f : N) (a b c : N) : N :=
  if dom then
    match f with 0 => N.lor (N.lor a b) c | 1 => N.lor (N.land a b) c | _ => N.ldiff (N.ldiff a b) c end
  else
    match f with
    | 0 => (a + b + c) mod 4 | 1 => if a =? 0 then c else b | _ => N.max a (N.min b c)
    end.

(* all total assignments over n variables *)
Definition totals (n : nat) : list (list tri) := refinements (repeat TX n).

Section RANGE.
Variable V : Type.
Variable V_eq_dec : forall a b : V, {a = b} + {a <> b}.
(* what VoidApply1Functor shows to ApplyOperation: every leaf of the diagram *)
Fixpoint leaves (d : dd V) : list V :=
  match d with Leaf v => [v] | Nd _ l h => leaves l ++ leaves h end.
Fixpoint size_dd (d : dd V) : nat := match d with Leaf _ => 0 | Nd _ l h => S (size_dd l + size_dd h) end.
Definition memb (v : V) (l : list V) : bool := existsb (fun u => if V_eq_dec u v then true else false) l.
Definition same_set (a b : list V) : bool := forallb (fun v => memb v b) a && forallb (fun v => memb v a) b.
End RANGE.
