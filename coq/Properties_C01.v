(* C01 — explicit tree-automata inclusion is exact under every algorithm selection. Statements only. *)
From Coq Require Import List NArith Bool.
From V Require Import Sem Prod Incl TrimDefs TrimProofs Lang InclDefs InclProofs AntichainUp AntichainUpW AntichainUpSim DownIncl BinopDefs BinopProofs ReduceDefs ReduceProofs DownInclSim SharedTable DownInclCacheDefs DownInclCacheProofs DownInclOptDefs DownInclOptProofs NegCache.

(* the verdict function every selection must compute (prepare by trimming, then decide) is exact *)
Theorem C01_exact : forall v A B, incl_model v A B = true <-> (forall t, accepts A t -> accepts B t).
Proof. exact incl_model_exact. Qed.
(* ... hence all selections agree *)
Theorem C01_agree : forall v w A B, incl_model v A B = incl_model w A B.
Proof. exact incl_model_agree. Qed.
(* the gate applied to every verdict libvata reports decides exactly the property *)
Theorem C01_gate_verdict : forall A B b, gate_verdict A B b = true <-> (b = true <-> forall t, accepts A t -> accepts B t).
Proof. exact gate_verdict_spec. Qed.
Theorem C01_model_passes_gate : forall v A B, gate_verdict A B (incl_model v A B) = true.
Proof. exact model_passes_gate. Qed.
(* operand preparation: if the prepared operands have the operands' languages the verdict on them is the verdict *)
Theorem C01_prepared : forall A B A' B', prepared_lang A B A' B' = true ->
  ((forall t, accepts A' t -> accepts B' t) <-> (forall t, accepts A t -> accepts B t)).
Proof. exact prepared_lang_spec. Qed.
(* the underlying decider *)
Theorem C01_incl_dec : forall A B, incl_dec A B = true <-> forall t, accepts A t -> accepts B t.
Proof. exact incl_dec_spec. Qed.
(* leaf branch of the non-recursive downward checker: as fixed it is exact, as it was it is not *)
Theorem C01_nonrec_leaf : forall B a S, leaf_match B a S = true <-> exists p, In p S /\ reach B (Node a nil) p.
Proof. exact leaf_match_spec. Qed.
Theorem C01_nonrec_leaf_old_refuted : exists B a S, leaf_match_old B a S = true /\ ~ exists p, In p S /\ reach B (Node a nil) p.
Proof. exact leaf_match_old_refuted. Qed.

(* (A) upward algorithm with antichain pruning: saturation of macro pairs (q, S) that skips every new pair subsumed by a
   stored pair (q, S') with S' a subset of S gives the same verdict as the full subset construction *)
Theorem C01_up_antichain_refines : forall A B, up_ac A B = incl_dec A B.
Proof. exact up_antichain_refines. Qed.
Theorem C01_up_antichain_exact : forall A B, up_ac A B = true <-> forall t, accepts A t -> accepts B t.
Proof. exact up_antichain_exact. Qed.

(* (A) the same algorithm as the code runs it: a work list, an antichain of processed pairs, the `contains` test on a popped pair,
   the acceptance test that ends the run with "not included", `refine` (processed pairs subsumed by the new one are deleted) and
   the consequences the new pair adds: a run that ends returns the decider's verdict, for every fuel *)
Theorem C01_up_worklist_refines : forall A B fuel b, up_worklist A B fuel = Some b -> b = incl_dec A B.
Proof. exact up_worklist_refines. Qed.
Theorem C01_up_worklist_exact : forall A B fuel b, up_worklist A B fuel = Some b -> (b = true <-> forall t, accepts A t -> accepts B t).
Proof. exact up_worklist_exact. Qed.
(* a work list ordered by (size of the macro-state, state) WITHOUT a tie-break on the macro-state drops a pending pair: refuted *)
Theorem C01_up_worklist_keyed_refuted :
  up_worklist_keyed kA kB 20 = Some true /\ incl_dec kA kB = false /\ up_worklist kA kB 20 = Some false.
Proof. exact up_worklist_keyed_refuted. Qed.

(* (A) upward inclusion WITH a simulation preorder: macro-states are kept minimal w.r.t. the relation (a state is not added below a
   stored one, states below a new one are removed) and a popped pair is skipped when a processed pair with the same state of the smaller
   automaton has a macro-state below its own. For every relation that is reflexive and transitive on the states of the bigger automaton,
   keeps final states upward closed and lets a rule be replayed with one child replaced by a larger one (UpSim — what an upward
   simulation induced by the identity provides), a run that ends returns the decider's verdict, for every fuel. (The two prunings that
   compare states of the smaller automaton through the relation on the union automaton are not modelled.) *)
Theorem C01_up_sim_refines : forall le B, UpSim le B -> forall A fuel b, up_worklist_sim le A B fuel = Some b -> b = incl_dec A B.
Proof. exact up_worklist_sim_refines. Qed.
Theorem C01_up_sim_exact : forall le A B fuel b, UpSim le B -> up_worklist_sim le A B fuel = Some b ->
  (b = true <-> forall t, accepts A t -> accepts B t).
Proof. exact up_worklist_sim_exact. Qed.
(* the identity satisfies the hypothesis on every automaton; the hypothesis is decidable on a given automaton *)
Theorem C01_up_sim_identity : forall A B fuel b, up_worklist_sim N.eqb A B fuel = Some b -> b = incl_dec A B.
Proof. exact up_worklist_sim_identity. Qed.
Theorem C01_up_sim_hypothesis_decidable : forall le B, upsim_b le B = true -> UpSim le B.
Proof. exact upsim_b_sound. Qed.
(* the same run with the greatest relation the model computes on the bigger automaton (by refinement from "final states upward closed"),
   used only when it passes the decidable hypothesis check: whatever it answers is the decider's verdict *)
Theorem C01_up_sim_model_refines : forall fuel A B b, up_sim_model fuel A B = Some b -> b = incl_dec A B.
Proof. exact up_sim_model_refines. Qed.
(* non-vacuity: a relation that is not the identity satisfies the hypothesis, the runs end, minimisation really removes a state *)
Example C01_up_sim_example : UpSim us_le us_B /\ us_le 1 2 = true /\ us_le 2 1 = false /\
  up_worklist_sim us_le us_A us_B 20 = Some true /\ up_worklist_sim us_le us_A2 us_B 20 = Some false /\
  AntichainUpSim.minimize us_le (List.cons 1 (List.cons 2 List.nil))%N = (List.cons 2 List.nil)%N.
Proof. exact upsim_example. Qed.

(* (A) recursive downward algorithm (identity preorder, no caches): choice functions over the tuples of the bigger automaton,
   open goals on the call stack assumed (coinduction). Whatever the fuel, an answer is the truth; None = out of fuel. *)
Theorem C01_down_partial_correct : forall A B fuel b, down_incl A B fuel = Some b -> (b = true <-> forall t, accepts A t -> accepts B t).
Proof. exact down_incl_partial_correct. Qed.
Theorem C01_down_state_correct : forall A B fuel q S b, down A B fuel q S nil = Some b ->
  (b = true <-> forall t, reach A t q -> exists s, In s S /\ reach B t s).
Proof. exact down_partial_correct. Qed.
Theorem C01_down_refines : forall A B fuel b, down_incl A B fuel = Some b -> b = incl_dec A B.
Proof. exact down_incl_refines. Qed.

(* (A) ... and WITH a simulation preorder: a goal (q, S) is answered at once when q is simulated by some s in S. If the relation
   handed in is a downward simulation on the disjoint union of the prepared operands (what sanitize + UnionDisjointStates +
   ComputeSimulation establish; the checker [is_down_simb] decides it), every answer is still the truth *)
Theorem C01_down_sim_partial_correct : forall D A B fuel b,
  disjointb (states A) (states B) = true -> is_down_simb (ta_app A B) D = true ->
  downs_incl D A B fuel = Some b -> (b = true <-> forall t, accepts A t -> accepts B t).
Proof. exact downs_incl_partial_correct_b. Qed.

(* operands that share one transition table (copies differing in their final states): comparing the final states is a sufficient
   test for inclusion, not a necessary one - a checker may use it only to answer "included" *)
Theorem C01_shared_table_finals_sufficient : forall A F G, fsub F G -> lincl (with_finals F A) (with_finals G A).
Proof. exact shared_finals_incl. Qed.
Theorem C01_shared_table_finals_not_necessary : exists A F G, lincl (with_finals F A) (with_finals G A) /\ ~ fsub F G.
Proof. exact shared_finals_incl_not_necessary. Qed.

(* (A) the same algorithm WITH the cache of positive answers. One cache per expansion (it dies with the expansion, as in
   DownwardInclusionFunctor): whatever the fuel, an answer is the truth. ONE cache for the whole computation: "included" is answered for a
   pair that is not (an answer obtained under a coinductive hypothesis outlives the refutation of the hypothesis). *)
Theorem C01_down_cache_scoped_partial_correct : forall A B fuel b, downc_incl false A B fuel = Some b -> (b = true <-> forall t, accepts A t -> accepts B t).
Proof. exact downc_scoped_partial_correct. Qed.
Theorem C01_down_cache_scoped_refines : forall A B fuel b, downc_incl false A B fuel = Some b -> b = incl_dec A B.
Proof. exact downc_scoped_refines. Qed.
Theorem C01_down_cache_shared_refuted : downc_incl true trapA trapB 30 = Some true /\ ~ lincl trapA trapB /\ downc_incl false trapA trapB 30 = Some false.
Proof. exact downc_shared_refuted. Qed.

(* (A) the same algorithm with the IMPLICATION CACHE of the "opt" selections (OptDownwardInclusionFunctor): every positive answer carries
   its antecedent (the open goals it was obtained under) and its consequents; a goal leaves its own antecedent when its expansion succeeds;
   consequents are promoted to the global cache only when the antecedent is empty. Whatever the fuel, an answer is the truth. Promoting the
   consequents regardless of the antecedent is refuted. *)
Theorem C01_down_opt_partial_correct : forall A B fuel b, downo_incl false A B fuel = Some b -> (b = true <-> forall t, accepts A t -> accepts B t).
Proof. exact downo_partial_correct. Qed.
Theorem C01_down_opt_refines : forall A B fuel b, downo_incl false A B fuel = Some b -> b = incl_dec A B.
Proof. exact downo_refines. Qed.
Theorem C01_down_opt_careless_refuted : downo_incl true trapA trapB 30 = Some true /\ ~ lincl trapA trapB /\ downo_incl false trapA trapB 30 = Some false.
Proof. exact downo_careless_refuted. Qed.

(* the cache of refuted goals: a refutation of (p, P) refutes (q, S) when p lies below q and S inside P; with the preorder the other way
   round it does not *)
Theorem C01_neg_cache_sound : forall A B p q P S, ~ Incl A B p P -> below A p q -> incl S P -> ~ Incl A B q S.
Proof. exact neg_cache_sound. Qed.
Theorem C01_neg_cache_wrong_side_refuted : below ncA 2%N 1%N /\ ~ Incl ncA ncB 1%N (5%N :: nil) /\ Incl ncA ncB 2%N (5%N :: nil).
Proof. exact neg_cache_wrong_side_refuted. Qed.

Print Assumptions C01_exact.
Print Assumptions C01_down_sim_partial_correct.
Print Assumptions C01_down_partial_correct.
Print Assumptions C01_down_state_correct.
Print Assumptions C01_down_refines.
Print Assumptions C01_up_antichain_refines.
Print Assumptions C01_up_antichain_exact.
Print Assumptions C01_agree.
Print Assumptions C01_gate_verdict.
Print Assumptions C01_model_passes_gate.
Print Assumptions C01_prepared.
Print Assumptions C01_incl_dec.
Print Assumptions C01_nonrec_leaf.
Print Assumptions C01_nonrec_leaf_old_refuted.
Print Assumptions C01_shared_table_finals_sufficient.
Print Assumptions C01_shared_table_finals_not_necessary.
Print Assumptions C01_down_cache_scoped_partial_correct.
Print Assumptions C01_down_cache_scoped_refines.
Print Assumptions C01_down_cache_shared_refuted.
Print Assumptions C01_down_opt_partial_correct.
Print Assumptions C01_down_opt_refines.
Print Assumptions C01_down_opt_careless_refuted.
Print Assumptions C01_neg_cache_sound.
Print Assumptions C01_neg_cache_wrong_side_refuted.
Print Assumptions C01_up_worklist_refines.
Print Assumptions C01_up_worklist_exact.
Print Assumptions C01_up_worklist_keyed_refuted.
Print Assumptions C01_up_sim_refines.
Print Assumptions C01_up_sim_exact.
Print Assumptions C01_up_sim_identity.
Print Assumptions C01_up_sim_hypothesis_decidable.
Print Assumptions C01_up_sim_example.
Print Assumptions C01_up_sim_model_refines.
