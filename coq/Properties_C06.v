(* C06 — Complement accepts exactly the trees over the alphabet that the automaton rejects. Statements only. *)
From Coq Require Import List NArith Bool.
From V Require Import Sem Prod Incl TrimDefs Lang ComplDefs ComplProofs ComplModel.

(* the gate evaluated on libvata's result C decides: over Sigma every tree is accepted by A or C, never by both,
   and C accepts no tree that is not over Sigma *)
Theorem C06_gate : forall S A C, compl_gate S A C = true <->
  (forall t, over S t -> accepts A t \/ accepts C t) /\ (forall t, ~ (accepts A t /\ accepts C t)) /\ (forall t, accepts C t -> over S t).
Proof. exact compl_gate_spec. Qed.
(* ... which is the property in its own words *)
Theorem C06_exact : forall S A C, compl_gate S A C = true -> forall t, over S t -> (accepts C t <-> ~ accepts A t).
Proof. intros S A C H. apply compl_prop_exact. apply compl_gate_spec. exact H. Qed.
Theorem C06_alphabet : forall S A C, compl_gate S A C = true -> forall t, accepts C t -> over S t.
Proof. intros S A C H. apply compl_gate_spec in H. apply H. Qed.
(* the universal automaton used by the gate accepts exactly the trees over Sigma *)
Theorem C06_univ : forall S t, accepts (univ S) t <-> over S t.
Proof. exact univ_accepts. Qed.

(* the construction of ExplicitDownwardComplementation::Compute (one rule per choice function over the rules of a
   macro-state, empty macro-states for W = [], leaf rules only for W = []) as a top-down run relation over macro-states:
   a macro-state P accepts t exactly when t is over Sigma and no state of P accepts t in A *)
Theorem C06_construction_macro_spec : forall S A, ranked S A = true -> sigma_fun S ->
  forall t P, crun S A t P <-> (over S t /\ forall q, In q P -> ~ reach A t q).
Proof. exact macro_spec. Qed.
(* ... so from the root macro-state (the final states of A) it accepts exactly the trees over Sigma that A rejects *)
Theorem C06_construction_exact : forall S A, ranked S A = true -> sigma_fun S ->
  forall t, crun S A t (finals A) <-> (over S t /\ ~ accepts A t).
Proof. exact compl_exact. Qed.
(* macro-states are sets (sorting / hashing them is sound) *)
Theorem C06_construction_set_ext : forall S A, ranked S A = true -> sigma_fun S ->
  forall t P P', (forall q, In q P <-> In q P') -> (crun S A t P <-> crun S A t P').
Proof. exact crun_set_ext. Qed.

Print Assumptions C06_gate.
Print Assumptions C06_construction_macro_spec.
Print Assumptions C06_construction_exact.
Print Assumptions C06_construction_set_ext.
Print Assumptions C06_exact.
Print Assumptions C06_alphabet.
Print Assumptions C06_univ.
