(* C06 — Complement accepts exactly the trees over the alphabet that the automaton rejects. Statements only. *)
From Coq Require Import List NArith Bool.
From V Require Import Sem Prod Incl TrimDefs Lang ComplDefs ComplProofs.

(* the gate evaluated on libvata's result C decides: over Sigma every tree is accepted by A or C, never by both,
   and C accepts no tree that is not over Sigma *)
Theorem C06_gate : forall S A C, compl_gate S A C = true <->
  (forall t, over S t -> accepts A t \/ accepts C t) /\ (forall t, ~ (accepts A t /\ accepts C t)) /\ (forall t, accepts C t -> over S t).
Proof. exact compl_gate_spec. Qed.
(* ... which is the property in its own words *)
Theorem C06_exact : forall S A C, compl_gate S A C = true -> forall t, over S t -> (accepts C t <-> ~ accepts A t).
Proof. intros S A C H. apply compl_prop_exact. apply compl_gate_spec. exact H. Qed.
Theorem C06_alphabet : forall S A C, compl_gate S A C = true -> forall t, accepts C t -> over S t.
Proof. intros S A C H. apply compl_gate_spec in H. apply H. Qed.
(* the universal automaton used by the gate accepts exactly the trees over Sigma *)
Theorem C06_univ : forall S t, accepts (univ S) t <-> over S t.
Proof. exact univ_accepts. Qed.

Print Assumptions C06_gate.
Print Assumptions C06_exact.
Print Assumptions C06_alphabet.
Print Assumptions C06_univ.
