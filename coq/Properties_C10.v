(* C10 — NFA Union, UnionDisjointStates, Intersection, Reverse, RemoveUnreachableStates,
   RemoveUselessStates, GetCandidateTree.  Nothing but statements closed by [exact];
   the proofs are in NfaProofs.v (word semantics and deciders: Lang.v). *)
From Coq Require Import List NArith Bool.
From V Require Import Sem Prod Incl TrimDefs Lang NfaDefs NfaProofs NfaCandProofs.

(* Union through the reported translation maps accepts exactly the union, for every valid pair of maps *)
Theorem C10_nunion_lang : forall hA hB A B, valid_nunion hA hB A B ->
  forall w, waccepts (nunion_with hA hB A B) w <-> waccepts A w \/ waccepts B w.
Proof. exact nunion_lang. Qed.
Print Assumptions C10_nunion_lang.
(* the validity predicate is decided by the boolean the check evaluates, and is satisfiable *)
Theorem C10_valid_nunionb : forall hA hB A B, valid_nunionb hA hB A B = true <-> valid_nunion hA hB A B.
Proof. exact valid_nunionb_spec. Qed.
Example C10_valid_nunion_sat : forall A B, valid_nunion d0 d1 A B.
Proof. exact d01_valid. Qed.
(* UnionDisjointStates accepts exactly the union when the state sets are disjoint *)
Theorem C10_nunion_disjoint_lang : forall A B, disjoint (nstates A) (nstates B) ->
  forall w, waccepts (nunion_disjoint A B) w <-> waccepts A w \/ waccepts B w.
Proof. exact nunion_disjoint_lang. Qed.
Print Assumptions C10_nunion_disjoint_lang.
(* Intersection: product from the start pairs (a pair is initial iff both components are),
   trimmed, under any pairing that is injective on the operands' states *)
Theorem C10_nisect_lang : forall pr A B, inj2_on pr (nstates A) (nstates B) ->
  forall w, waccepts (nisect pr A B) w <-> waccepts A w /\ waccepts B w.
Proof. exact nisect_lang. Qed.
Print Assumptions C10_nisect_lang.
Theorem C10_inj2_onb : forall pr la lb, inj2_onb pr la lb = true -> inj2_on pr la lb.
Proof. exact inj2_onb_spec. Qed.
Example C10_inj2_on_sat : forall A B, inj2_on (pr0 (nbound B)) (nstates A) (nstates B).
Proof. exact pr0_inj. Qed.
(* Reverse accepts exactly the mirror images *)
Theorem C10_nreverse_lang : forall A w, waccepts (nreverse A) w <-> waccepts A (rev w).
Proof. exact nreverse_lang. Qed.
Print Assumptions C10_nreverse_lang.
(* RemoveUnreachableStates and RemoveUselessStates (= unreach, reverse, unreach, reverse) keep the language *)
Theorem C10_nunreach_lang : forall A w, waccepts (nunreach A) w <-> waccepts A w.
Proof. exact nunreach_lang. Qed.
Print Assumptions C10_nunreach_lang.
Theorem C10_nuseless_lang : forall A w, waccepts (nuseless A) w <-> waccepts A w.
Proof. exact nuseless_lang. Qed.
Print Assumptions C10_nuseless_lang.
(* ... and every state RemoveUselessStates leaves is reachable from a start state and reaches a final state *)
Theorem C10_nuseless_useful : forall A x, In x (nstates (nuseless A)) -> nuseful A x.
Proof. exact nuseless_useful. Qed.
(* GetCandidateTree: a result accepted by [ncandidate_ok] has a sub-language and is non-empty if A is *)
Theorem C10_ncandidate_sub : forall A R, ncandidate_ok A R = true -> wlincl R A.
Proof. exact ncandidate_sub. Qed.
Theorem C10_ncandidate_nonempty : forall A R, ncandidate_ok A R = true -> (exists w, waccepts A w) -> exists w, waccepts R w.
Proof. exact ncandidate_nonempty. Qed.
Print Assumptions C10_ncandidate_nonempty.

(* the breadth-first search as repaired (a final start state ends the search; otherwise the first final
   successor), followed by RemoveUselessStates, returns such a result for every NFA; its structural
   fuel is never exhausted *)
Theorem C10_ncandidate_model_ok : forall A, ncandidate_ok A (ncandidate A) = true.
Proof. exact ncandidate_correct. Qed.
Print Assumptions C10_ncandidate_model_ok.

(* the gates evaluated on libvata's output decide exactly the property clauses *)
Theorem C10_gate_nunion : forall A B R, gate_nunion A B R = true <-> forall w, waccepts R w <-> waccepts A w \/ waccepts B w.
Proof. exact gate_nunion_spec. Qed.
Print Assumptions C10_gate_nunion.
Theorem C10_gate_nisect : forall A B R, gate_nisect A B R = true <-> forall w, waccepts R w <-> waccepts A w /\ waccepts B w.
Proof. exact gate_nisect_spec. Qed.
Print Assumptions C10_gate_nisect.
Theorem C10_gate_nreverse : forall A R, gate_nreverse A R = true <-> forall w, waccepts R w <-> waccepts A (rev w).
Proof. exact gate_nreverse_spec. Qed.
Theorem C10_gate_nsame : forall A R, gate_nsame A R = true <-> forall w, waccepts R w <-> waccepts A w.
Proof. exact gate_nsame_spec. Qed.
Theorem C10_gate_ncandidate : forall A R, gate_ncandidate A R = true <->
  wlincl R A /\ ((exists w, waccepts A w) -> exists w, waccepts R w).
Proof. exact gate_ncandidate_spec. Qed.
Print Assumptions C10_gate_ncandidate.
(* structural comparisons used by the check are sound for the language *)
Theorem C10_nfa_same_lang : forall A B, nfa_same A B = true -> forall w, waccepts A w <-> waccepts B w.
Proof. exact nfa_same_lang. Qed.

(* an implementation agreeing with the models passes the gates *)
Theorem C10_model_nunion_passes : forall hA hB A B, valid_nunion hA hB A B -> gate_nunion A B (nunion_with hA hB A B) = true.
Proof. exact model_nunion_passes. Qed.
Theorem C10_model_nisect_passes : forall pr A B, inj2_on pr (nstates A) (nstates B) -> gate_nisect A B (nisect pr A B) = true.
Proof. exact model_nisect_passes. Qed.
Theorem C10_model_nreverse_passes : forall A, gate_nreverse A (nreverse A) = true.
Proof. exact model_nreverse_passes. Qed.
Theorem C10_model_nunreach_passes : forall A, gate_nsame A (nunreach A) = true.
Proof. exact model_nunreach_passes. Qed.
Theorem C10_model_nuseless_passes : forall A, gate_nsame A (nuseless A) = true.
Proof. exact model_nuseless_passes. Qed.
Theorem C10_model_ncandidate_passes : forall A, gate_ncandidate A (ncandidate A) = true.
Proof. exact ncandidate_gate. Qed.

(* the code as it was before the fix: commits (D7, D13): faithful models violate the property *)
Theorem C10_isect_refuted :
  (exists A B, gate_nisect A B (nisect_old (pr0 (nbound B)) A B) = false /\ wincl_dec (nisect_old (pr0 (nbound B)) A B) B = false) /\
  (exists A B, gate_nisect A B (nisect_old (pr0 (nbound B)) A B) = false /\ wis_empty (nisect_old (pr0 (nbound B)) A B) = true).
Proof. exact nisect_old_refuted. Qed.
Theorem C10_candidate_refuted : exists A, gate_ncandidate A (ncandidate_old A) = false /\ wis_empty A = false.
Proof. exact ncandidate_old_refuted. Qed.
Print Assumptions C10_candidate_refuted.
Print Assumptions C10_valid_nunionb.
Print Assumptions C10_inj2_onb.
Print Assumptions C10_nuseless_useful.
Print Assumptions C10_ncandidate_sub.
Print Assumptions C10_gate_nreverse.
Print Assumptions C10_gate_nsame.
Print Assumptions C10_nfa_same_lang.
Print Assumptions C10_model_nunion_passes.
Print Assumptions C10_model_nisect_passes.
Print Assumptions C10_model_nreverse_passes.
Print Assumptions C10_model_nunreach_passes.
Print Assumptions C10_model_nuseless_passes.
Print Assumptions C10_model_ncandidate_passes.
Print Assumptions C10_isect_refuted.
