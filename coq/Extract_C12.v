(* extraction root for C12 — no proofs are needed to build this file *)
Require Extraction.
Require Import ExtrOcamlBasic.
From V Require Import Sem StoreDefs.
Extraction "ex_c12.ml" run iter contains down accept_trans used_states trans_empty live livef
  gate_iter gate_contains gate_accept gate_down gate_finals gate_used gate_isfinal gate_empty same_multiset set_eqN.
