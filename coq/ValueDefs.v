(* C11, value level: a pool of automata addressed by handles.  Every step is a function of the VALUES held
   by the handles it names; nothing else in the pool is consulted or changed.  The flat values used by the
   correspondence (tree automata as rule/final sets, word automata as start/final/edge sets) and the
   comparisons evaluated on libvata's observations are defined here too.  Definitions only (extracted). *)
From Coq Require Import List NArith Bool.
Import ListNotations.
From V Require Import Sem Prod.
From V Require Lang.
From V Require Import StoreDefs ReindexDefs.

Section Pool.
  Variable V : Type.
  Definition pool := N -> option V.
  Definition pempty : pool := fun _ => None.
  Definition pset (p : pool) (h : N) (v : option V) : pool := fun x => if N.eqb x h then v else p x.

  Inductive vstep :=
  | VNew (h : N) (v0 : V)                       (* default construction; v0 = the empty automaton *)
  | VCopy (h s : N)                              (* copy construction / copy assignment  h := s *)
  | VMove (h s : N)                              (* move construction / move assignment  h := std::move(s); s is gone *)
  | VMut (h : N) (f : V -> V)                    (* AddTransition, SetStateFinal, EraseFinalStates, Clear, ... *)
  | VDestroy (h : N)
  | VLib1 (h : N) (f : V -> V) (s : N)           (* h := op(s)       — result of a unary library operation *)
  | VLib2 (h : N) (f : V -> V -> V) (s1 s2 : N). (* h := op(s1, s2) *)

  (* the handles a step writes *)
  Definition written (st : vstep) : list N :=
    match st with
    | VNew h _ | VCopy h _ | VMut h _ | VDestroy h | VLib1 h _ _ | VLib2 h _ _ _ => [h]
    | VMove h s => [h; s]
    end.

  Definition vstep_run (p : pool) (st : vstep) : pool :=
    match st with
    | VNew h v0 => pset p h (Some v0)
    | VCopy h s => match p s with Some v => pset p h (Some v) | None => p end
    | VMove h s => match p s with Some v => pset (pset p s None) h (Some v) | None => p end
    | VMut h f => match p h with Some v => pset p h (Some (f v)) | None => p end
    | VDestroy h => pset p h None
    | VLib1 h f s => match p s with Some v => pset p h (Some (f v)) | None => p end
    | VLib2 h f s1 s2 => match p s1, p s2 with Some v1, Some v2 => pset p h (Some (f v1 v2)) | _, _ => p end
    end.
  Definition vrun (p : pool) (l : list vstep) : pool := fold_left vstep_run l p.
End Pool.
Arguments pempty {V}. Arguments pset {V}. Arguments vstep_run {V}. Arguments vrun {V}. Arguments written {V}.
Arguments VNew {V}. Arguments VCopy {V}. Arguments VMove {V}. Arguments VMut {V}. Arguments VDestroy {V}.
Arguments VLib1 {V}. Arguments VLib2 {V}.

(* ---------- tree automata as values ---------- *)
Definition t_empty : ta := {| rules := []; finals := [] |}.
Definition t_add (r : rule) (v : ta) : ta := {| rules := rules v ++ [r]; finals := finals v |}.
Definition t_setfinal (q : N) (v : ta) : ta := {| rules := rules v; finals := finals v ++ [q] |}.
Definition t_erasefinals (v : ta) : ta := {| rules := rules v; finals := [] |}.
Definition t_clear (v : ta) : ta := t_empty.
(* ExplicitTreeAut(aut, copyTrans, copyFinal) *)
Definition t_select (ct cf : bool) (v : ta) : ta := {| rules := if ct then rules v else []; finals := if cf then finals v else [] |}.
Definition t_union_disjoint (a b : ta) : ta := {| rules := rules a ++ rules b; finals := finals a ++ finals b |}.

(* ---------- word automata as values ----------
   wstartset = startStates_, wsyms = the whole startStateToSymbols_ map as pairs (state, symbol) — entries of states that
   are not start states are readable through GetStartSymbols and are part of the value; wvisible drops them *)
Record wval := { wstartset : list N; wsyms : list (N * N); wfinals : list N; wedges : list (N * N * N) }.
Definition w_empty : wval := {| wstartset := []; wsyms := []; wfinals := []; wedges := [] |}.
Definition w_add (e : N * N * N) (v : wval) : wval :=
  {| wstartset := wstartset v; wsyms := wsyms v; wfinals := wfinals v; wedges := wedges v ++ [e] |}.
Definition w_setfinal (q : N) (v : wval) : wval :=
  {| wstartset := wstartset v; wsyms := wsyms v; wfinals := wfinals v ++ [q]; wedges := wedges v |}.
Definition w_setstart (s a : N) (v : wval) : wval :=
  {| wstartset := wstartset v ++ [s]; wsyms := wsyms v ++ [(s, a)]; wfinals := wfinals v; wedges := wedges v |}.
Definition wvisible (v : wval) : wval :=
  {| wstartset := wstartset v; wsyms := filter (fun p => memN (fst p) (wstartset v)) (wsyms v); wfinals := wfinals v; wedges := wedges v |}.
(* ReindexStates copies the symbol sets of the start states only *)
Definition wimage (h : N -> N) (v : wval) : wval :=
  {| wstartset := map h (wstartset v); wsyms := map (fun p => (h (fst p), snd p)) (wsyms (wvisible v)); wfinals := map h (wfinals v);
     wedges := map (fun e => (h (fst (fst e)), snd (fst e), h (snd e))) (wedges v) |}.
Definition wapp (a b : wval) : wval :=
  {| wstartset := wstartset a ++ wstartset b; wsyms := wsyms a ++ wsyms b; wfinals := wfinals a ++ wfinals b; wedges := wedges a ++ wedges b |}.
Definition wstates (v : wval) : list N :=
  wstartset v ++ map fst (wsyms v) ++ wfinals v ++ flat_map (fun e => [fst (fst e); snd e]) (wedges v).

Definition pair_eqb (p q : N * N) : bool := N.eqb (fst p) (fst q) && N.eqb (snd p) (snd q).
Definition edge_eqb (e f : N * N * N) : bool := pair_eqb (fst e) (fst f) && N.eqb (snd e) (snd f).
Definition sub_by {X} (eqb : X -> X -> bool) (l m : list X) : bool := forallb (fun x => existsb (eqb x) m) l.
Definition wval_eq (a b : wval) : bool :=
  set_eqN (wstartset a) (wstartset b) &&
  sub_by pair_eqb (wsyms a) (wsyms b) && sub_by pair_eqb (wsyms b) (wsyms a) &&
  set_eqN (wfinals a) (wfinals b) &&
  sub_by edge_eqb (wedges a) (wedges b) && sub_by edge_eqb (wedges b) (wedges a).

(* ---------- comparisons used as gates ---------- *)
(* a handle read through libvata shows exactly the model's value *)
Definition t_obs_eq (model observed : ta) : bool := ta_set_eq model observed.
Definition w_obs_eq (model observed : wval) : bool := wval_eq model observed.
(* re-runs on operands rebuilt through the public interface: compared on the visible part *)
Definition w_vis_eq (a b : wval) : bool := wval_eq (wvisible a) (wvisible b).
(* Union: the result is the union of the images under the two reported maps *)
Definition t_union_gate (mA mB : amap) (A B R : ta) : bool :=
  ta_set_eq R (Lang.union_with (app_map mA 0) (app_map mB 0) A B) &&
  total_on mA (states A) && total_on mB (states B).
Definition t_image_gate (h : N -> N) (A R : ta) : bool := ta_set_eq R (Lang.image h A).
Definition w_union_gate (mA mB : amap) (A B R : wval) : bool :=
  wval_eq R (wapp (wimage (app_map mA 0) A) (wimage (app_map mB 0) B)) &&
  total_on mA (wstates (wvisible A)) && total_on mB (wstates (wvisible B)).
Definition w_image_gate (m : amap) (A R : wval) : bool := wval_eq R (wimage (app_map m 0) A) && total_on m (wstates (wvisible A)).
