(* C09 (A1) — algorithmic model of the antichain inclusion check for word automata as coded in
   src/explicit_finite_incl.cc (CheckFiniteAutInclusion) and src/explicit_finite_incl_fctor_cache.hh
   (Init, MakePost, AddNewPairToAntichain, AddToNext) with the identity preorder
   (src/comparators.hh: ExplicitFAStateSetComparatorIdentity), including the two memo tables
   subsetMap_ / subsetNotMap_ of macro-state comparisons (src/map_to_list.hh).
   What is abstracted: macro-states are duplicate-free lists in a fixed order (the code keys the memo by
   the address of the cached set, src/macrostate_cache.hh, one address per non-empty set), hash
   iteration orders are list orders, the pointer component of the worklist order is the list order.
   Definitions only (extracted); proofs in NfaAcProofs.v.  [hist = true] selects the memo filling of the
   code before the fix: commit 7ca3f30b (a negative answer also recorded the converse as positive). *)
From Coq Require Import List NArith Bool Arith.
Import ListNotations.
From V Require Import Fix Sem Prod Incl TrimDefs Lang NfaDefs.

Definition mset := list N.
Definition mpair := (N * mset)%type.

Definition Qn (B : nfa) : list N := nodup N.eq_dec (nstates B).
(* macro-state of the start states (Init) and successor macro-state (CreatePostOfMacroState) *)
Definition minit (B : nfa) : mset := filter (fun q => memN q (nstarts B)) (Qn B).
Definition mpost (B : nfa) (a : N) (P : mset) : mset :=
  filter (fun q => existsb (fun e => memN (esrc e) P && N.eqb (esym e) a && N.eqb (edst e) q) (edges B)) (Qn B).
Definition macc (B : nfa) (P : mset) : bool := existsb (fun q => memN q (nfinals B)) P.

(* ExplicitFAStateSetComparatorIdentity::lte : size test, then membership of every element *)
Definition msub (l r : mset) : bool := if Nat.ltb (length r) (length l) then false else subN l r.

Definition mset_eqb (l r : mset) : bool := if list_eq_dec N.eq_dec l r then true else false.
Definition mem_pair (x : mset * mset) (m : list (mset * mset)) : bool :=
  existsb (fun y => mset_eqb (fst x) (fst y) && mset_eqb (snd x) (snd y)) m.

(* (subsetMap_, subsetNotMap_) *)
Definition memo := (list (mset * mset) * list (mset * mset))%type.

(* the lambda [lte]: "lss is a subset of rss" through the memo *)
Definition lte_m (hist : bool) (m : memo) (l r : mset) : bool * memo :=
  if mem_pair (l, r) (fst m) then (true, m)
  else if mem_pair (l, r) (snd m) then (false, m)
  else if msub l r
       then (true, ((l, r) :: fst m, if hist then (r, l) :: snd m else snd m))
       else (false, (if hist then (r, l) :: fst m else fst m, (l, r) :: snd m)).
(* the lambda [gte]: "rss is a subset of lss" through the memo *)
Definition gte_m (hist : bool) (m : memo) (l r : mset) : bool * memo :=
  if hist then
    if mem_pair (l, r) (fst m) then (false, m)
    else if mem_pair (l, r) (snd m) then (true, m)
    else if msub r l then (true, ((r, l) :: fst m, (l, r) :: snd m))
         else (false, ((l, r) :: fst m, (r, l) :: snd m))
  else
    if mem_pair (r, l) (fst m) then (true, m)
    else if mem_pair (r, l) (snd m) then (false, m)
    else if msub r l then (true, ((r, l) :: fst m, snd m))
         else (false, (fst m, (r, l) :: snd m)).

(* Antichain2Cv2::contains with candidates {p}: some (p,Q) stored with Q <= S *)
Fixpoint contains_m (hist : bool) (m : memo) (X : list mpair) (p : N) (S : mset) : bool * memo :=
  match X with
  | [] => (false, m)
  | x :: r =>
      if N.eqb (fst x) p
      then let bm := lte_m hist m (snd x) S in
           if fst bm then (true, snd bm) else contains_m hist (snd bm) r p S
      else contains_m hist m r p S
  end.
(* Antichain2Cv2::refine with candidates {p}: erase every (p,Q) with S <= Q *)
Fixpoint refine_m (hist : bool) (m : memo) (X : list mpair) (p : N) (S : mset) : list mpair * memo :=
  match X with
  | [] => ([], m)
  | x :: r =>
      if N.eqb (fst x) p
      then let bm := gte_m hist m (snd x) S in
           let rm := refine_m hist (snd bm) r p S in
           (if fst bm then fst rm else x :: fst rm, snd rm)
      else let rm := refine_m hist m r p S in (x :: fst rm, snd rm)
  end.

Record acst := { st_ac : list mpair; st_nx : list mpair; st_memo : memo; st_fail : bool }.

(* AddNewPairToAntichain followed by AddToNext *)
Definition add_pair (hist : bool) (st : acst) (p : N) (S : mset) : acst :=
  let c1 := contains_m hist (st_memo st) (st_ac st) p S in
  if fst c1 then {| st_ac := st_ac st; st_nx := st_nx st; st_memo := snd c1; st_fail := st_fail st |}
  else
    let r1 := refine_m hist (snd c1) (st_ac st) p S in
    let ac2 := fst r1 ++ [(p, S)] in
    let c2 := contains_m hist (snd r1) (st_nx st) p S in
    if fst c2 then {| st_ac := ac2; st_nx := st_nx st; st_memo := snd c2; st_fail := st_fail st |}
    else
      let r2 := refine_m hist (snd c2) (st_nx st) p S in
      {| st_ac := ac2; st_nx := fst r2 ++ [(p, S)]; st_memo := snd r2; st_fail := st_fail st |}.

Definition set_fail (st : acst) (b : bool) : acst :=
  {| st_ac := st_ac st; st_nx := st_nx st; st_memo := st_memo st; st_fail := b |}.
Definition set_nx (st : acst) (nx : list mpair) : acst :=
  {| st_ac := st_ac st; st_nx := nx; st_memo := st_memo st; st_fail := st_fail st |}.

(* Init: every start state of the smaller automaton against the macro-state of the bigger one's *)
Definition ac_init (hist : bool) (A B : nfa) : acst :=
  let I := minit B in
  let fin := macc B I in
  fold_left (fun st s => let st' := add_pair hist st s I in
                         set_fail st' (st_fail st' || (memN s (nfinals A) && negb fin)))
            (nstarts A) {| st_ac := []; st_nx := []; st_memo := ([], []); st_fail := false |}.

(* MakePost: all successors of the processed pair; returns at the first counterexample *)
Fixpoint post_edges (hist : bool) (A B : nfa) (es : list edge) (P : mset) (st : acst) : acst :=
  match es with
  | [] => st
  | e :: r =>
      let P' := mpost B (esym e) P in
      if memN (edst e) (nfinals A) && negb (macc B P') then set_fail st true
      else post_edges hist A B r P (add_pair hist st (edst e) P')
  end.
Definition make_post (hist : bool) (A B : nfa) (st : acst) (p : N) (P : mset) : acst :=
  post_edges hist A B (out_edges A p) P st.

(* OrderedAntichain2C::get : the least pair for (size of the macro-state, state, then list order) *)
Fixpoint lex_less (l r : mset) : bool :=
  match l, r with
  | _, [] => false
  | [], _ :: _ => true
  | x :: l', y :: r' => if N.ltb x y then true else if N.ltb y x then false else lex_less l' r'
  end.
Definition mp_less (x y : mpair) : bool :=
  if Nat.ltb (length (snd x)) (length (snd y)) then true
  else if Nat.ltb (length (snd y)) (length (snd x)) then false
  else if N.ltb (fst x) (fst y) then true
  else if N.ltb (fst y) (fst x) then false
  else lex_less (snd x) (snd y).
Fixpoint extract_min (x : mpair) (r : list mpair) : mpair * list mpair :=
  match r with
  | [] => (x, [])
  | y :: r' => if mp_less y x
               then let mr := extract_min y r' in (fst mr, x :: snd mr)
               else let mr := extract_min x r' in (fst mr, y :: snd mr)
  end.

(* CheckFiniteAutInclusion: Init; while the inclusion holds and the worklist is not empty: MakePost.
   [None] = out of fuel (excluded for [ac_fuel] by NfaAcProofs.ac_loop_terminates) *)
Fixpoint ac_loop (hist : bool) (fuel : nat) (A B : nfa) (st : acst) : option bool :=
  if st_fail st then Some false else
  match fuel with
  | 0 => None
  | S f =>
      match st_nx st with
      | [] => Some true
      | x :: r => let mr := extract_min x r in
                  ac_loop hist f A B (make_post hist A B (set_nx st (snd mr)) (fst (fst mr)) (snd (fst mr)))
      end
  end.

(* every pair ever stored lies in  states(A) x sublists(states(B)) *)
Definition ac_universe (A B : nfa) : list mpair := list_prod (Qn A) (sublists (Qn B)).
Definition ac_fuel (A B : nfa) : nat := S (2 * (length (Qn A) * 2 ^ length (Qn B))).

Definition ac_run (hist : bool) (A B : nfa) : option bool := ac_loop hist (ac_fuel A B) A B (ac_init hist A B).
Definition ac_model (A B : nfa) : bool := match ac_run false A B with Some b => b | None => false end.
(* the selection as called through CheckInclusion: both operands sanitized first *)
Definition ac_incl_model (A B : nfa) : bool := ac_model (nuseless A) (nuseless B).
