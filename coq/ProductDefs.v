(* C02 — models of the product constructions (Intersection: top-down from final pairs; IntersectionBU: bottom-up
   from leaf rules) with pairs coded as p * K + q, K above every state of the right operand. Definitions only. *)
From Coq Require Import List NArith Bool Arith.
Import ListNotations.
From V Require Import Fix Sem Prod Incl TrimDefs.

Definition bound (l : list N) : N := N.succ (fold_right N.max 0%N l).
Definition pcode (K p q : N) : N := (p * K + q)%N.

Fixpoint zipcode (K : N) (ps qs : list N) : list N :=
  match ps, qs with p :: ps', q :: qs' => pcode K p q :: zipcode K ps' qs' | _, _ => [] end.

Definition prod_rule (K : N) (ra rb : rule) : list rule :=
  if N.eqb (sym ra) (sym rb) && Nat.eqb (length (ch ra)) (length (ch rb))
  then [ {| sym := sym ra; ch := zipcode K (ch ra) (ch rb); par := pcode K (par ra) (par rb) |} ] else [].

Definition product (A B : ta) : ta :=
  let K := bound (states B) in
  {| rules := flat_map (fun ra => flat_map (prod_rule K ra) (rules B)) (rules A);
     finals := flat_map (fun p => map (pcode K p) (finals B)) (finals A) |}.

(* Intersection: pairs reachable top-down from pairs of final states *)
Definition isect_td (A B : ta) : ta := remove_unreachable (product A B).
(* IntersectionBU: pairs reachable bottom-up *)
Definition isect_bu (A B : ta) : ta := productive_part (product A B).

(* pulling a reported product map [(p,q,s)] back: code of (p,q) -> s *)
Fixpoint pm_lookup (K : N) (pm : list (N * N * N)) (c : N) : option N :=
  match pm with
  | [] => None
  | (p, q, s) :: r => if N.eqb (pcode K p q) c then Some s else pm_lookup K r c
  end.
Definition pm_fun (K : N) (pm : list (N * N * N)) (dflt : N) (c : N) : N :=
  match pm_lookup K pm c with Some s => s | None => (dflt + c)%N end.
