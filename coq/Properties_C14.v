(* C14 — Renaming states or symbols yields exactly the image automaton.
   [Lang.image h A] / [simage g A] are the flat images; [reindex_aut] is ReindexStates on the nested store of
   C12 written as the code iterates; [gate_*] are evaluated on libvata's result with the map read back from
   the translator.  Nothing but statements closed by [exact]; proofs are in ReindexProofs.v and Lang.v. *)
From Coq Require Import List NArith Bool.
Import ListNotations.
From V Require Import Sem Prod.
From V Require Lang.
From V Require Import StoreDefs StoreProofs ReindexDefs ReindexProofs.

(* a rule / final state is in the image iff it is the image of one of the input *)
Theorem C14_image_exact_rules : forall h A r', In r' (rules (Lang.image h A)) <-> exists r, In r (rules A) /\ r' = Lang.map_rule h r.
Proof. exact image_exact_rules. Qed.
Theorem C14_image_exact_finals : forall h A q', In q' (finals (Lang.image h A)) <-> exists q, In q (finals A) /\ q' = h q.
Proof. exact image_exact_finals. Qed.
Theorem C14_simage_exact_rules : forall g A r', In r' (rules (simage g A)) <-> exists r, In r (rules A) /\ r' = smap_rule g r.
Proof. exact simage_exact_rules. Qed.
(* injective on the states => same language, same number of distinct states and rules *)
Theorem C14_image_inj_iso : forall h A, Lang.inj_on h (states A) ->
  (forall t, accepts (Lang.image h A) t <-> accepts A t) /\
  length (nodup N.eq_dec (states (Lang.image h A))) = length (nodup N.eq_dec (states A)) /\
  length (nodup rule_eq_dec (rules (Lang.image h A))) = length (nodup rule_eq_dec (rules A)).
Proof. exact image_inj_iso. Qed.
(* any map => the language grows *)
Theorem C14_image_lang_sup : forall h A t, accepts A t -> accepts (Lang.image h A) t.
Proof. exact image_lang_sup. Qed.
(* symbols: the language is the relabelled language (any map); injective => same states, same number of rules *)
Theorem C14_simage_lang : forall g A t', accepts (simage g A) t' <-> exists t, t' = relabel g t /\ accepts A t.
Proof. exact simage_lang. Qed.
Theorem C14_simage_inj_iso : forall g A, Lang.inj_on g (map sym (rules A)) ->
  states (simage g A) = states A /\
  length (nodup rule_eq_dec (rules (simage g A))) = length (nodup rule_eq_dec (rules A)).
Proof. exact simage_inj_iso. Qed.

(* the nested re-indexing, as the code iterates (merging maps hit one destination cluster repeatedly),
   yields exactly destination + image, each rule once, and keeps the store well-formed *)
Theorem C14_reindex_nested_image : forall h S D, wf_st S -> wf_st D ->
  NoDup (iter (reindex_nested h S D)) /\
  forall r, In r (iter (reindex_nested h S D)) <-> In r (iter D) \/ exists r0, In r0 (iter S) /\ r = Lang.map_rule h r0.
Proof. exact reindex_nested_image. Qed.
Theorem C14_reindex_aut_wf : forall h addf a d, wf a -> wf d -> wf (reindex_aut h addf a d).
Proof. exact reindex_aut_wf. Qed.
Theorem C14_reindex_model_passes : forall h addf a d, wf a -> wf d ->
  gate_reindex h addf (flat a) (flat d) (flat (reindex_aut h addf a d)) = true.
Proof. exact reindex_model_passes. Qed.
Theorem C14_model_image_passes : forall h A, gate_image h A (flat (reindex_aut h true (of_ta A) init)) = true.
Proof. exact model_image_passes. Qed.
Theorem C14_translate_model_passes : forall g a, wf a -> gate_simage g (flat a) (flat (translate_aut g a)) = true.
Proof. exact translate_model_passes. Qed.

(* the gates decide "exactly the image" on an implementation's result, and carry the consequences *)
Theorem C14_gate_image : forall h A R, gate_image h A R = true <->
  NoDup (rules R) /\ NoDup (finals R) /\
  (forall r', In r' (rules R) <-> exists r, In r (rules A) /\ r' = Lang.map_rule h r) /\
  (forall q', In q' (finals R) <-> exists q, In q (finals A) /\ q' = h q).
Proof. exact gate_image_spec. Qed.
Theorem C14_gate_image_inj : forall h A R, gate_image h A R = true -> Lang.inj_on h (states A) ->
  (forall t, accepts R t <-> accepts A t) /\
  length (nodup N.eq_dec (states R)) = length (nodup N.eq_dec (states A)) /\
  length (rules R) = length (nodup rule_eq_dec (rules A)).
Proof. exact gate_image_inj. Qed.
Theorem C14_gate_image_sup : forall h A R, gate_image h A R = true -> forall t, accepts A t -> accepts R t.
Proof. exact gate_image_sup. Qed.
Theorem C14_gate_simage : forall g A R, gate_simage g A R = true <->
  NoDup (rules R) /\ NoDup (finals R) /\
  (forall r', In r' (rules R) <-> exists r, In r (rules A) /\ r' = smap_rule g r) /\
  (forall q, In q (finals R) <-> In q (finals A)).
Proof. exact gate_simage_spec. Qed.
Theorem C14_gate_simage_lang : forall g A R, gate_simage g A R = true ->
  forall t', accepts R t' <-> exists t, t' = relabel g t /\ accepts A t.
Proof. exact gate_simage_lang. Qed.
Theorem C14_gate_simage_inj : forall g A R, gate_simage g A R = true -> Lang.inj_on g (map sym (rules A)) ->
  (forall x, In x (states R) <-> In x (states A)) /\ length (rules R) = length (nodup rule_eq_dec (rules A)).
Proof. exact gate_simage_inj. Qed.
Theorem C14_inj_onb : forall h l, inj_onb h l = true <-> Lang.inj_on h l.
Proof. exact inj_onb_spec. Qed.
(* the read-back translator: functional, total on the used states, extends the pre-filled part;
   then the offset used for unlisted keys does not matter *)
Theorem C14_gate_translator : forall pre m A, gate_translator pre m A = true ->
  NoDup (keys m) /\ (forall x, In x (states A) -> exists y, get x m = Some y) /\ (forall k v, In (k, v) pre -> get k m = Some v).
Proof. exact gate_translator_spec. Qed.
Theorem C14_app_map_total : forall m A off off', total_on m (states A) = true ->
  Lang.image (app_map m off) A = Lang.image (app_map m off') A.
Proof. exact app_map_total. Qed.
Example C14_gate_example :
  let A := {| rules := [ {| sym := 0; ch := []; par := 1 |}; {| sym := 2; ch := [1; 2]; par := 2 |} ]; finals := [2] |}%N in
  let h := app_map [(1, 7); (2, 7)]%N 0 in
  gate_image h A (flat (reindex_aut h true (of_ta A) init)) = true /\ inj_onb h (states A) = false /\
  gate_translator [(1, 7)]%N [(1, 7); (2, 7)]%N A = true.
Proof. exact gate_image_example. Qed.

Print Assumptions C14_image_exact_rules.
Print Assumptions C14_image_exact_finals.
Print Assumptions C14_simage_exact_rules.
Print Assumptions C14_image_inj_iso.
Print Assumptions C14_image_lang_sup.
Print Assumptions C14_simage_lang.
Print Assumptions C14_simage_inj_iso.
Print Assumptions C14_reindex_nested_image.
Print Assumptions C14_reindex_aut_wf.
Print Assumptions C14_reindex_model_passes.
Print Assumptions C14_model_image_passes.
Print Assumptions C14_translate_model_passes.
Print Assumptions C14_gate_image.
Print Assumptions C14_gate_image_inj.
Print Assumptions C14_gate_image_sup.
Print Assumptions C14_gate_simage.
Print Assumptions C14_gate_simage_lang.
Print Assumptions C14_gate_simage_inj.
Print Assumptions C14_inj_onb.
Print Assumptions C14_gate_translator.
Print Assumptions C14_app_map_total.
Print Assumptions C14_gate_example.
