(* C01 / C07 — the cache of REFUTED goals of the downward checkers (isNoninclusionImplied): a recorded refutation of (p, P) may be used to
   refute a query (q, S) when every tree of p is a tree of q (p is below q in the preorder) and S is contained in P. Using the
   preorder the other way round (q below p) is unsound. *)
From Coq Require Import List NArith Bool Lia.
Import ListNotations.
From V Require Import Fix Sem Prod Incl TrimDefs TrimProofs Lang InclDefs ComplDefs ComplModel DownIncl.

Definition below (A : ta) (p q : N) := forall t, reach A t p -> reach A t q.

Theorem neg_cache_sound A B p q P S :
  ~ Incl A B p P -> below A p q -> incl S P -> ~ Incl A B q S.
Proof.
  intros Hn Hb Hs Hq. apply Hn. intros t R. destruct (Hq t (Hb t R)) as [s [Hin Rs]]. exists s. split; auto.
Qed.

Definition mkn (f : N) (c : list N) (p : N) : rule := {| sym := f; ch := c; par := p |}.
(* p = 1 accepts a and b, q = 2 accepts a only (q below p); B: state 5 accepts a. (p, {5}) is refuted, (q, {5}) holds *)
Definition ncA : ta := {| rules := [mkn 0 [] 1; mkn 1 [] 1; mkn 0 [] 2]; finals := [1; 2]%N |}.
Definition ncB : ta := {| rules := [mkn 0 [] 5]; finals := [5%N] |}.

Theorem neg_cache_wrong_side_refuted :
  below ncA 2%N 1%N /\ ~ Incl ncA ncB 1%N [5%N] /\ Incl ncA ncB 2%N [5%N].
Proof.
  assert (Inv2 : forall t, reach ncA t 2%N -> t = Node 0 []).
  { intros t R. inversion R as [g ts r Hr Hs HF Ht Hp]; subst.
    simpl in Hr. destruct Hr as [<-|[<-|[<-|[]]]]; simpl in *; try discriminate. inversion HF. reflexivity. }
  split; [|split].
  - intros t R. rewrite (Inv2 t R). apply (reach_node ncA 0%N [] (mkn 0 [] 1)); [left; reflexivity | reflexivity | constructor].
  - intros H. destruct (H (Node 1 [])) as [s [Hs Rs]].
    + apply (reach_node ncA 1%N [] (mkn 1 [] 1)); [right; left; reflexivity | reflexivity | constructor].
    + inversion Rs as [g ts r Hr Hsym HF Ht Hp]; subst. simpl in Hr. destruct Hr as [<-|[]]. simpl in Hsym. discriminate.
  - intros t R. rewrite (Inv2 t R). exists 5%N. split; [left; reflexivity|].
    apply (reach_node ncB 0%N [] (mkn 0 [] 5)); [left; reflexivity | reflexivity | constructor].
Qed.
