(* C13 — value-level models of the loaders and dumpers (src/loadable_aut.hh and
   loadFromAutDescInternal / dumpToAutDescInternal of the cores): the state dictionary and the
   symbol dictionary of the alphabet are finite maps filled by a weak translator whose fresh values
   come from a counter (`[&state](const std::string&){return state++;}`); the dump translates back
   through the reverse maps (strict translator).  Hash-set orders are abstracted: lists stand for sets.
   Definitions only (extracted); proofs are in TimbukLoadProofs.v. *)
From Coq Require Import List NArith ZArith Bool.
Import ListNotations.
From V Require Import TimbukDefs.
Open Scope N_scope.

Section Dict.
  Variable K : Type.
  Variable keq : K -> K -> bool.
  Definition dict := list (K * N).
  (* TwoWayDict: forward map ... *)
  Fixpoint lookup (k : K) (m : dict) : option N :=
    match m with
    | [] => None
    | (k', v) :: r => if keq k k' then Some v else lookup k r
    end.
  (* ... and reverse map *)
  Fixpoint back (v : N) (m : dict) : option K :=
    match m with
    | [] => None
    | (k, v') :: r => if v =? v' then Some k else back v r
    end.
  (* TranslatorWeak::operator(): known key -> its value; unknown key -> the counter's value, inserted *)
  Definition weak (st : dict * N) (k : K) : dict * N :=
    match lookup k (fst st) with
    | Some _ => st
    | None => (fst st ++ [(k, snd st)], N.succ (snd st))
    end.
  (* the dictionary after translating the keys in this order, starting empty with counter 0 *)
  Definition number_all (ks : list K) : dict := fst (fold_left weak ks ([], 0)).
  Definition fwd (m : dict) (k : K) : N := match lookup k m with Some v => v | None => 0 end.
End Dict.
Arguments lookup {K}. Arguments back {K}. Arguments weak {K}. Arguments number_all {K}. Arguments fwd {K}.

Definition skeq (a b : bytes * Z) : bool := beq (fst a) (fst b) && Z.eqb (snd a) (snd b).

(* the tree encodings: explicit (symbols are name+rank pairs), BDD bottom-up and top-down (symbols are
   names; the rank is kept with the rule: key of the table, resp. arity bits) *)
Inductive enc := ET | BU | TD.
Record nrule := mkNrule { n_ch : list N; n_sym : N; n_par : N }.
Record naut := mkNaut { n_finals : list N; n_rules : list nrule }.

Definition skey (e : enc) (t : trans) : bytes * Z :=
  (t_sym t, match e with ET => Z.of_nat (length (t_ch t)) | _ => 0%Z end).
(* the order in which the loaders translate state names: final states, then per rule the children and
   the parent (explicit) resp. the parent and the children (BDD) *)
Definition state_keys (e : enc) (d : desc) : list bytes :=
  d_finals d ++ flat_map (fun t => match e with ET => t_ch t ++ [t_par t] | _ => t_par t :: t_ch t end) (d_trans d).
(* the explicit loader first registers the symbols of the Ops line *)
Definition sym_keys (e : enc) (d : desc) : list (bytes * Z) :=
  (match e with ET => d_syms d | _ => [] end) ++ map (skey e) (d_trans d).

Record loaded := mkLoaded { l_aut : naut; l_states : dict bytes; l_syms : dict (bytes * Z) }.

Definition load (e : enc) (d : desc) : loaded :=
  let sd := number_all beq (state_keys e d) in
  let yd := number_all skeq (sym_keys e d) in
  mkLoaded
    (mkNaut (map (fwd beq sd) (d_finals d))
            (map (fun t => mkNrule (map (fwd beq sd) (t_ch t)) (fwd skeq yd (skey e t)) (fwd beq sd (t_par t))) (d_trans d)))
    sd yd.

(* DumpToAutDesc with the dictionary: strict back translation (a missing entry throws) *)
Definition dump_rule (l : loaded) (r : nrule) : option trans :=
  match map_opt (fun q => back q (l_states l)) (n_ch r), back (n_sym r) (l_syms l), back (n_par r) (l_states l) with
  | Some ch, Some sy, Some pa => Some (mkTrans ch (fst sy) pa)
  | _, _, _ => None
  end.
Definition dump (l : loaded) : option (list bytes * list trans) :=
  match map_opt (fun q => back q (l_states l)) (n_finals (l_aut l)), map_opt (dump_rule l) (n_rules (l_aut l)) with
  | Some f, Some r => Some (f, r)
  | _, _ => None
  end.

(* ------------------------------------------------------------------------------------------ *)
(* the finite-automaton encoding (src/explicit_finite_aut_core.hh): symbols are names; a nullary rule
   s -> q puts q into startStates_ and s into startStateToSymbols_[q]; a unary rule is an edge; any other
   arity throws.  The dump writes, per start state, ONE nullary rule with a symbol picked from the set
   (first element of an unordered_set: [pick] is the implementation's choice), and every edge. *)
Record nfa_l := mkNfa { f_finals : list N; f_starts : list (N * N); f_edges : list (N * N * N) }.
Record fa_loaded := mkFaLoaded { fl_aut : nfa_l; fl_states : dict bytes; fl_syms : dict bytes }.

Definition fa_state_keys (d : desc) : list bytes := d_finals d ++ flat_map (fun t => t_ch t ++ [t_par t]) (d_trans d).
Definition fa_sym_keys (d : desc) : list bytes := map fst (d_syms d) ++ map t_sym (d_trans d).

Definition load_fa (d : desc) : option fa_loaded :=
  if is_fa d then
    let sd := number_all beq (fa_state_keys d) in
    let yd := number_all beq (fa_sym_keys d) in
    Some (mkFaLoaded
      (mkNfa (map (fwd beq sd) (d_finals d))
             (map (fun t => (fwd beq sd (t_par t), fwd beq yd (t_sym t))) (filter nullary (d_trans d)))
             (flat_map (fun t => match t_ch t with
                                 | [c] => [(fwd beq sd c, fwd beq yd (t_sym t), fwd beq sd (t_par t))]
                                 | _ => []
                                 end) (d_trans d)))
      sd yd)
  else None.

Definition start_states (a : nfa_l) : list N := nodup N.eq_dec (map fst (f_starts a)).
Definition syms_of (a : nfa_l) (s : N) : list N := map snd (filter (fun p => fst p =? s) (f_starts a)).

Definition dump_start (pick : list N -> N) (l : fa_loaded) (s : N) : option trans :=
  match back (pick (syms_of (fl_aut l) s)) (fl_syms l), back s (fl_states l) with
  | Some y, Some q => Some (mkTrans [] y q)
  | _, _ => None
  end.
Definition dump_edge (l : fa_loaded) (e : N * N * N) : option trans :=
  match back (fst (fst e)) (fl_states l), back (snd (fst e)) (fl_syms l), back (snd e) (fl_states l) with
  | Some p, Some y, Some q => Some (mkTrans [p] y q)
  | _, _, _ => None
  end.
Definition dump_fa (pick : list N -> N) (l : fa_loaded) : option (list bytes * list trans) :=
  match map_opt (fun q => back q (fl_states l)) (f_finals (fl_aut l)),
        map_opt (dump_start pick l) (start_states (fl_aut l)),
        map_opt (dump_edge l) (f_edges (fl_aut l)) with
  | Some f, Some s, Some e => Some (f, s ++ e)
  | _, _, _ => None
  end.
