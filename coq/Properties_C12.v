(* C12 — Rule container, iterators and lookups reflect exactly the rules added.
   Model: the nested store state -> symbol -> tuple set of ExplicitTreeAutCore written as the code inserts
   (StoreDefs.v).  [run ops] is the automaton after ANY finite sequence of AddTransition / SetStateFinal /
   SetStatesFinal / EraseFinalStates / Clear; [live ops] / [livef ops] are the rules / final states the
   property speaks about.  Nothing but statements closed by [exact]; proofs are in StoreProofs.v. *)
From Coq Require Import List NArith Bool Permutation.
Import ListNotations.
From V Require Import Sem StoreDefs StoreProofs.

(* the specification side, in the property's words *)
Theorem C12_live_spec : forall ops r, In r (live ops) <-> exists l1 l2, ops = l1 ++ Add r :: l2 /\ ~ In Clear l2.
Proof. exact live_spec. Qed.
Theorem C12_livef_spec : forall ops q, In q (livef ops) <->
  exists l1 o l2, ops = l1 ++ o :: l2 /\ (o = SetFinal q \/ exists qs, o = SetFinals qs /\ In q qs) /\ ~ In Clear l2 /\ ~ In EraseFinals l2.
Proof. exact livef_spec. Qed.

(* iteration yields each distinct rule added since the last Clear exactly once and nothing else *)
Theorem C12_iter_nodup : forall ops, NoDup (iter (st (run ops))).
Proof. exact iter_nodup. Qed.
Theorem C12_iter_complete : forall ops r, In r (iter (st (run ops))) <-> In r (live ops).
Proof. exact iter_complete. Qed.
(* ContainsTransition answers true exactly for those rules *)
Theorem C12_contains_iff : forall ops r, contains (st (run ops)) r = true <-> In r (live ops).
Proof. exact contains_run. Qed.
(* the final set *)
Theorem C12_finals_spec : forall ops q, In q (fin (run ops)) <-> In q (livef ops).
Proof. exact finals_run. Qed.
(* GetAcceptTrans: exactly the rules whose parent is final, each once *)
Theorem C12_accept_trans_spec : forall ops r, In r (accept_trans (run ops)) <-> In r (live ops) /\ In (par r) (livef ops).
Proof. exact accept_trans_spec. Qed.
Theorem C12_accept_trans_nodup : forall ops, NoDup (accept_trans (run ops)).
Proof. exact accept_trans_nodup. Qed.
(* operator[] : exactly the rules with that parent, each once *)
Theorem C12_down_spec : forall ops q r, In r (down (st (run ops)) q) <-> In r (live ops) /\ par r = q.
Proof. exact down_spec. Qed.
Theorem C12_down_nodup : forall ops q, NoDup (down (st (run ops)) q).
Proof. exact down_nodup. Qed.
(* GetUsedStates: exactly the states occurring in rules or the final set *)
Theorem C12_used_states_spec : forall ops x, In x (used_states (run ops)) <->
  (exists r, In r (live ops) /\ (x = par r \/ In x (ch r))) \/ In x (livef ops).
Proof. exact used_states_spec. Qed.
(* AreTransitionsEmpty: true exactly when no rule is present *)
Theorem C12_trans_empty_spec : forall ops, trans_empty (st (run ops)) = true <-> forall r, ~ In r (live ops).
Proof. exact trans_empty_spec. Qed.
(* no cluster and no tuple set is ever empty (the iterators' begin() dereferences rely on it) *)
Theorem C12_no_empty_cluster : forall ops q cl, In (q, cl) (st (run ops)) -> cl <> [] /\ forall a ts, In (a, ts) cl -> ts <> [].
Proof. exact no_empty_cluster. Qed.

(* the gates evaluated on libvata's output decide exactly the clauses above *)
Theorem C12_gate_iter : forall ops l, gate_iter ops l = true <-> NoDup l /\ forall r, In r l <-> In r (live ops).
Proof. exact gate_iter_spec. Qed.
Theorem C12_gate_iter_perm : forall ops l, gate_iter ops l = true <-> Permutation l (iter (st (run ops))).
Proof. exact gate_iter_perm. Qed.
Theorem C12_gate_contains : forall ops r b, gate_contains ops r b = true <-> (b = true <-> In r (live ops)).
Proof. exact gate_contains_spec. Qed.
Theorem C12_gate_accept : forall ops l, gate_accept ops l = true <-> NoDup l /\ forall r, In r l <-> In r (live ops) /\ In (par r) (livef ops).
Proof. exact gate_accept_spec. Qed.
Theorem C12_gate_down : forall ops q l, gate_down ops q l = true <-> NoDup l /\ forall r, In r l <-> In r (live ops) /\ par r = q.
Proof. exact gate_down_spec. Qed.
Theorem C12_gate_finals : forall ops l, gate_finals ops l = true <-> NoDup l /\ forall q, In q l <-> In q (livef ops).
Proof. exact gate_finals_spec. Qed.
Theorem C12_gate_isfinal : forall ops q b, gate_isfinal ops q b = true <-> (b = true <-> In q (livef ops)).
Proof. exact gate_isfinal_spec. Qed.
Theorem C12_gate_used : forall ops l, gate_used ops l = true <->
  NoDup l /\ forall x, In x l <-> (exists r, In r (live ops) /\ (x = par r \/ In x (ch r))) \/ In x (livef ops).
Proof. exact gate_used_spec. Qed.
Theorem C12_gate_empty : forall ops b, gate_empty ops b = true <-> (b = true <-> forall r, ~ In r (live ops)).
Proof. exact gate_empty_spec. Qed.
(* an implementation that agrees with the model passes every gate *)
Theorem C12_model_passes : forall ops,
  gate_iter ops (iter (st (run ops))) = true /\
  (forall r, gate_contains ops r (contains (st (run ops)) r) = true) /\
  gate_accept ops (accept_trans (run ops)) = true /\
  (forall q, gate_down ops q (down (st (run ops)) q) = true) /\
  gate_finals ops (fin (run ops)) = true /\
  gate_used ops (used_states (run ops)) = true /\
  gate_empty ops (trans_empty (st (run ops))) = true.
Proof. exact model_passes. Qed.
(* the multiset comparison used for the drift report is permutation *)
Theorem C12_same_multiset : forall l m, same_multiset l m = true <-> Permutation l m.
Proof. exact same_multiset_spec. Qed.

Print Assumptions C12_live_spec.
Print Assumptions C12_livef_spec.
Print Assumptions C12_iter_nodup.
Print Assumptions C12_iter_complete.
Print Assumptions C12_contains_iff.
Print Assumptions C12_finals_spec.
Print Assumptions C12_accept_trans_spec.
Print Assumptions C12_accept_trans_nodup.
Print Assumptions C12_down_spec.
Print Assumptions C12_down_nodup.
Print Assumptions C12_used_states_spec.
Print Assumptions C12_trans_empty_spec.
Print Assumptions C12_no_empty_cluster.
Print Assumptions C12_gate_iter.
Print Assumptions C12_gate_iter_perm.
Print Assumptions C12_gate_contains.
Print Assumptions C12_gate_accept.
Print Assumptions C12_gate_down.
Print Assumptions C12_gate_finals.
Print Assumptions C12_gate_isfinal.
Print Assumptions C12_gate_used.
Print Assumptions C12_gate_empty.
Print Assumptions C12_model_passes.
Print Assumptions C12_same_multiset.
