(* Proofs about the recursive downward inclusion algorithm with the implication cache (DownInclOptDefs.v): with promotion of the
   consequents only when the antecedent is empty, an answer is the truth, whatever the fuel; with careless promotion the algorithm
   answers "included" on a pair that is not. *)
From Coq Require Import List NArith Bool Arith Lia.
Import ListNotations.
From V Require Import Fix Sem Prod Incl TrimDefs TrimProofs Lang InclDefs ComplDefs ComplProofs ComplModel DownIncl DownInclCacheDefs DownInclCacheProofs DownInclOptDefs.

Section FoldSpecs.
  Context {X ST : Type} (f : X -> ST -> option (bool * ST)) (Inv : ST -> Prop) (le : ST -> ST -> Prop).
  Hypothesis le_refl : forall a, le a a.
  Hypothesis le_trans : forall a b c, le a b -> le b c -> le a c.

  Lemma forall_s_spec l : (forall x C b C', In x l -> Inv C -> f x C = Some (b, C') -> Inv C' /\ le C C') ->
    forall C b C', Inv C -> forall_s f l C = Some (b, C') ->
      Inv C' /\ le C C' /\ (b = true -> forall x, In x l -> exists Ci Co, Inv Ci /\ f x Ci = Some (true, Co) /\ le Co C').
  Proof.
    induction l as [|a l IH]; intros Hs C b C' HI H; simpl in H.
    - inversion H; subst. repeat split; auto. intros _ x [].
    - destruct (f a C) as [[[|] C1]|] eqn:E; try discriminate.
      + destruct (Hs a C true C1 (or_introl eq_refl) HI E) as [HI1 L1].
        destruct (IH (fun x C0 b0 C0' Hx => Hs x C0 b0 C0' (or_intror Hx)) C1 b C' HI1 H) as [HI' [L' Hall]].
        repeat split; auto; [eapply le_trans; eauto|]. intros Hb x [<-|Hx]; [exists C, C1; auto | apply Hall; auto].
      + inversion H; subst. destruct (Hs a C false C' (or_introl eq_refl) HI E) as [HI1 L1]. repeat split; auto. discriminate.
  Qed.

  Lemma exists_s_spec l : (forall x C b C', In x l -> Inv C -> f x C = Some (b, C') -> Inv C' /\ le C C') ->
    forall C b C', Inv C -> exists_s f l C = Some (b, C') ->
      Inv C' /\ le C C' /\ (b = true -> exists x Ci Co, In x l /\ Inv Ci /\ f x Ci = Some (true, Co) /\ le Co C').
  Proof.
    induction l as [|a l IH]; intros Hs C b C' HI H; simpl in H.
    - inversion H; subst. repeat split; auto. discriminate.
    - destruct (f a C) as [[[|] C1]|] eqn:E; try discriminate.
      + inversion H; subst. destruct (Hs a C true C' (or_introl eq_refl) HI E) as [HI1 L1]. repeat split; auto.
        intros _. exists a, C, C'. repeat split; auto. left; auto.
      + destruct (Hs a C false C1 (or_introl eq_refl) HI E) as [HI1 L1].
        destruct (IH (fun x C0 b0 C0' Hx => Hs x C0 b0 C0' (or_intror Hx)) C1 b C' HI1 H) as [HI' [L' Hex]].
        repeat split; auto; [eapply le_trans; eauto|]. intros Hb. destruct (Hex Hb) as [x [Ci [Co [Hx R]]]]. exists x, Ci, Co. split; auto. right; auto.
  Qed.

  Lemma forall_s_false l : forall C C', forall_s f l C = Some (false, C') -> exists x Ci Co, In x l /\ f x Ci = Some (false, Co).
  Proof.
    induction l as [|a l IH]; intros C C' H; simpl in H; [discriminate|].
    destruct (f a C) as [[[|] C1]|] eqn:E; try discriminate.
    - destruct (IH C1 C' H) as [x [Ci [Co [Hx Hf]]]]. exists x, Ci, Co. split; auto. right; auto.
    - exists a, C, C1. split; auto. left; auto.
  Qed.
  Lemma exists_s_false l : forall C C', exists_s f l C = Some (false, C') -> forall x, In x l -> exists Ci Co, f x Ci = Some (false, Co).
  Proof.
    induction l as [|a l IH]; intros C C' H x Hx; simpl in H; [destruct Hx|].
    destruct (f a C) as [[[|] C1]|] eqn:E; try discriminate.
    destruct Hx as [<-|Hx]; [exists C, C1; auto|]. apply (IH C1 C'); auto.
  Qed.
End FoldSpecs.

(* the tree argument shared by all variants: if every rule into q is covered position-wise for every choice function, up to height n,
   then q is covered up to height n + 1 *)
Lemma root_cover A B q S n :
  (forall r, In r (rules A) -> par r = q ->
     (length (ch r) = 0 -> tuplesB B S (sym r) 0 <> []) /\
     (length (ch r) <> 0 -> forall c, In c (all_choices (length (tuplesB B S (sym r) (length (ch r)))) (length (ch r))) ->
         exists i, i < length (ch r) /\ InclN A B n (nth i (ch r) 0%N) (pick (tuplesB B S (sym r) (length (ch r))) c i))) ->
  InclN A B (Datatypes.S n) q S.
Proof.
  intros H t Ht R. inversion R as [g ts r Hr Hs HF]; subst.
  destruct (H r Hr eq_refl) as [H0 Hk].
  assert (Hlen : length ts = length (ch r)) by (clear - HF; induction HF; simpl; auto).
  destruct (length (ch r)) as [|k'] eqn:Ek.
  - specialize (H0 eq_refl). destruct (tuplesB B S (sym r) 0) as [|w T] eqn:ET; [congruence|].
    assert (Hw : In w (tuplesB B S (sym r) 0)) by (rewrite ET; left; auto).
    apply tuplesB_in in Hw as [rb [Hrb [Hsb [Hpb [Ew Lw]]]]]. exists (par rb). split; auto.
    destruct ts; [|discriminate]. rewrite <- Hsb. constructor; auto. destruct (ch rb); [constructor | subst; discriminate].
  - assert (Hk' : forall c, In c (all_choices (length (tuplesB B S (sym r) (Datatypes.S k'))) (Datatypes.S k')) ->
         exists i, i < Datatypes.S k' /\ InclN A B n (nth i (ch r) 0%N) (pick (tuplesB B S (sym r) (Datatypes.S k')) c i)) by (apply Hk; discriminate).
    clear Hk H0. set (k := Datatypes.S k') in *. set (T := tuplesB B S (sym r) k) in *.
    destruct (existsb (fun w => matches w (map (eval B) ts)) T) eqn:EX.
    + apply existsb_exists in EX as [w [Hw M]]. apply Forall2_reach_matches in M.
      apply tuplesB_in in Hw as [rb [Hrb [Hsb [Hpb [Ew Lw]]]]]. exists (par rb). split; auto. rewrite <- Hsb. constructor; auto. rewrite Ew; auto.
    + exfalso.
      destruct (finite_choice (fun w j => j < length ts /\ ~ reach B (nth j ts dflt) (nth j w 0%N)) T) as [c Hc].
      { intros w Hw. apply not_Forall2_pos.
        - apply tuplesB_in in Hw as [rb [_ [_ [_ [_ Lw]]]]]. lia.
        - intros F2. apply Forall2_reach_matches in F2. assert (X : existsb (fun w0 => matches w0 (map (eval B) ts)) T = true) by (apply existsb_exists; exists w; auto). congruence. }
      assert (Hcin : In c (all_choices (length T) k)).
      { apply all_choices_in. split; [symmetry; eapply Forall2_len; eauto|]. apply Forall_forall. intros j Hj.
        destruct (In_nth c j 0 Hj) as [m [Hm <-]]. assert (Hl : length T = length c) by (eapply Forall2_len; eauto).
        clear - Hc Hm Hl Hlen. rewrite Hlen in Hc. revert m Hm. induction Hc as [|w j0 T c [H1 _] F IH2]; intros m Hm; simpl in *; [lia|].
        destruct m; auto. apply IH2; lia. }
      destruct (Hk' c Hcin) as [i [Hi Hinc]].
      assert (Hti : height (nth i ts dflt) <= n).
      { assert (In (nth i ts dflt) ts) by (apply nth_In; lia). pose proof (height_child _ _ (sym r) H0). lia. }
      destruct (Hinc _ Hti) as [s [Hs Rs]]; [apply Forall2_nth_reach; auto; lia|].
      destruct (pick_elim _ T c i s Hc Hs) as [w [Hw [[_ Hnr] ->]]]. auto.
Qed.

Section Opt.
  Variables A B : ta.
  Definition GInv (G : list goal) := forall p P, In (p, P) G -> Incl A B p P.
  Definition CondOK (D : list goal) (q : N) (S : list N) := forall n, WHyp A B n D -> InclN A B n q S.

  Lemma Incl_of_all q S : (forall n, InclN A B n q S) -> Incl A B q S.
  Proof. intros H t R. apply (H (height t) t (le_n _) R). Qed.
  Lemma CondOK_mono D D' q S : incl D D' -> CondOK D q S -> CondOK D' q S.
  Proof. intros I H n HW. apply H. intros p P Hin. apply HW. apply I; auto. Qed.
  Lemma CondOK_nil q S : CondOK [] q S -> Incl A B q S.
  Proof. intros H. apply Incl_of_all. intros n. apply H. intros p P []. Qed.
  Lemma hit_spec q S p : hit q S p = true -> fst p = q /\ incl (snd p) S.
  Proof. unfold hit. intros H. apply andb_true_iff in H as [H1 H2]. apply N.eqb_eq in H1. apply subN_spec in H2. auto. Qed.
  Lemma same_goal_refl g : same_goal g g = true.
  Proof. unfold same_goal. rewrite N.eqb_refl. simpl. assert (subN (snd g) (snd g) = true) by (apply subN_spec; apply incl_refl). rewrite H; auto. Qed.
  Lemma same_goal_spec g h : same_goal g h = true -> fst g = fst h /\ incl (snd g) (snd h) /\ incl (snd h) (snd g).
  Proof.
    unfold same_goal. intros H. apply andb_true_iff in H as [H H3]. apply andb_true_iff in H as [H1 H2].
    apply N.eqb_eq in H1. apply subN_spec in H2. apply subN_spec in H3. auto.
  Qed.
  Lemma InclN_sub n q S S' : incl S S' -> InclN A B n q S -> InclN A B n q S'.
  Proof. intros I H t Ht R. eapply covers_mono; eauto. Qed.

  Definition SInv (W' : list goal) (st : ost) :=
    GInv (snd st) /\ incl (fst (fst st)) W' /\ (forall c, In c (snd (fst st)) -> CondOK (fst (fst st)) (fst c) (snd c)).
  Definition sle (st st' : ost) := incl (fst (fst st)) (fst (fst st')).
  Lemma sle_refl a : sle a a. Proof. apply incl_refl. Qed.
  Lemma sle_trans a b c : sle a b -> sle b c -> sle a c. Proof. unfold sle. intros; eapply incl_tran; eauto. Qed.

  Definition Sound (q : N) (S : list N) (W G : list goal) (r : ores) :=
    GInv (gc r) /\ (ok r = true -> incl (deps r) W /\ CondOK (deps r) q S /\ (forall c, In c (cons r) -> CondOK (deps r) (fst c) (snd c))).

  Lemma downo_sound : forall fuel q S W G r, downo false A B fuel q S W G = Some r -> GInv G -> Sound q S W G r.
  Proof.
    induction fuel as [|f IH]; intros q S W G r Hd HG; [discriminate|]. simpl in Hd.
    destruct (find (hit q S) W) as [h|] eqn:EW.
    { inversion Hd; subst; clear Hd. split; auto. intros _. simpl.
      apply find_some in EW as [Hin Hh]. apply hit_spec in Hh as [E1 E2]. repeat split.
      - intros x [<-|[]]; auto.
      - intros n HW. apply (InclN_sub n q (snd h) S E2). rewrite <- E1. apply HW. left. destruct h; auto.
      - intros c []. }
    destruct (existsb (hit q S) G) eqn:EG.
    { inversion Hd; subst; clear Hd. split; auto. intros _. simpl. apply existsb_exists in EG as [g [Hg Hh]]. apply hit_spec in Hh as [E1 E2].
      repeat split; [intros x [] | | intros c []].
      intros n _ t Ht R. eapply covers_mono; eauto. subst q. destruct g as [p P]. apply (HG p P Hg t R). }
    set (own := (q, S)) in *. set (W' := own :: W) in *.
    set (fpos := fun (r0 : rule) (c : list nat) (i : nat) (st2 : ost) =>
           match downo false A B f (nth i (ch r0) 0%N) (pick (tuplesB B S (sym r0) (length (ch r0))) c i) W' (snd st2) with
           | Some r' => if ok r' then Some (true, (deps r' ++ fst (fst st2), cons r' ++ snd (fst st2), gc r'))
                        else Some (false, (fst (fst st2), snd (fst st2), gc r'))
           | None => None
           end).
    set (fch := fun (r0 : rule) (c : list nat) (st1 : ost) => exists_s (fpos r0 c) (seq 0 (length (ch r0))) st1).
    set (frule := fun (r0 : rule) (st : ost) =>
           if negb (N.eqb (par r0) q) then Some (true, st) else
           match length (ch r0) with
           | 0 => Some (negb (is_nil (tuplesB B S (sym r0) (length (ch r0)))), st)
           | _ => forall_s (fch r0) (all_choices (length (tuplesB B S (sym r0) (length (ch r0)))) (length (ch r0))) st
           end).
    assert (Hd' : match forall_s frule (rules A) ([], [], G) with
                  | Some (true, (D, Cn, G1)) =>
                      if is_nil (filter (fun h => negb (same_goal own h)) D) || false
                      then Some {| ok := true; deps := filter (fun h => negb (same_goal own h)) D; cons := []; gc := (own :: Cn) ++ G1 |}
                      else Some {| ok := true; deps := filter (fun h => negb (same_goal own h)) D; cons := own :: Cn; gc := G1 |}
                  | Some (false, (_, _, G1)) => Some {| ok := false; deps := []; cons := []; gc := G1 |}
                  | None => None end = Some r).
    { revert Hd. unfold frule, fch, fpos, own, W'. clear.
      match goal with |- match ?X with _ => _ end = _ -> match ?Y with _ => _ end = _ => replace Y with X; [auto|] end.
      f_equal. }
    clear Hd.
    (* the steps keep the invariant of the level and only enlarge the antecedent *)
    assert (Spos : forall r0 c i C b C', SInv W' C -> fpos r0 c i C = Some (b, C') ->
               (SInv W' C' /\ sle C C') /\
               (b = true -> exists D0, incl D0 (fst (fst C')) /\ CondOK D0 (nth i (ch r0) 0%N) (pick (tuplesB B S (sym r0) (length (ch r0))) c i))).
    { intros r0 c i C b C' [HG0 [HD0 HC0]] H. unfold fpos in H.
      destruct (downo false A B f (nth i (ch r0) 0%N) (pick (tuplesB B S (sym r0) (length (ch r0))) c i) W' (snd C)) as [r'|] eqn:Er; [|discriminate].
      destruct (IH _ _ _ _ _ Er HG0) as [HG' Hok].
      destruct (ok r') eqn:Eok; inversion H; subst; clear H.
      - destruct (Hok eq_refl) as [Hi [Hc Hcs]]. split; [split|].
        + unfold SInv; simpl. repeat split; auto.
          * apply incl_app; auto.
          * intros c0 Hin. apply in_app_or in Hin as [Hin|Hin].
            -- eapply CondOK_mono; [|apply Hcs; auto]. apply incl_appl, incl_refl.
            -- eapply CondOK_mono; [|apply HC0; auto]. apply incl_appr, incl_refl.
        + unfold sle; simpl. apply incl_appr, incl_refl.
        + intros _. exists (deps r'). split; auto. simpl. apply incl_appl, incl_refl.
      - split; [split|discriminate].
        + unfold SInv; simpl. repeat split; auto.
        + unfold sle; simpl. apply incl_refl. }
    assert (Sch : forall r0 c C b C', SInv W' C -> fch r0 c C = Some (b, C') -> SInv W' C' /\ sle C C').
    { intros r0 c C b C' HI H. unfold fch in H.
      destruct (exists_s_spec (fpos r0 c) (SInv W') sle sle_refl sle_trans (seq 0 (length (ch r0)))
                  (fun i C0 b0 C0' _ HI0 H0 => proj1 (Spos r0 c i C0 b0 C0' HI0 H0)) C b C' HI H) as [H1 [H2 _]]. auto. }
    assert (Sru : forall r0 C b C', SInv W' C -> frule r0 C = Some (b, C') -> SInv W' C' /\ sle C C').
    { intros r0 C b C' HI H. unfold frule in H. destruct (negb (N.eqb (par r0) q)); [inversion H; subst; split; auto; apply sle_refl|].
      destruct (length (ch r0)) eqn:Ek; [inversion H; subst; split; auto; apply sle_refl|]. rewrite <- Ek in H.
      destruct (forall_s_spec (fch r0) (SInv W') sle sle_refl sle_trans _
                  (fun c C0 b0 C0' _ HI0 H0 => Sch r0 c C0 b0 C0' HI0 H0) C b C' HI H) as [H1 [H2 _]]. auto. }
    assert (HI0 : SInv W' ([], [], G)).
    { unfold SInv; simpl. repeat split; auto. intros x []. intros c []. }
    destruct (forall_s frule (rules A) ([], [], G)) as [[b [[D Cn] G1]]|] eqn:EF; [|discriminate].
    destruct (forall_s_spec frule (SInv W') sle sle_refl sle_trans (rules A) (fun x C0 b0 C0' _ => Sru x C0 b0 C0') _ _ _ HI0 EF)
      as [[HG1 [HD HCn]] [_ Hall]]. simpl in HG1, HD, HCn.
    destruct b.
    2: { inversion Hd'; subst. split; auto. simpl. discriminate. }
    specialize (Hall eq_refl).
    set (D' := filter (fun h => negb (same_goal own h)) D) in *.
    (* every position recorded as proved is proved under the final antecedent D *)
    assert (Hrules : forall n, WHyp A B n D -> forall r0, In r0 (rules A) -> par r0 = q ->
       (length (ch r0) = 0 -> tuplesB B S (sym r0) 0 <> []) /\
       (length (ch r0) <> 0 -> forall c, In c (all_choices (length (tuplesB B S (sym r0) (length (ch r0)))) (length (ch r0))) ->
           exists i, i < length (ch r0) /\ InclN A B n (nth i (ch r0) 0%N) (pick (tuplesB B S (sym r0) (length (ch r0))) c i))).
    { intros n HWD r0 Hr0 Hp. destruct (Hall r0 Hr0) as [Ci [Co [HICi [Hfr Hle]]]].
      unfold frule in Hfr. rewrite Hp, N.eqb_refl in Hfr. simpl in Hfr. split.
      - intros E0. rewrite E0 in Hfr. inversion Hfr as [[Hn Hc]]. apply negb_true_iff in Hn. intros ET. rewrite ET in Hn. discriminate.
      - intros NE c Hc. destruct (length (ch r0)) eqn:Ek; [congruence|]. rewrite <- Ek in *.
        destruct (forall_s_spec (fch r0) (SInv W') sle sle_refl sle_trans _
                    (fun c0 C0 b0 C0' _ HI1 H0 => Sch r0 c0 C0 b0 C0' HI1 H0) Ci true Co HICi Hfr) as [_ [_ Hc']].
        destruct (Hc' eq_refl c Hc) as [Cj [Cp [HICj [Hex Hle2]]]]. unfold fch in Hex.
        destruct (exists_s_spec (fpos r0 c) (SInv W') sle sle_refl sle_trans _
                    (fun i C0 b0 C0' _ HI1 H0 => proj1 (Spos r0 c i C0 b0 C0' HI1 H0)) Cj true Cp HICj Hex) as [_ [_ Hi']].
        destruct (Hi' eq_refl) as [i [Ck [Cl [Hi [HICk [Hp' Hle3]]]]]]. apply in_seq in Hi.
        destruct (proj2 (Spos r0 c i Ck true Cl HICk Hp') eq_refl) as [D0 [HD0 HC0]].
        exists i. split; [lia|]. apply HC0. intros p P Hin. apply HWD.
        apply Hle, Hle2, Hle3, HD0, Hin. }
    (* the goal itself, under the antecedent without it: induction on the height bound *)
    assert (Hown : CondOK D' q S).
    { intros n. induction n as [|n IHn]; intros HW'; [apply InclN_0|].
      assert (Hqn : InclN A B n q S) by (apply IHn; eapply WHyp_mono; [|eauto]; lia).
      apply root_cover. apply Hrules. intros p P Hin.
      destruct (same_goal own (p, P)) eqn:ES.
      - apply same_goal_spec in ES as [E1 [E2 E3]]. simpl in E1, E2, E3. subst p. apply (InclN_sub n q S P E2). auto.
      - eapply InclN_mono; [|apply HW'; unfold D'; apply filter_In; split; [exact Hin | rewrite ES; auto]]. lia. }
    assert (HDW : forall n, WHyp A B n D' -> WHyp A B n D).
    { intros n HW' p P Hin. destruct (same_goal own (p, P)) eqn:ES.
      - apply same_goal_spec in ES as [E1 [E2 E3]]. simpl in E1, E2, E3. subst p. apply (InclN_sub n q S P E2). apply Hown; auto.
      - apply HW'. unfold D'. apply filter_In. split; auto. rewrite ES; auto. }
    assert (HD'W : incl D' W).
    { intros x Hx. unfold D' in Hx. apply filter_In in Hx as [Hx Hn]. destruct (HD x Hx) as [<-|Hin]; auto.
      rewrite same_goal_refl in Hn. discriminate. }
    assert (Hcons : forall c, In c (own :: Cn) -> CondOK D' (fst c) (snd c)).
    { intros c [<-|Hin]; [exact Hown|]. intros n HW'. apply (HCn c Hin n). apply HDW; auto. }
    rewrite orb_false_r in Hd'. destruct (is_nil D') eqn:EN; inversion Hd'; subst; clear Hd'; split; simpl.
    - intros p P Hin. change (In (p, P) ((own :: Cn) ++ G1)) in Hin. apply in_app_or in Hin as [Hin|Hin]; [|apply HG1; auto].
      destruct D'; [|discriminate]. apply CondOK_nil. apply (Hcons (p, P) Hin).
    - intros _. repeat split; auto. intros c [].
    - exact HG1.
    - intros _. repeat split; auto.
  Qed.

  (* "false" is sound whatever the promotion discipline: cache hits only ever answer "true" *)
  Lemma downo_false_sound cl : forall fuel q S W G r, downo cl A B fuel q S W G = Some r -> ok r = false -> exists t, reach A t q /\ ~ covers B S t.
  Proof.
    induction fuel as [|f IH]; intros q S W G r Hd Hok; [discriminate|]. simpl in Hd.
    destruct (find (hit q S) W); [inversion Hd; subst; discriminate|].
    destruct (existsb (hit q S) G); [inversion Hd; subst; discriminate|].
    match type of Hd with match ?X with _ => _ end = _ => destruct X as [[[|] [[D Cn] G1]]|] eqn:EF; try discriminate end.
    { destruct (is_nil _ || cl); inversion Hd; subst; discriminate. }
    apply forall_s_false in EF as [r0 [Ci [Co [Hr Hfr]]]].
    destruct (N.eqb_spec (par r0) q) as [Ep|NE]; simpl in Hfr; [|discriminate]. subst q.
    destruct (length (ch r0)) as [|k'] eqn:Ek.
    - inversion Hfr as [[Hn Hc]]. apply negb_false_iff in Hn. destruct (tuplesB B S (sym r0) 0) as [|w T] eqn:ET; [|discriminate].
      exists (Node (sym r0) []). split.
      + constructor; auto. destruct (ch r0); [constructor | discriminate].
      + intros [s [Hs R]]. inversion R as [g ts rb Hrb Hsb HF]; subst. inversion HF as [E|]; subst.
        assert (Hin : In (ch rb) (tuplesB B S (sym r0) 0)) by (apply tuplesB_in; exists rb; rewrite <- H; auto).
        rewrite ET in Hin. destruct Hin.
    - set (k := Datatypes.S k') in *. set (T := tuplesB B S (sym r0) k) in *.
      apply forall_s_false in Hfr as [c [Cj [Cp [Hc Hex]]]].
      apply all_choices_in in Hc as [Lc Fc].
      destruct (build_list (fun i t => reach A t (nth i (ch r0) 0%N) /\ ~ covers B (pick T c i) t) dflt k) as [ts [Lts Hts]].
      { intros i Hi. destruct (exists_s_false _ _ _ _ Hex i) as [Ck [Cl Hdi]]; [apply in_seq; lia|].
        destruct (downo cl A B f (nth i (ch r0) 0%N) (pick T c i) ((par r0, S) :: W) (snd Ck)) as [r'|] eqn:Er; [|discriminate].
        destruct (ok r') eqn:Eok; [discriminate|]. apply (IH _ _ _ _ _ Er Eok). }
      exists (Node (sym r0) ts). split.
      + constructor; auto. apply Forall2_of_nth; [lia|]. intros i Hi. apply Hts. lia.
      + intros [s [Hs R]]. inversion R as [g ts' rb Hrb Hsb HF]; subst.
        assert (Lw : length (ch rb) = k) by (rewrite <- Lts; symmetry; clear - HF; induction HF; simpl; auto).
        assert (Hin : In (ch rb) T) by (apply tuplesB_in; exists rb; auto).
        destruct (pick_intro _ T c (choice_positions T c k Lc Fc) (ch rb) Hin) as [i [Hi Hp]].
        apply (proj2 (Hts i Hi)). exists (nth i (ch rb) 0%N). split; auto. apply Forall2_nth_reach; auto. lia.
  Qed.
End Opt.

(* the whole check with the implication cache: an answer is the truth, whatever the fuel *)
Theorem downo_partial_correct A B fuel b : downo_incl false A B fuel = Some b -> (b = true <-> lincl A B).
Proof.
  unfold downo_incl. intros H.
  set (fq := fun q (G : list goal) => match downo false A B fuel q (finals B) [] G with Some r => Some (ok r, gc r) | None => None end) in *.
  destruct (forall_s fq (finals A) []) as [[b0 G0]|] eqn:EF; [|discriminate]. inversion H; subst b0; clear H.
  assert (Hstep : forall q C b1 C', In q (finals A) -> GInv A B C -> fq q C = Some (b1, C') -> GInv A B C' /\ True).
  { intros q C b1 C' _ HI Hf. unfold fq in Hf. destruct (downo false A B fuel q (finals B) [] C) as [r|] eqn:Er; [|discriminate].
    inversion Hf; subst. split; auto. apply (downo_sound A B _ _ _ _ _ _ Er HI). }
  destruct (forall_s_spec fq (GInv A B) (fun _ _ => True) (fun _ => I) (fun _ _ _ _ _ => I) (finals A) Hstep [] b G0 (fun p P (H : In (p, P) []) => match H with end) EF)
    as [_ [_ Hall]].
  destruct b; split; auto; try discriminate.
  - intros _ t [q [Hq R]]. destruct (Hall eq_refl q Hq) as [Ci [Co [HICi [Hf _]]]]. unfold fq in Hf.
    destruct (downo false A B fuel q (finals B) [] Ci) as [r|] eqn:Er; [|discriminate]. inversion Hf as [[Hok Hg]].
    destruct (downo_sound A B _ _ _ _ _ _ Er HICi) as [_ Hs]. destruct (Hs Hok) as [Hi [Hc _]].
    assert (E : deps r = []) by (destruct (deps r) as [|x l]; auto; destruct (Hi x (or_introl eq_refl))).
    rewrite E in Hc. destruct (CondOK_nil A B _ _ Hc t R) as [s [Hs' Rs]]. exists s; auto.
  - intros L. apply forall_s_false in EF as [q [Ci [Co [Hq Hf]]]]. unfold fq in Hf.
    destruct (downo false A B fuel q (finals B) [] Ci) as [r|] eqn:Er; [|discriminate]. inversion Hf as [[Hok Hg]].
    destruct (downo_false_sound A B false _ _ _ _ _ _ Er Hok) as [t [R N]].
    exfalso. apply N. destruct (L t) as [s [Hs Rs]]; [exists q; auto|]. exists s; auto.
Qed.

Corollary downo_refines A B fuel b : downo_incl false A B fuel = Some b -> b = incl_dec A B.
Proof.
  intros H. apply downo_partial_correct in H. apply eq_true_iff_eq. rewrite H. symmetry. apply incl_dec_spec.
Qed.

(* careless promotion: consequents proved under the hypothesis (p, {P}) become global although (p, {P}) is still only a hypothesis *)
Theorem downo_careless_refuted :
  downo_incl true trapA trapB 30 = Some true /\ ~ lincl trapA trapB /\ downo_incl false trapA trapB 30 = Some false.
Proof.
  split; [vm_compute; reflexivity|]. split; [|vm_compute; reflexivity].
  intros H. apply incl_dec_spec in H. vm_compute in H. discriminate H.
Qed.
