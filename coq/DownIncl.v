(* C01 / C07 (A) increment — the recursive downward inclusion algorithm (identity preorder, no caches):
   L(q) <= L(S) is decided top-down; for a rule f(q1..qk) -> q of the smaller automaton and the tuples T of the rules
   f(..) -> s, s in S, of the bigger one, EVERY choice function c : T -> positions must have SOME position i with
   L(q_i) <= L({ t_i | c t = i }); goals already open on the call stack (the workset) count as true (coinduction).
   Fuel-indexed; theorem: WHATEVER the fuel, an answer is the truth (partial correctness; running out of fuel is the
   distinguished value None, excluded by the statement). *)
From Coq Require Import List NArith Bool Arith Lia.
Import ListNotations.
From V Require Import Fix Sem Prod Incl TrimDefs TrimProofs Lang InclDefs ComplDefs ComplProofs ComplModel.

Fixpoint forall_opt {X} (f : X -> option bool) (l : list X) : option bool :=
  match l with
  | [] => Some true
  | x :: r => match f x with Some true => forall_opt f r | Some false => Some false | None => None end
  end.
Fixpoint exists_opt {X} (f : X -> option bool) (l : list X) : option bool :=
  match l with
  | [] => Some false
  | x :: r => match f x with Some false => exists_opt f r | Some true => Some true | None => None end
  end.

(* all functions from n arguments to positions 0..k-1 *)
Fixpoint all_choices (n k : nat) : list (list nat) :=
  match n with 0 => [[]] | S n' => flat_map (fun c => map (fun j => j :: c) (seq 0 k)) (all_choices n' k) end.

Definition tuplesB (B : ta) (S : list N) (f : N) (k : nat) : list (list N) :=
  map ch (filter (fun r => N.eqb (sym r) f && memN (par r) S && Nat.eqb (length (ch r)) k) (rules B)).

Definition wk := list (N * list N).
Definition in_workset (W : wk) (q : N) (S : list N) : bool := existsb (fun p => N.eqb (fst p) q && subN (snd p) S) W.

Fixpoint down (A B : ta) (fuel : nat) (q : N) (S : list N) (W : wk) : option bool :=
  match fuel with
  | 0 => None
  | Datatypes.S f =>
      if in_workset W q S then Some true else
      forall_opt (fun r =>
        if negb (N.eqb (par r) q) then Some true else
        let k := length (ch r) in
        let T := tuplesB B S (sym r) k in
        match k with
        | 0 => Some (negb (is_nil T))
        | _ => forall_opt (fun c => exists_opt (fun i => down A B f (nth i (ch r) 0%N) (pick T c i) ((q, S) :: W)) (seq 0 k))
                          (all_choices (length T) k)
        end) (rules A)
  end.

Definition down_incl (A B : ta) (fuel : nat) : option bool :=
  forall_opt (fun q => down A B fuel q (finals B) []) (finals A).

(* ---------- proofs ---------- *)
Fixpoint height (t : tree) : nat := match t with Node _ ts => S (fold_right Nat.max 0 (map height ts)) end.
Lemma height_child t ts f : In t ts -> height t < height (Node f ts).
Proof. simpl. induction ts as [|a ts IH]; simpl; intros H; [destruct H|]. destruct H as [<-|H]; [lia | specialize (IH H); lia]. Qed.

Definition covers (B : ta) (S : list N) (t : tree) := exists s, In s S /\ reach B t s.
Definition InclN (A B : ta) (n : nat) (q : N) (S : list N) := forall t, height t <= n -> reach A t q -> covers B S t.
Definition Incl (A B : ta) (q : N) (S : list N) := forall t, reach A t q -> covers B S t.

Lemma forall_opt_true {X} (f : X -> option bool) l : forall_opt f l = Some true <-> forall x, In x l -> f x = Some true.
Proof.
  induction l as [|a l IH]; simpl; [split; auto; intros _ x []|].
  destruct (f a) as [[|]|] eqn:E; split; intros H; try discriminate.
  - intros x [<-|Hx]; auto. apply IH; auto.
  - apply IH. intros; apply H; auto.
  - specialize (H a (or_introl eq_refl)). congruence.
  - specialize (H a (or_introl eq_refl)). congruence.
Qed.
Lemma forall_opt_false {X} (f : X -> option bool) l : forall_opt f l = Some false -> exists x, In x l /\ f x = Some false.
Proof.
  induction l as [|a l IH]; simpl; [discriminate|]. destruct (f a) as [[|]|] eqn:E; intros H; try discriminate.
  - destruct (IH H) as [x [Hx Hf]]. exists x; auto.
  - exists a; auto.
Qed.
Lemma exists_opt_true {X} (f : X -> option bool) l : exists_opt f l = Some true -> exists x, In x l /\ f x = Some true.
Proof.
  induction l as [|a l IH]; simpl; [discriminate|]. destruct (f a) as [[|]|] eqn:E; intros H; try discriminate.
  - exists a; auto.
  - destruct (IH H) as [x [Hx Hf]]. exists x; auto.
Qed.
Lemma exists_opt_false {X} (f : X -> option bool) l : exists_opt f l = Some false <-> forall x, In x l -> f x = Some false.
Proof.
  induction l as [|a l IH]; simpl; [split; auto; intros _ x []|].
  destruct (f a) as [[|]|] eqn:E; split; intros H; try discriminate.
  - specialize (H a (or_introl eq_refl)). congruence.
  - intros x [<-|Hx]; auto. apply IH; auto.
  - apply IH. intros; apply H; auto.
  - specialize (H a (or_introl eq_refl)). congruence.
Qed.

Lemma all_choices_in n k c : In c (all_choices n k) <-> (length c = n /\ Forall (fun j => j < k) c).
Proof.
  revert c. induction n as [|n IH]; intros c; simpl.
  - split; [intros [<-|[]]; split; auto | intros [H _]; destruct c; [auto | discriminate]].
  - rewrite in_flat_map. split.
    + intros [c' [Hc' H]]. apply in_map_iff in H as [j [<- Hj]]. apply IH in Hc' as [L F]. apply in_seq in Hj.
      split; [simpl; lia | constructor; [lia | auto]].
    + intros [L F]. destruct c as [|j c]; [discriminate|]. inversion F; subst. exists c. split; [apply IH; split; auto; simpl in L; lia|].
      apply in_map_iff. exists j. split; auto. apply in_seq. lia.
Qed.

Lemma tuplesB_in B S f k w : In w (tuplesB B S f k) <-> exists r, In r (rules B) /\ sym r = f /\ In (par r) S /\ ch r = w /\ length w = k.
Proof.
  unfold tuplesB. rewrite in_map_iff. split.
  - intros [r [E H]]. apply filter_In in H as [Hr H]. apply andb_true_iff in H as [H H3]. apply andb_true_iff in H as [H1 H2].
    apply N.eqb_eq in H1. apply memN_In in H2. apply Nat.eqb_eq in H3. exists r. subst. auto.
  - intros [r [Hr [Hs [Hp [E L]]]]]. exists r. split; auto. apply filter_In. split; auto.
    rewrite Hs, N.eqb_refl. simpl. rewrite (proj2 (memN_In _ _) Hp). simpl. apply Nat.eqb_eq. congruence.
Qed.

Lemma in_workset_spec W q S : in_workset W q S = true <-> exists S', In (q, S') W /\ incl S' S.
Proof.
  unfold in_workset. rewrite existsb_exists. split.
  - intros [[q' S'] [H E]]. simpl in E. apply andb_true_iff in E as [E1 E2]. apply N.eqb_eq in E1. apply subN_spec in E2. subst. exists S'; auto.
  - intros [S' [H I]]. exists (q, S'). split; auto. simpl. rewrite N.eqb_refl. apply subN_spec; auto.
Qed.

Lemma InclN_mono A B n m q S : m <= n -> InclN A B n q S -> InclN A B m q S.
Proof. intros H I t Ht. apply I. lia. Qed.
Lemma covers_mono B S S' t : incl S S' -> covers B S t -> covers B S' t.
Proof. intros H [s [Hs R]]. exists s; auto. Qed.

Definition WHyp A B n (W : wk) := forall q S, In (q, S) W -> InclN A B n q S.

Lemma Forall2_reach_matches B ts w : matches w (map (eval B) ts) = true <-> Forall2 (reach B) ts w.
Proof. apply matches_spec. apply Forall_forall. intros t _ q. apply eval_spec. Qed.

Lemma build_list {X} (P : nat -> X -> Prop) (d : X) : forall k, (forall i, i < k -> exists x, P i x) ->
  exists l, length l = k /\ forall i, i < k -> P i (nth i l d).
Proof.
  induction k as [|k IH]; intros H; [exists []; split; auto; intros; lia|].
  destruct IH as [l [L Hl]]; [intros; apply H; lia|]. destruct (H k ltac:(lia)) as [x Hx].
  exists (l ++ [x]). split; [rewrite app_length; simpl; lia|]. intros i Hi.
  destruct (Nat.eq_dec i k) as [->|NE].
  - rewrite app_nth2 by lia. rewrite L, Nat.sub_diag. simpl; auto.
  - rewrite app_nth1 by lia. apply Hl. lia.
Qed.

Lemma choice_positions T c k : length c = length T -> Forall (fun j => j < k) c -> Forall2 (fun (w : list N) j => j < k) T c.
Proof.
  revert c. induction T as [|w T IH]; intros [|j c] L F; simpl in *; try discriminate; constructor; inversion F; subst; auto.
Qed.

(* soundness of "true": by induction on the height bound; the coinductive hypothesis is used one level below *)
Lemma down_true_sound A B : forall n fuel q S W, down A B fuel q S W = Some true -> WHyp A B n W -> InclN A B n q S.
Proof.
  induction n as [|n IHn]; intros fuel q S W Hd HW.
  - intros t Ht. destruct t; simpl in Ht; lia.
  - assert (Hq : InclN A B n q S) by (apply (IHn fuel q S W Hd); intros q' S' H'; eapply InclN_mono; [|apply HW; eauto]; lia).
    destruct fuel as [|f]; [discriminate|]. simpl in Hd.
    destruct (in_workset W q S) eqn:EW.
    + apply in_workset_spec in EW as [S' [Hin Hsub]]. intros t Ht R. eapply covers_mono; eauto. apply (HW q S' Hin t Ht R).
    + intros t Ht R. inversion R as [g ts r Hr Hs HF]; subst.
      rewrite forall_opt_true in Hd. specialize (Hd r Hr). rewrite N.eqb_refl in Hd. simpl in Hd.
      assert (Hlen : length ts = length (ch r)) by (clear - HF; induction HF; simpl; auto).
      destruct (length (ch r)) as [|k'] eqn:Ek.
      * inversion Hd as [Hn]. apply negb_true_iff in Hn. destruct (tuplesB B S (sym r) 0) as [|w T] eqn:ET; [discriminate|].
        assert (Hw : In w (tuplesB B S (sym r) 0)) by (rewrite ET; left; auto).
        apply tuplesB_in in Hw as [rb [Hrb [Hsb [Hpb [Ew Lw]]]]]. exists (par rb). split; auto.
        destruct ts; [|discriminate]. rewrite <- Hsb. constructor; auto. destruct (ch rb); [constructor | subst; discriminate].
      * set (k := Datatypes.S k') in *. set (T := tuplesB B S (sym r) k) in *.
        destruct (existsb (fun w => matches w (map (eval B) ts)) T) eqn:EX.
        -- apply existsb_exists in EX as [w [Hw M]]. apply Forall2_reach_matches in M.
           apply tuplesB_in in Hw as [rb [Hrb [Hsb [Hpb [Ew Lw]]]]]. exists (par rb). split; auto. rewrite <- Hsb. constructor; auto. rewrite Ew; auto.
        -- exfalso.
           destruct (finite_choice (fun w j => j < length ts /\ ~ reach B (nth j ts dflt) (nth j w 0%N)) T) as [c Hc].
           { intros w Hw. apply not_Forall2_pos.
             - apply tuplesB_in in Hw as [rb [_ [_ [_ [_ Lw]]]]]. lia.
             - intros F2. apply Forall2_reach_matches in F2. assert (X : existsb (fun w0 => matches w0 (map (eval B) ts)) T = true) by (apply existsb_exists; exists w; auto). congruence. }
           assert (Hcin : In c (all_choices (length T) k)).
           { apply all_choices_in. split; [symmetry; eapply Forall2_len; eauto|]. apply Forall_forall. intros j Hj.
             destruct (In_nth c j 0 Hj) as [m [Hm <-]]. assert (Hl : length T = length c) by (eapply Forall2_len; eauto).
             clear - Hc Hm Hl Hlen. rewrite Hlen in Hc. revert m Hm. induction Hc as [|w j0 T c [H1 _] F IH2]; intros m Hm; simpl in *; [lia|].
             destruct m; auto. apply IH2; lia. }
           rewrite forall_opt_true in Hd. specialize (Hd c Hcin). apply exists_opt_true in Hd as [i [Hi Hdi]]. apply in_seq in Hi.
           assert (Hinc : InclN A B n (nth i (ch r) 0%N) (pick T c i)).
           { apply (IHn f _ _ _ Hdi). intros q' S' [E|H']; [inversion E; subst; auto | eapply InclN_mono; [|apply HW; eauto]; lia]. }
           assert (Hti : height (nth i ts dflt) <= n).
           { assert (In (nth i ts dflt) ts) by (apply nth_In; lia). pose proof (height_child _ _ (sym r) H). lia. }
           destruct (Hinc _ Hti) as [s [Hs Rs]]; [apply Forall2_nth_reach; auto; lia|].
           destruct (pick_elim _ T c i s Hc Hs) as [w [Hw [[_ Hnr] ->]]]. auto.
Qed.

(* soundness of "false": a counterexample tree exists (independent of the workset) *)
Lemma down_false_sound A B : forall fuel q S W, down A B fuel q S W = Some false -> exists t, reach A t q /\ ~ covers B S t.
Proof.
  induction fuel as [|f IH]; intros q S W Hd; [discriminate|]. simpl in Hd.
  destruct (in_workset W q S); [discriminate|].
  apply forall_opt_false in Hd as [r [Hr Hd]].
  destruct (N.eqb_spec (par r) q) as [Ep|NE]; simpl in Hd; [|discriminate]. subst q.
  destruct (length (ch r)) as [|k'] eqn:Ek.
  - inversion Hd as [Hn]. apply negb_false_iff in Hn. destruct (tuplesB B S (sym r) 0) as [|w T] eqn:ET; [|discriminate].
    exists (Node (sym r) []). split.
    + constructor; auto. destruct (ch r); [constructor | discriminate].
    + intros [s [Hs R]]. inversion R as [g ts rb Hrb Hsb HF]; subst. inversion HF as [E|]; subst.
      assert (Hin : In (ch rb) (tuplesB B S (sym r) 0)) by (apply tuplesB_in; exists rb; rewrite <- H; auto).
      rewrite ET in Hin. destruct Hin.
  - set (k := Datatypes.S k') in *. set (T := tuplesB B S (sym r) k) in *.
    apply forall_opt_false in Hd as [c [Hc Hd]]. rewrite exists_opt_false in Hd.
    apply all_choices_in in Hc as [Lc Fc].
    destruct (build_list (fun i t => reach A t (nth i (ch r) 0%N) /\ ~ covers B (pick T c i) t) dflt k) as [ts [Lts Hts]].
    { intros i Hi. apply (IH _ _ ((par r, S) :: W)). apply Hd. apply in_seq. lia. }
    exists (Node (sym r) ts). split.
    + constructor; auto. apply Forall2_of_nth; [lia|]. intros i Hi. apply Hts. lia.
    + intros [s [Hs R]]. inversion R as [g ts' rb Hrb Hsb HF]; subst.
      assert (Lw : length (ch rb) = k) by (rewrite <- Lts; symmetry; clear - HF; induction HF; simpl; auto).
      assert (Hin : In (ch rb) T) by (apply tuplesB_in; exists rb; auto).
      destruct (pick_intro _ T c (choice_positions T c k Lc Fc) (ch rb) Hin) as [i [Hi Hp]].
      apply (proj2 (Hts i Hi)). exists (nth i (ch rb) 0%N). split; auto. apply Forall2_nth_reach; auto. lia.
Qed.

Theorem down_partial_correct A B fuel q S b : down A B fuel q S [] = Some b -> (b = true <-> Incl A B q S).
Proof.
  intros H. destruct b; split; auto; try discriminate.
  - intros _ t R. apply (down_true_sound A B (height t) fuel q S [] H); auto. intros q' S' [].
  - intros I. destruct (down_false_sound A B fuel q S [] H) as [t [R N]]. exfalso. apply N, I, R.
Qed.

(* the whole check: every final state of A against the set of final states of B *)
Theorem down_incl_partial_correct A B fuel b : down_incl A B fuel = Some b -> (b = true <-> lincl A B).
Proof.
  unfold down_incl. intros H. destruct b; split; auto; try discriminate.
  - intros _ t [q [Hq R]]. rewrite forall_opt_true in H. specialize (H q Hq).
    destruct (proj1 (down_partial_correct A B fuel q (finals B) true H) eq_refl t R) as [s [Hs Rs]]. exists s; auto.
  - intros L. apply forall_opt_false in H as [q [Hq H]]. destruct (down_false_sound A B fuel q (finals B) [] H) as [t [R N]].
    exfalso. apply N. destruct (L t) as [s [Hs Rs]]; [exists q; auto|]. exists s; auto.
Qed.

(* agreement with the verified decider whenever the fuel suffices *)
Corollary down_incl_refines A B fuel b : down_incl A B fuel = Some b -> b = incl_dec A B.
Proof.
  intros H. apply down_incl_partial_correct in H. apply eq_true_iff_eq. rewrite H. symmetry. apply incl_dec_spec.
Qed.

(* non-vacuity: a cyclic pair where the coinductive hypothesis is needed, and a non-included pair *)
Example down_examples :
  let A := {| rules := [ {| sym := 0; ch := []; par := 0 |}; {| sym := 2; ch := [0%N]; par := 0 |} ]; finals := [0%N] |} in
  let B := {| rules := [ {| sym := 0; ch := []; par := 0 |}; {| sym := 2; ch := [0%N]; par := 1 |}; {| sym := 2; ch := [1%N]; par := 0 |};
                         {| sym := 0; ch := []; par := 1 |} ]; finals := [0%N; 1%N] |} in
  down_incl A B 20 = Some true /\ down_incl B {| rules := rules A; finals := [] |} 20 = Some false.
Proof. vm_compute. split; reflexivity. Qed.
