(* reading / printing tree automata in the numeric case format for Ex_c03 *)
open Ex_c03
open Common_c03

let read_ta (t : toks) : ta =
  expect t "T";
  let nf = num t in let fs = times nf (fun () -> n_of_int (num t)) in
  let nr = num t in
  let rs = times nr (fun () ->
    let s = num t in let p = num t in let k = num t in
    let cs = times k (fun () -> n_of_int (num t)) in
    { sym = n_of_int s; ch = cs; par = n_of_int p }) in
  { rules = rs; finals = fs }

let show_ta (a : ta) : string =
  let fs = List.sort_uniq compare (List.map int_of_n a.finals) in
  let rs = List.sort_uniq compare (List.map (fun r -> (int_of_n r.sym, int_of_n r.par, List.map int_of_n r.ch)) a.rules) in
  let b = Buffer.create 64 in
  Buffer.add_string b (Printf.sprintf "T %d" (List.length fs));
  List.iter (fun f -> Buffer.add_string b (Printf.sprintf " %d" f)) fs;
  Buffer.add_string b (Printf.sprintf " %d" (List.length rs));
  List.iter (fun (s, p, cs) ->
    Buffer.add_string b (Printf.sprintf " %d %d %d" s p (List.length cs));
    List.iter (fun c -> Buffer.add_string b (Printf.sprintf " %d" c)) cs) rs;
  Buffer.contents b
