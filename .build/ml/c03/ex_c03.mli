
val implb : bool -> bool -> bool

val negb : bool -> bool

type nat =
| O
| S of nat

val fst : ('a1 * 'a2) -> 'a1

val snd : ('a1 * 'a2) -> 'a2

val length : 'a1 list -> nat

val app : 'a1 list -> 'a1 list -> 'a1 list

val pred : nat -> nat

val add : nat -> nat -> nat

val sub : nat -> nat -> nat

val eqb : bool -> bool -> bool

module Nat :
 sig
  val eqb : nat -> nat -> bool
 end

val in_dec : ('a1 -> 'a1 -> bool) -> 'a1 -> 'a1 list -> bool

val list_eq_dec : ('a1 -> 'a1 -> bool) -> 'a1 list -> 'a1 list -> bool

val map : ('a1 -> 'a2) -> 'a1 list -> 'a2 list

val flat_map : ('a1 -> 'a2 list) -> 'a1 list -> 'a2 list

val fold_left : ('a1 -> 'a2 -> 'a1) -> 'a2 list -> 'a1 -> 'a1

val fold_right : ('a2 -> 'a1 -> 'a1) -> 'a1 -> 'a2 list -> 'a1

val existsb : ('a1 -> bool) -> 'a1 list -> bool

val forallb : ('a1 -> bool) -> 'a1 list -> bool

val filter : ('a1 -> bool) -> 'a1 list -> 'a1 list

val nodup : ('a1 -> 'a1 -> bool) -> 'a1 list -> 'a1 list

val list_sum : nat list -> nat

type positive =
| XI of positive
| XO of positive
| XH

type n =
| N0
| Npos of positive

module Pos :
 sig
  val eqb : positive -> positive -> bool

  val eq_dec : positive -> positive -> bool
 end

module N :
 sig
  val eqb : n -> n -> bool

  val eq_dec : n -> n -> bool
 end

type rule = { sym : n; ch : n list; par : n }

type ta = { rules : rule list; finals : n list }

val memN : n -> n list -> bool

val matches : n list -> n list list -> bool

val add1 : ('a1 -> 'a1 -> bool) -> 'a1 list -> 'a1 -> 'a1 list

val add_new : ('a1 -> 'a1 -> bool) -> 'a1 list -> 'a1 list -> 'a1 list

val saturate :
  ('a1 -> 'a1 -> bool) -> ('a1 list -> 'a1 list) -> nat -> 'a1 list -> 'a1
  list

val saturate2b :
  ('a1 -> 'a1 -> bool) -> ('a1 list -> 'a1 list) -> nat -> 'a1 list -> 'a1
  list * bool

val saturate2 :
  ('a1 -> 'a1 -> bool) -> ('a1 list -> 'a1 list) -> nat -> 'a1 list -> 'a1
  list

val states : ta -> n list

val prod_step : ta -> n list -> n list

val productive : ta -> n list

val is_empty : ta -> bool

val qB : ta -> n list

val fires : ta -> n -> n list list -> n -> bool

val postB : ta -> n -> n list list -> n list

type mp = n * n list

val mp_eq_dec : mp -> mp -> bool

val lookup : mp list -> n -> n list list

val choices : mp list -> n list -> n list list list

val mstep : ta -> ta -> mp list -> mp list

val macro_reach : ta -> ta -> mp list

val incl_dec : ta -> ta -> bool

val td_step : ta -> n list -> n list

val td_reach : ta -> n list

val owners : ta -> n list

val restrict_par : n list -> ta -> ta

val shortcut : n list -> ta -> bool

val shortcut_old : n list -> ta -> bool

val remove_unreachable_with : (n list -> ta -> bool) -> ta -> ta

val remove_unreachable : ta -> ta

val remove_unreachable_old : ta -> ta

val rule_productive : n list -> rule -> bool

val nonnull : rule -> bool

val remaining : ta -> n list -> nat

val productive_part : ta -> ta

val remove_useless : ta -> ta

val is_lang_empty : ta -> bool

val rule_eqb : rule -> rule -> bool

val memR : rule -> rule list -> bool

val subR : rule list -> rule list -> bool

val subN : n list -> n list -> bool

val ta_same : ta -> ta -> bool

val equiv_dec : ta -> ta -> bool

val no_unreachable : ta -> bool

val rule_useful : ta -> rule -> bool

val state_useful : ta -> n -> bool

val no_useless : ta -> bool

val gate_unreach : ta -> ta -> bool

val gate_useless : ta -> ta -> bool

val gate_empty : ta -> bool -> bool

val dch : rule -> n list

val fire : n -> (n list * n list) -> (rule * nat) -> n list * n list

val dec : n -> (rule * nat) -> rule * nat

type ust = { rcs : (rule * nat) list; marked : n list; todo : n list;
             popped : n list }

val urun : nat -> ust -> n list option

val fire0 : (n list * n list) -> rule -> n list * n list

val uinit : ta -> ust

val productive_count : ta -> nat -> n list option
