(* Glue between case lines and the extracted model Ex_c03: token parsing, N conversion, printing.
   Instantiated per property by textual substitution of the module name. No decisions here. *)
open Ex_c03

let rec pos_of_int (i : int) : positive =
  if i = 1 then XH else if i land 1 = 0 then XO (pos_of_int (i lsr 1)) else XI (pos_of_int (i lsr 1))
let n_of_int (i : int) : n = if i = 0 then N0 else Npos (pos_of_int i)
let rec int_of_pos = function XH -> 1 | XO p -> 2 * int_of_pos p | XI p -> 2 * int_of_pos p + 1
let int_of_n = function N0 -> 0 | Npos p -> int_of_pos p
let rec nat_of_int (i : int) : nat = if i <= 0 then O else S (nat_of_int (i - 1))
let rec int_of_nat = function O -> 0 | S k -> 1 + int_of_nat k

type toks = { mutable rest : string list }
let toks_of_line (l : string) : toks =
  { rest = List.filter (fun s -> s <> "") (String.split_on_char ' ' (String.trim l)) }
let word (t : toks) : string = match t.rest with [] -> failwith "model: line too short" | w :: r -> t.rest <- r; w
let num (t : toks) : int = int_of_string (word t)
let expect (t : toks) (w : string) : unit = let g = word t in if g <> w then failwith ("model: expected " ^ w ^ " got " ^ g)
let peek (t : toks) : string option = match t.rest with [] -> None | w :: _ -> Some w
let rec times k f = if k <= 0 then [] else let x = f () in x :: times (k - 1) f

let split_bar (l : string) : string * string =
  (* "<case> ||| <impl output>" *)
  let sep = " ||| " in
  let ls = String.length l and lp = String.length sep in
  let rec find i = if i + lp > ls then -1 else if String.sub l i lp = sep then i else find (i + 1) in
  let i = find 0 in
  if i < 0 then (l, "") else (String.sub l 0 i, String.sub l (i + lp) (ls - i - lp))

let each_line (f : string -> string) : unit =
  try while true do
    let l = input_line stdin in
    let out = (try f l with Failure m -> "ERR " ^ m | Not_found -> "ERR not_found" | Stack_overflow -> "ERR stack_overflow") in
    print_string out; print_newline ()
  done with End_of_file -> ()
