
(** val implb : bool -> bool -> bool **)

let implb b1 b2 =
  if b1 then b2 else true

(** val negb : bool -> bool **)

let negb = function
| true -> false
| false -> true

type nat =
| O
| S of nat

(** val fst : ('a1 * 'a2) -> 'a1 **)

let fst = function
| (x, _) -> x

(** val snd : ('a1 * 'a2) -> 'a2 **)

let snd = function
| (_, y) -> y

(** val length : 'a1 list -> nat **)

let rec length = function
| [] -> O
| _ :: l' -> S (length l')

(** val app : 'a1 list -> 'a1 list -> 'a1 list **)

let rec app l m =
  match l with
  | [] -> m
  | a :: l1 -> a :: (app l1 m)

(** val pred : nat -> nat **)

let pred n0 = match n0 with
| O -> n0
| S u -> u

(** val add : nat -> nat -> nat **)

let rec add n0 m =
  match n0 with
  | O -> m
  | S p -> S (add p m)

(** val sub : nat -> nat -> nat **)

let rec sub n0 m =
  match n0 with
  | O -> n0
  | S k -> (match m with
            | O -> n0
            | S l -> sub k l)

(** val eqb : bool -> bool -> bool **)

let eqb b1 b2 =
  if b1 then b2 else if b2 then false else true

module Nat =
 struct
  (** val eqb : nat -> nat -> bool **)

  let rec eqb n0 m =
    match n0 with
    | O -> (match m with
            | O -> true
            | S _ -> false)
    | S n' -> (match m with
               | O -> false
               | S m' -> eqb n' m')
 end

(** val in_dec : ('a1 -> 'a1 -> bool) -> 'a1 -> 'a1 list -> bool **)

let rec in_dec h a = function
| [] -> false
| y :: l0 -> let s = h y a in if s then true else in_dec h a l0

(** val list_eq_dec : ('a1 -> 'a1 -> bool) -> 'a1 list -> 'a1 list -> bool **)

let rec list_eq_dec eq_dec0 l l' =
  match l with
  | [] -> (match l' with
           | [] -> true
           | _ :: _ -> false)
  | y :: l0 ->
    (match l' with
     | [] -> false
     | a :: l1 -> if eq_dec0 y a then list_eq_dec eq_dec0 l0 l1 else false)

(** val map : ('a1 -> 'a2) -> 'a1 list -> 'a2 list **)

let rec map f = function
| [] -> []
| a :: t -> (f a) :: (map f t)

(** val flat_map : ('a1 -> 'a2 list) -> 'a1 list -> 'a2 list **)

let rec flat_map f = function
| [] -> []
| x :: t -> app (f x) (flat_map f t)

(** val fold_left : ('a1 -> 'a2 -> 'a1) -> 'a2 list -> 'a1 -> 'a1 **)

let rec fold_left f l a0 =
  match l with
  | [] -> a0
  | b :: t -> fold_left f t (f a0 b)

(** val fold_right : ('a2 -> 'a1 -> 'a1) -> 'a1 -> 'a2 list -> 'a1 **)

let rec fold_right f a0 = function
| [] -> a0
| b :: t -> f b (fold_right f a0 t)

(** val existsb : ('a1 -> bool) -> 'a1 list -> bool **)

let rec existsb f = function
| [] -> false
| a :: l0 -> (||) (f a) (existsb f l0)

(** val forallb : ('a1 -> bool) -> 'a1 list -> bool **)

let rec forallb f = function
| [] -> true
| a :: l0 -> (&&) (f a) (forallb f l0)

(** val filter : ('a1 -> bool) -> 'a1 list -> 'a1 list **)

let rec filter f = function
| [] -> []
| x :: l0 -> if f x then x :: (filter f l0) else filter f l0

(** val nodup : ('a1 -> 'a1 -> bool) -> 'a1 list -> 'a1 list **)

let rec nodup decA = function
| [] -> []
| x :: xs -> if in_dec decA x xs then nodup decA xs else x :: (nodup decA xs)

(** val list_sum : nat list -> nat **)

let list_sum l =
  fold_right add O l

type positive =
| XI of positive
| XO of positive
| XH

type n =
| N0
| Npos of positive

module Pos =
 struct
  (** val eqb : positive -> positive -> bool **)

  let rec eqb p q =
    match p with
    | XI p0 -> (match q with
                | XI q0 -> eqb p0 q0
                | _ -> false)
    | XO p0 -> (match q with
                | XO q0 -> eqb p0 q0
                | _ -> false)
    | XH -> (match q with
             | XH -> true
             | _ -> false)

  (** val eq_dec : positive -> positive -> bool **)

  let rec eq_dec p x0 =
    match p with
    | XI p0 -> (match x0 with
                | XI p1 -> eq_dec p0 p1
                | _ -> false)
    | XO p0 -> (match x0 with
                | XO p1 -> eq_dec p0 p1
                | _ -> false)
    | XH -> (match x0 with
             | XH -> true
             | _ -> false)
 end

module N =
 struct
  (** val eqb : n -> n -> bool **)

  let eqb n0 m =
    match n0 with
    | N0 -> (match m with
             | N0 -> true
             | Npos _ -> false)
    | Npos p -> (match m with
                 | N0 -> false
                 | Npos q -> Pos.eqb p q)

  (** val eq_dec : n -> n -> bool **)

  let eq_dec n0 m =
    match n0 with
    | N0 -> (match m with
             | N0 -> true
             | Npos _ -> false)
    | Npos p -> (match m with
                 | N0 -> false
                 | Npos p0 -> Pos.eq_dec p p0)
 end

type rule = { sym : n; ch : n list; par : n }

type ta = { rules : rule list; finals : n list }

(** val memN : n -> n list -> bool **)

let memN x l =
  existsb (N.eqb x) l

(** val matches : n list -> n list list -> bool **)

let rec matches qs css =
  match qs with
  | [] -> (match css with
           | [] -> true
           | _ :: _ -> false)
  | q :: qs' ->
    (match css with
     | [] -> false
     | cs :: css' -> (&&) (memN q cs) (matches qs' css'))

(** val add1 : ('a1 -> 'a1 -> bool) -> 'a1 list -> 'a1 -> 'a1 list **)

let add1 eq_dec0 acc x =
  if in_dec eq_dec0 x acc then acc else x :: acc

(** val add_new : ('a1 -> 'a1 -> bool) -> 'a1 list -> 'a1 list -> 'a1 list **)

let add_new eq_dec0 s news =
  fold_left (add1 eq_dec0) news s

(** val saturate :
    ('a1 -> 'a1 -> bool) -> ('a1 list -> 'a1 list) -> nat -> 'a1 list -> 'a1
    list **)

let rec saturate eq_dec0 step fuel s =
  match fuel with
  | O -> s
  | S f ->
    let s' = add_new eq_dec0 s (step s) in
    if Nat.eqb (length s') (length s) then s else saturate eq_dec0 step f s'

(** val saturate2b :
    ('a1 -> 'a1 -> bool) -> ('a1 list -> 'a1 list) -> nat -> 'a1 list -> 'a1
    list * bool **)

let rec saturate2b eq_dec0 step k s =
  match k with
  | O ->
    let s' = add_new eq_dec0 s (step s) in
    if Nat.eqb (length s') (length s) then (s, true) else (s', false)
  | S k' ->
    let (s1, b1) = saturate2b eq_dec0 step k' s in
    if b1 then (s1, true) else saturate2b eq_dec0 step k' s1

(** val saturate2 :
    ('a1 -> 'a1 -> bool) -> ('a1 list -> 'a1 list) -> nat -> 'a1 list -> 'a1
    list **)

let saturate2 eq_dec0 step k s =
  fst (saturate2b eq_dec0 step k s)

(** val states : ta -> n list **)

let states a =
  app (flat_map (fun r -> r.par :: r.ch) a.rules) a.finals

(** val prod_step : ta -> n list -> n list **)

let prod_step a s =
  flat_map (fun r ->
    if forallb (fun c -> memN c s) r.ch then r.par :: [] else []) a.rules

(** val productive : ta -> n list **)

let productive a =
  saturate N.eq_dec (prod_step a) (S (length (states a))) []

(** val is_empty : ta -> bool **)

let is_empty a =
  negb (existsb (fun q -> memN q (productive a)) a.finals)

(** val qB : ta -> n list **)

let qB b =
  nodup N.eq_dec (states b)

(** val fires : ta -> n -> n list list -> n -> bool **)

let fires b f ss p =
  existsb (fun r ->
    (&&) ((&&) (N.eqb r.sym f) (matches r.ch ss)) (N.eqb r.par p)) b.rules

(** val postB : ta -> n -> n list list -> n list **)

let postB b f ss =
  filter (fires b f ss) (qB b)

type mp = n * n list

(** val mp_eq_dec : mp -> mp -> bool **)

let mp_eq_dec x y =
  let (a, b) = x in
  let (a0, b0) = y in
  if N.eq_dec a a0 then list_eq_dec N.eq_dec b b0 else false

(** val lookup : mp list -> n -> n list list **)

let lookup r q =
  map snd (filter (fun p -> N.eqb (fst p) q) r)

(** val choices : mp list -> n list -> n list list list **)

let rec choices r = function
| [] -> [] :: []
| q :: qs' ->
  flat_map (fun s -> map (fun x -> s :: x) (choices r qs')) (lookup r q)

(** val mstep : ta -> ta -> mp list -> mp list **)

let mstep a b r =
  flat_map (fun r0 ->
    map (fun ss -> (r0.par, (postB b r0.sym ss))) (choices r r0.ch)) a.rules

(** val macro_reach : ta -> ta -> mp list **)

let macro_reach a b =
  saturate2 mp_eq_dec (mstep a b) (add (length (states a)) (length (qB b))) []

(** val incl_dec : ta -> ta -> bool **)

let incl_dec a b =
  forallb (fun p ->
    implb (memN (fst p) a.finals) (existsb (fun q -> memN q b.finals) (snd p)))
    (macro_reach a b)

(** val td_step : ta -> n list -> n list **)

let td_step a s =
  app a.finals (flat_map (fun r -> if memN r.par s then r.ch else []) a.rules)

(** val td_reach : ta -> n list **)

let td_reach a =
  saturate N.eq_dec (td_step a) (S (length (states a))) []

(** val owners : ta -> n list **)

let owners a =
  nodup N.eq_dec (map (fun r -> r.par) a.rules)

(** val restrict_par : n list -> ta -> ta **)

let restrict_par r a =
  { rules = (filter (fun r0 -> memN r0.par r) a.rules); finals = a.finals }

(** val shortcut : n list -> ta -> bool **)

let shortcut r a =
  Nat.eqb (length (filter (fun q -> memN q (owners a)) r)) (length (owners a))

(** val shortcut_old : n list -> ta -> bool **)

let shortcut_old r a =
  Nat.eqb (length r) (length (owners a))

(** val remove_unreachable_with : (n list -> ta -> bool) -> ta -> ta **)

let remove_unreachable_with sc a =
  let r = td_reach a in if sc r a then a else restrict_par r a

(** val remove_unreachable : ta -> ta **)

let remove_unreachable =
  remove_unreachable_with shortcut

(** val remove_unreachable_old : ta -> ta **)

let remove_unreachable_old =
  remove_unreachable_with shortcut_old

(** val rule_productive : n list -> rule -> bool **)

let rule_productive p r =
  forallb (fun c -> memN c p) r.ch

(** val nonnull : rule -> bool **)

let nonnull r =
  match r.ch with
  | [] -> false
  | _ :: _ -> true

(** val remaining : ta -> n list -> nat **)

let remaining a p =
  sub
    (list_sum
      (map (fun r -> length (nodup N.eq_dec r.ch)) (filter nonnull a.rules)))
    (length (filter (rule_productive p) (filter nonnull a.rules)))

(** val productive_part : ta -> ta **)

let productive_part a =
  let p = productive a in
  { rules =
  (if Nat.eqb (remaining a p) O
   then a.rules
   else filter (rule_productive p) a.rules); finals =
  (filter (fun q -> memN q p) a.finals) }

(** val remove_useless : ta -> ta **)

let remove_useless a =
  remove_unreachable (productive_part a)

(** val is_lang_empty : ta -> bool **)

let is_lang_empty a =
  match (remove_useless a).finals with
  | [] -> true
  | _ :: _ -> false

(** val rule_eqb : rule -> rule -> bool **)

let rule_eqb r s =
  (&&) ((&&) (N.eqb r.sym s.sym) (N.eqb r.par s.par))
    (let rec leq a b =
       match a with
       | [] -> (match b with
                | [] -> true
                | _ :: _ -> false)
       | x :: a' ->
         (match b with
          | [] -> false
          | y :: b' -> (&&) (N.eqb x y) (leq a' b'))
     in leq r.ch s.ch)

(** val memR : rule -> rule list -> bool **)

let memR r l =
  existsb (rule_eqb r) l

(** val subR : rule list -> rule list -> bool **)

let subR l m =
  forallb (fun r -> memR r m) l

(** val subN : n list -> n list -> bool **)

let subN l m =
  forallb (fun q -> memN q m) l

(** val ta_same : ta -> ta -> bool **)

let ta_same a b =
  (&&)
    ((&&) ((&&) (subR a.rules b.rules) (subR b.rules a.rules))
      (subN a.finals b.finals)) (subN b.finals a.finals)

(** val equiv_dec : ta -> ta -> bool **)

let equiv_dec a b =
  (&&) (incl_dec a b) (incl_dec b a)

(** val no_unreachable : ta -> bool **)

let no_unreachable u =
  subN (states u) (td_reach u)

(** val rule_useful : ta -> rule -> bool **)

let rule_useful l r =
  (&&) (memN r.par (td_reach l)) (rule_productive (productive l) r)

(** val state_useful : ta -> n -> bool **)

let state_useful l q =
  (&&) (memN q (td_reach l)) (memN q (productive l))

(** val no_useless : ta -> bool **)

let no_useless l =
  (&&) (forallb (rule_useful l) l.rules) (forallb (state_useful l) (states l))

(** val gate_unreach : ta -> ta -> bool **)

let gate_unreach a u =
  (&&) (equiv_dec u a) (no_unreachable u)

(** val gate_useless : ta -> ta -> bool **)

let gate_useless a l =
  (&&) (equiv_dec l a) (no_useless l)

(** val gate_empty : ta -> bool -> bool **)

let gate_empty a e =
  eqb e (is_empty a)

(** val dch : rule -> n list **)

let dch r =
  nodup N.eq_dec r.ch

(** val fire : n -> (n list * n list) -> (rule * nat) -> n list * n list **)

let fire q st rc =
  if (&&) ((&&) (memN q (fst rc).ch) (Nat.eqb (snd rc) (S O)))
       (negb (memN (fst rc).par (fst st)))
  then (((fst rc).par :: (fst st)), (app (snd st) ((fst rc).par :: [])))
  else st

(** val dec : n -> (rule * nat) -> rule * nat **)

let dec q rc =
  if memN q (fst rc).ch then ((fst rc), (pred (snd rc))) else rc

type ust = { rcs : (rule * nat) list; marked : n list; todo : n list;
             popped : n list }

(** val urun : nat -> ust -> n list option **)

let rec urun fuel s =
  match fuel with
  | O -> None
  | S f ->
    (match s.todo with
     | [] -> Some s.marked
     | q :: t ->
       let st = fold_left (fire q) s.rcs (s.marked, t) in
       urun f { rcs = (map (dec q) s.rcs); marked = (fst st); todo =
         (snd st); popped = (app s.popped (q :: [])) })

(** val fire0 : (n list * n list) -> rule -> n list * n list **)

let fire0 st r =
  match r.ch with
  | [] ->
    if memN r.par (fst st)
    then st
    else ((r.par :: (fst st)), (app (snd st) (r.par :: [])))
  | _ :: _ -> st

(** val uinit : ta -> ust **)

let uinit a =
  let st = fold_left fire0 a.rules ([], []) in
  { rcs = (map (fun r -> (r, (length (dch r)))) a.rules); marked = (fst st);
  todo = (snd st); popped = [] }

(** val productive_count : ta -> nat -> n list option **)

let productive_count a fuel =
  urun fuel (uinit a)
