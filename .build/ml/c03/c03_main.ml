(* templates: common ta_io *)
(* C03: evaluates the verified gates on (input, implementation output) and compares with the model.
   input line:  trim <T> ||| U <T> L <T> E <0|1> I <T>
   output line: OK | FAIL <which gate> ; followed by drift flags *)
open Ex_c03
open Common_c03
open Ta_io_c03

let () = each_line (fun l ->
  let (c, o) = split_bar l in
  let t = toks_of_line c in expect t "trim"; let a = read_ta t in
  let t = toks_of_line o in
  match peek t with
  | Some "EXC" -> "FAIL exception " ^ o
  | _ ->
    expect t "U"; let u = read_ta t in
    expect t "L"; let l = read_ta t in
    expect t "E"; let e = (num t = 1) in
    expect t "I"; let i = read_ta t in
    let fails = List.concat [
      (if gate_unreach a u then [] else ["unreach"]);
      (if gate_useless a l then [] else ["useless"]);
      (if gate_empty a e then [] else ["empty"]);
      (if ta_same a i then [] else ["operand_changed"]) ] in
    let drift = List.concat [
      (if ta_same u (remove_unreachable a) then [] else ["unreach"]);
      (if ta_same l (remove_useless a) then [] else ["useless"]);
      (if e = is_lang_empty a then [] else ["empty"]) ] in
    (if fails = [] then "OK" else "FAIL " ^ String.concat "," fails)
    ^ (if drift = [] then "" else " DRIFT " ^ String.concat "," drift)
    ^ (if is_empty a then " empty" else " nonempty")
    ^ (if ta_same a (remove_useless a) then "" else " dead"))
