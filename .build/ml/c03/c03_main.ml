(* templates: common ta_io *)
(* C03: evaluates the verified gates on (input, implementation output) and compares with the model.
   input line:  trim <T> ||| U <T> L <T> E <0|1> I <T>
           or:  trimh <T> { mode nf f.. }* ||| U <T> L <T> E e I <T> { V <T> U <T> L <T> E e I <T> }*   (see harness/drv/c03.cc)
   output line: OK | FAIL <which gate> ; followed by drift flags
   Every stage of a history is judged like a single case, on the value V the object shows before the calls (gates prefixed again_);
   history_value = that value is not the one the stage must produce (rules of the object it was derived from, the given final states). *)
open Ex_c03
open Common_c03
open Ta_io_c03

let judge pre a u l e um lm i fails drift =
  let fail g = fails := (pre ^ g) :: !fails and dr g = drift := (pre ^ g) :: !drift in
  if not (gate_unreach a u) then fail "unreach";
  if not (gate_useless a l) then fail "useless";
  if not (gate_unreach a um) then fail "unreach_with_map";
  if not (gate_useless a lm) then fail "useless_with_map";
  if not (gate_empty a e) then fail "empty";
  if not (ta_same a i) then fail "operand_changed";
  if not (ta_same u (remove_unreachable a)) then dr "unreach";
  if not (ta_same l (remove_useless a)) then dr "useless";
  if e <> is_lang_empty a then dr "empty";
  (* (A) the counter algorithm of RemoveUselessStates (work list + one counter per rule): the states it marks = the productive states *)
  (match productive_count a (nat_of_int (4 + 2 * List.length a.rules)) with
   | Some m -> let p = productive a in
               if not (List.for_all (fun x -> List.mem x p) m && List.for_all (fun x -> List.mem x m) p) then dr "count_model"
   | None -> dr "count_model_fuel")

let () = each_line (fun l0 ->
  let (c, o) = split_bar l0 in
  let ct = toks_of_line c in let kind = word ct in let a = read_ta ct in
  let t = toks_of_line o in
  match peek t with
  | Some "EXC" -> "FAIL exception " ^ o
  | _ ->
    let fails = ref [] and drift = ref [] in
    let stage pre a =
      expect t "U"; let u = read_ta t in
      expect t "L"; let l = read_ta t in
      expect t "E"; let e = (num t = 1) in
      expect t "UM"; let um = read_ta t in
      expect t "LM"; let lm = read_ta t in
      expect t "I"; let i = read_ta t in
      judge pre a u l e um lm i fails drift; (u, l) in
    let (u0, l0) = stage "" a in
    let cur = ref a and lu = ref u0 and ll = ref l0 and stages = ref 0 in
    if kind = "trimh" then begin
      while peek ct <> None do
        let mode = num ct in let nf = num ct in let fin = times nf (fun () -> n_of_int (num ct)) in
        let expected = (match mode with
          | 0 | 1 -> { rules = !cur.rules; finals = fin }
          | 2 -> { rules = !lu.rules; finals = fin }
          | 3 -> { rules = !ll.rules; finals = fin }
          | _ -> !ll) in
        expect t "V"; let v = read_ta t in
        if not (ta_same v expected) then fails := "history_value" :: !fails;
        let (u, l) = stage "again_" v in
        cur := v; lu := u; ll := l; incr stages
      done
    end;
    let fails = List.sort_uniq compare !fails and drift = List.sort_uniq compare !drift in
    (if fails = [] then "OK" else "FAIL " ^ String.concat "," fails)
    ^ (if drift = [] then "" else " DRIFT " ^ String.concat "," drift)
    ^ (if is_empty a then " empty" else " nonempty")
    ^ (if ta_same a (remove_useless a) then "" else " dead")
    ^ (if !stages > 0 then Printf.sprintf " history stages=%d" !stages else ""))
