#!/bin/sh
# Offline setup: full .vo build of the Coq development (proofs + extraction), the extracted OCaml
# models, libvata from /repo's working tree (guard ONDRIK_LIBVATA_VERIF on) and all drivers.
set -e
cd "$(dirname "$0")"
python3 - <<'PY'
import sys, os
sys.path.insert(0, "harness")
import core, build, build_ml
core.coq_prepare()
rc, out = core.sh("timeout 3000 make -k -j16", cwd=core.COQ)
print(out[-3000:])
if rc != 0: print("setup: Coq build reported errors (rc=%d)" % rc)
drivers = sorted(f[:-3] for f in os.listdir("harness/drv") if f.endswith(".cc"))
b = build.build("plain", drivers)
print("plain build:", b)
for f in sorted(os.listdir("harness/ml")):
    if f.endswith("_main.ml"):
        print("model", f, build_ml.build(f[:-8]))
sys.exit(0 if (rc == 0 and b) else 1)
PY
