#!/bin/sh
# Offline setup: full .vo build of the Coq development (proofs + extraction), the extracted OCaml
# models, libvata from /repo's working tree (guard ONDRIK_LIBVATA_VERIF on) and the drivers of all claimed checks.
cd "$(dirname "$0")"
python3 - <<'PY'
import sys, os, importlib, json
sys.path.insert(0, "harness"); sys.path.insert(0, "harness/props")
import core, build, build_ml
core.coq_prepare()
rc, out = core.sh("timeout 3000 make -k -j16", cwd=core.COQ)
print(out[-2000:])
if rc != 0: print("setup: Coq build reported errors (rc=%d); each check re-runs make and reports its own files" % rc)
ids = [c["property_id"].lower() for c in json.load(open("MANIFEST.json"))["checks"]]
ok = True
b = build.build("plain", [])
print("libvata (plain):", b)
ok = ok and bool(b)
for pid in ids:
    m = importlib.import_module(pid)
    d = build.build("plain", [m.DRIVER])
    e = build_ml.build(m.MODEL)
    print(pid, "driver:", bool(d), "model:", e)
    ok = ok and bool(d) and bool(e)
sys.exit(0 if ok else 1)
PY
