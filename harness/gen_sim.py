"""Generators for C16 (LTS simulation engine) and C04 (tree-automata simulations).
All randomness comes from the rng passed in."""
import itertools
import gen

# ---------------------------------------------------------------------------------------------
# C16: LTS cases
#   lts  <n> <ne> {s a d}* P <nb> {<k> q1..qk}* R <np> {i j}*
#   ltsd <n> <ne> {s a d}*
# ---------------------------------------------------------------------------------------------
class LtsCase:
    def __init__(self, n, edges, part=None, brel=None):
        self.n = n; self.edges = list(edges)
        self.part = None if part is None else [list(b) for b in part]
        self.brel = None if brel is None else sorted(set(brel))
    def fmt(self):
        out = ["lts" if self.part is not None else "ltsd", str(self.n), str(len(self.edges))]
        for (s, a, d) in self.edges: out += [str(s), str(a), str(d)]
        if self.part is not None:
            out += ["P", str(len(self.part))]
            for b in self.part: out += [str(len(b))] + [str(q) for q in b]
            out += ["R", str(len(self.brel))]
            for (i, j) in self.brel: out += [str(i), str(j)]
        return " ".join(out)

def parse_lts(line):
    t = line.split(); kind = t[0]; n = int(t[1]); ne = int(t[2]); i = 3
    es = []
    for _ in range(ne):
        es.append((int(t[i]), int(t[i + 1]), int(t[i + 2]))); i += 3
    if kind == "ltsd": return LtsCase(n, es)
    assert t[i] == "P"; nb = int(t[i + 1]); i += 2
    part = []
    for _ in range(nb):
        k = int(t[i]); part.append([int(x) for x in t[i + 1:i + 1 + k]]); i += 1 + k
    assert t[i] == "R"; np_ = int(t[i + 1]); i += 2
    brel = []
    for _ in range(np_):
        brel.append((int(t[i]), int(t[i + 1]))); i += 2
    return LtsCase(n, es, part, brel)

def closure(k, pairs):
    """reflexive-transitive closure on 0..k-1"""
    m = [[i == j for j in range(k)] for i in range(k)]
    for (i, j) in pairs: m[i][j] = True
    for x in range(k):
        for i in range(k):
            if m[i][x]:
                for j in range(k):
                    if m[x][j]: m[i][j] = True
    return [(i, j) for i in range(k) for j in range(k) if m[i][j]]

def rand_preorder(rng, k):
    mode = rng.random()
    if mode < 0.15: return closure(k, [])
    if mode < 0.25: return [(i, j) for i in range(k) for j in range(k)]
    if mode < 0.40:
        order = list(range(k)); rng.shuffle(order)          # a linear order
        return closure(k, [(order[i], order[i + 1]) for i in range(k - 1)])
    dens = rng.choice([0.1, 0.2, 0.35, 0.5])
    return closure(k, [(i, j) for i in range(k) for j in range(k) if i != j and rng.random() < dens])

def rand_partition(rng, n, k=None):
    if n == 0: return []
    if k is None: k = rng.randint(1, n)
    k = max(1, min(k, n))
    st = list(range(n)); rng.shuffle(st)
    blocks = [[st[i]] for i in range(k)]
    for q in st[k:]: blocks[rng.randrange(k)].append(q)
    for b in blocks: rng.shuffle(b)
    rng.shuffle(blocks)
    return blocks

def rand_edges(rng, n, nlabels, ne, labels=None, dup=0.15):
    labs = labels if labels is not None else list(range(nlabels))
    es = []
    for _ in range(ne):
        if es and rng.random() < dup: es.append(rng.choice(es))            # parallel edge
        else: es.append((rng.randrange(n), rng.choice(labs), rng.randrange(n)))
    return es

def rand_lts_case(rng, maxn=8, default=False, minn=1, maxlabels=3):
    n = rng.randint(minn, maxn)
    nl = rng.randint(1, maxlabels)
    labels = list(range(nl))
    if rng.random() < 0.1: labels = rng.sample(range(maxlabels + 2), nl)     # label numbers with gaps
    dens = rng.choice([0.3, 0.8, 1.5, 2.5])
    es = rand_edges(rng, n, nl, rng.randint(0, int(dens * n) + 1), labels)
    if rng.random() < 0.3:                                                   # some pure sources / sinks / isolated states
        dead = set(rng.sample(range(n), rng.randint(0, max(0, n // 3))))
        es = [(s, a, d) for (s, a, d) in es if s not in dead]
    if default: return LtsCase(n, es)
    part = rand_partition(rng, n)
    return LtsCase(n, es, part, rand_preorder(rng, len(part)))

def parallel_edges_case(rng):
    """few labels, MANY parallel (duplicated) edges and a coarse initial partition with a small block relation: the engine's per-block counters
    then hold values >= 2 for a single successor and whole counter rows collapse into one entry while blocks are still being split (the
    shortcut paths of the shared, reference-counted counter rows)"""
    n = rng.randint(4, 8)
    nl = 1 if rng.random() < 0.7 else 2
    base = rand_edges(rng, n, nl, rng.randint(n, 2 * n), dup=0.0)
    es = []
    for e in base:
        es.append(e)
        while rng.random() < 0.4: es.append(e)
    rng.shuffle(es)
    if rng.random() < 0.25: return LtsCase(n, es)
    k = rng.randint(2, 3)
    part = rand_partition(rng, n, k)
    rel = [(i, i) for i in range(len(part))]
    if rng.random() < 0.4: rel = rand_preorder(rng, len(part))
    return LtsCase(n, es, part, rel)

def all_partitions(n):
    """all set partitions of 0..n-1 (as lists of blocks)"""
    if n == 0:
        yield []; return
    for p in all_partitions(n - 1):
        for i in range(len(p)):
            yield p[:i] + [p[i] + [n - 1]] + p[i + 1:]
        yield p + [[n - 1]]

def all_preorders(k):
    allp = [(i, j) for i in range(k) for j in range(k) if i != j]
    seen = set()
    for r in range(len(allp) + 1):
        for sub in itertools.combinations(allp, r):
            c = tuple(closure(k, sub))
            if len(c) == k + len(sub) and c not in seen:     # sub was already closed
                seen.add(c); yield list(c)

def enum_lts(n, nlabels):
    alle = [(s, a, d) for s in range(n) for a in range(nlabels) for d in range(n)]
    for mask in range(1 << len(alle)):
        yield [alle[i] for i in range(len(alle)) if mask >> i & 1]

def lts_exhaustive(n, nlabels):
    parts = list(all_partitions(n))
    pre = {k: list(all_preorders(k)) for k in range(1, n + 1)}
    for es in enum_lts(n, nlabels):
        for p in parts:
            for r in pre[len(p)]:
                yield LtsCase(n, es, p, r)

def lts_targeted(rng, count):
    out = []
    for _ in range(count):
        kind = rng.randrange(8)
        if kind == 0:
            # one block, states with different outgoing label sets: initial split and pruning by missing labels
            n = rng.randint(2, 7); nl = rng.randint(2, 3)
            es = []
            for q in range(n):
                for a in range(nl):
                    if rng.random() < 0.5:
                        for _ in range(rng.randint(1, 2)): es.append((q, a, rng.randrange(n)))
            k = rng.choice([1, 1, 2])
            part = rand_partition(rng, n, k)
            out.append(LtsCase(n, es, part, rand_preorder(rng, len(part))))
        elif kind == 1:
            # chains: a difference at the end propagates n steps backwards
            n = rng.randint(3, 8); es = [(i, 0, i + 1) for i in range(n - 1)]
            if rng.random() < 0.5: es.append((n - 1, 0, rng.randrange(n)))
            if rng.random() < 0.5: es.append((rng.randrange(n), 1, rng.randrange(n)))
            rng.shuffle(es)
            part = rand_partition(rng, n, rng.choice([1, 1, 2, 3]))
            out.append(LtsCase(n, es, part, rand_preorder(rng, len(part))))
        elif kind == 2:
            # parallel edges: counters count successors with multiplicity
            n = rng.randint(2, 6); base = rand_edges(rng, n, 2, rng.randint(1, 2 * n), dup=0.0)
            es = []
            for e in base: es += [e] * rng.choice([1, 2, 2, 3])
            rng.shuffle(es)
            part = rand_partition(rng, n)
            out.append(LtsCase(n, es, part, rand_preorder(rng, len(part))))
        elif kind == 3:
            # two copies of one system with one edge removed in the copy: near-simulation
            h = rng.randint(1, 4); n = 2 * h
            base = rand_edges(rng, h, rng.randint(1, 2), rng.randint(1, 3 * h))
            cp = [(s + h, a, d + h) for (s, a, d) in base]
            if cp and rng.random() < 0.7: cp.pop(rng.randrange(len(cp)))
            es = base + cp; rng.shuffle(es)
            mode = rng.randrange(3)
            if mode == 0: part = [list(range(n))]; brel = [(0, 0)]
            elif mode == 1: part = [list(range(h)), list(range(h, n))]; brel = rng.choice([[(0, 0), (1, 1), (0, 1)], [(0, 0), (1, 1), (1, 0)], [(0, 0), (1, 1)], [(0, 0), (1, 1), (0, 1), (1, 0)]])
            else:
                part = rand_partition(rng, n); brel = rand_preorder(rng, len(part))
            out.append(LtsCase(n, es, part, brel))
        elif kind == 4:
            # every state its own block, random preorder: the relation alone carries the information
            n = rng.randint(1, 7); es = rand_edges(rng, n, rng.randint(1, 3), rng.randint(0, 2 * n + 1))
            part = rand_partition(rng, n, n)
            out.append(LtsCase(n, es, part, rand_preorder(rng, n)))
        elif kind == 5:
            # states without any edge, labels with gaps, no edges at all
            n = rng.randint(1, 8); live = rng.sample(range(n), rng.randint(0, min(n, 3)))
            es = [(rng.choice(live), rng.choice([0, 2, 4]), rng.choice(live)) for _ in range(rng.randint(0, 5))] if live else []
            part = rand_partition(rng, n)
            out.append(LtsCase(n, es, part, rand_preorder(rng, len(part))))
        elif kind == 6:
            # dense systems with 8 states: many splits
            n = 8; es = rand_edges(rng, n, rng.randint(1, 3), rng.randint(12, 30))
            part = rand_partition(rng, n, rng.randint(1, 4))
            out.append(LtsCase(n, es, part, rand_preorder(rng, len(part))))
        else:
            # cycles of different lengths and a tree hanging off: bisimilar but unequal states
            n = rng.randint(2, 8); c = rng.randint(1, n)
            es = [(i, 0, (i + 1) % c) for i in range(c)] + [(i, 0, rng.randrange(i)) for i in range(c, n)]
            if rng.random() < 0.5: es.append((rng.randrange(n), rng.randint(0, 1), rng.randrange(n)))
            rng.shuffle(es)
            part = rand_partition(rng, n, rng.choice([1, 2]))
            out.append(LtsCase(n, es, part, rand_preorder(rng, len(part))))
    return out

def shrink_lts(line):
    c = parse_lts(line)
    # drop an edge
    for i in range(len(c.edges)):
        yield LtsCase(c.n, c.edges[:i] + c.edges[i + 1:], c.part, c.brel).fmt()
    # drop the highest state when it has no edges
    n = c.n
    if n > 1 and all(s != n - 1 and d != n - 1 for (s, a, d) in c.edges):
        if c.part is None:
            yield LtsCase(n - 1, c.edges).fmt()
        else:
            bi = [i for i, b in enumerate(c.part) if n - 1 in b][0]
            if len(c.part[bi]) > 1:
                part = [[q for q in b if q != n - 1] for b in c.part]
                yield LtsCase(n - 1, c.edges, part, c.brel).fmt()
            else:
                ren = {i: (i if i < bi else i - 1) for i in range(len(c.part)) if i != bi}
                part = [b for i, b in enumerate(c.part) if i != bi]
                brel = [(ren[i], ren[j]) for (i, j) in c.brel if i != bi and j != bi]
                yield LtsCase(n - 1, c.edges, part, brel).fmt()
    # swap two state numbers is not a simplification; merge two blocks that are related both ways
    if c.part is not None:
        k = len(c.part)
        for i in range(k):
            for j in range(i + 1, k):
                if (i, j) in c.brel and (j, i) in c.brel:
                    ren = {x: (x if x < j else x - 1) for x in range(k)}; ren[j] = i
                    part = [list(b) for b in c.part]; part[i] = part[i] + part[j]; part.pop(j)
                    brel = sorted(set((ren[a], ren[b]) for (a, b) in c.brel))
                    yield LtsCase(n, c.edges, part, brel).fmt()
        # remove one non-reflexive pair when the rest is still transitive
        for p in c.brel:
            if p[0] != p[1]:
                rest = [x for x in c.brel if x != p]
                if sorted(closure(k, rest)) == sorted(rest):
                    yield LtsCase(n, c.edges, c.part, rest).fmt()
    # relabel: collapse the highest label onto label 0
    labs = sorted(set(a for (_, a, _) in c.edges))
    if len(labs) > 1:
        yield LtsCase(n, [(s, (labs[0] if a == labs[-1] else a), d) for (s, a, d) in c.edges], c.part, c.brel).fmt()

# ---------------------------------------------------------------------------------------------
# C04: tree automata
# ---------------------------------------------------------------------------------------------
def trim(a):
    """remove useless states/rules (productive and top-down reachable), as RemoveUselessStates must"""
    prod = set(); changed = True
    while changed:
        changed = False
        for (f, p, cs) in a.rules:
            if p not in prod and all(c in prod for c in cs):
                prod.add(p); changed = True
    rules = [(f, p, cs) for (f, p, cs) in a.rules if p in prod and all(c in prod for c in cs)]
    fin = [q for q in a.finals if q in prod]
    reach = set(fin); changed = True
    while changed:
        changed = False
        for (f, p, cs) in rules:
            if p in reach:
                for c in cs:
                    if c not in reach: reach.add(c); changed = True
    rules = [r for r in rules if r[1] in reach]
    out = gen.TA(sorted(set(fin)), [])
    seen = set()
    for r in rules:
        if r not in seen: seen.add(r); out.rules.append(r)
    return out

def densify(a):
    """rename the occurring states to 0..n-1 keeping their order; returns (automaton, n)"""
    st = sorted(a.states())
    h = {q: i for i, q in enumerate(st)}
    return a.rename(h), len(st)

def variant(rng, a, n):
    """random dense renumbering + random insertion order; returns (perm list, automaton)"""
    p = list(range(n)); rng.shuffle(p)
    b = a.rename({q: p[q] for q in range(n)})
    rng.shuffle(b.rules); rng.shuffle(b.finals)
    return p, b

def sim_case(rng, direction, a, n, nvar=3, identity_first=True):
    """sim <dir> <n> <nv> { H p0..p(n-1) <T> }*   first variant = the automaton itself"""
    out = ["sim", direction, str(n), str(nvar + 1)]
    out += ["H"] + [str(i) for i in range(n)] + [a.fmt()]
    for _ in range(nvar):
        p, b = variant(rng, a, n)
        out += ["H"] + [str(x) for x in p] + [b.fmt()]
    return " ".join(out)

def parse_sim(line):
    t = line.split(); assert t[0] == "sim"
    d = t[1]; n = int(t[2]); nv = int(t[3]); i = 4
    vs = []
    for _ in range(nv):
        assert t[i] == "H"; p = [int(x) for x in t[i + 1:i + 1 + n]]; i += 1 + n
        a, i = gen.parse_ta(t, i)
        vs.append((p, a))
    return d, n, vs

def fmt_sim(d, n, vs):
    out = ["sim", d, str(n), str(len(vs))]
    for (p, a) in vs: out += ["H"] + [str(x) for x in p] + [a.fmt()]
    return " ".join(out)
