#!/usr/bin/env python3
"""Regenerate MANIFEST.json from the property modules in harness/props/ (one module = one claimed check)."""
import importlib, json, os, sys
ROOT = os.path.dirname(os.path.dirname(os.path.abspath(__file__)))
sys.path.insert(0, os.path.join(ROOT, "harness")); sys.path.insert(0, os.path.join(ROOT, "harness", "props"))
NA_REASONS = json.load(open(os.path.join(ROOT, "harness", "not_applicable.json")))
ids = [json.loads(l)["id"] for l in open(os.path.join(ROOT, "properties.jsonl")) if l.strip()]
checks, na = [], []
for pid in ids:
    m = importlib.import_module(pid.lower()) if os.path.exists(os.path.join(ROOT, "harness", "props", pid.lower() + ".py")) else None
    if m is not None and getattr(m, "READY", False):
        checks.append({
            "property_id": pid,
            "quick_cmd": "./check %s --tier quick" % pid,
            "thorough_cmd": "./check %s --tier thorough" % pid,
            "evidence_file": "/verif/evidence/%s.json" % pid,
            "replay_cmd_template": "./check %s --replay {path}" % pid,
            "engine": "coq-correspondence",
            "level_claimed": {"category": m.LEVEL, "text": m.LEVEL_TEXT, "design_ref": m.DESIGN_REF},
            "level_note": m.LEVEL_NOTE,
            "technique": m.TECHNIQUE,
        })
    else:
        na.append({"property_id": pid, "reason": NA_REASONS.get(pid, "check not built yet in this round (the technique applies; see DESIGN.md section 9 for the plan)")})
man = {
    "version": 1,
    "setup_cmd": "./setup.sh",
    "hooks": {
        "guard": "ONDRIK_LIBVATA_VERIF",
        "enable": "harness/build.py compiles /repo/src from the working tree into /verif/.build/<flavour> with -DONDRIK_LIBVATA_VERIF -DNDEBUG (out of tree, incremental)",
        "baseline_off_cmd": "/verif/harness/baseline.sh",
        "source_commits": json.load(open(os.path.join(ROOT, "harness", "hook_commits.json"))),
        "add_only": True,
    },
    "engines": [{"name": "coq-correspondence", "path": "/verif/check", "serves_properties": [c["property_id"] for c in checks],
                 "kind_free_text": "Coq 8.16 theorems about executable models and gate deciders (coq/), extracted to OCaml (ExtrOcamlBasic only), "
                                   "run against libvata rebuilt from /repo on generated cases; harness/core.py orchestrates build, generation, judging, shrinking, evidence"}],
    "checks": checks,
    "not_applicable": na,
    "notes": "See DESIGN.md. known_findings/<ID>.json list genuine defects (fixed ones suppress nothing).",
}
json.dump(man, open(os.path.join(ROOT, "MANIFEST.json"), "w"), indent=1)
print("MANIFEST.json: %d checks, %d not claimed" % (len(checks), len(na)))
