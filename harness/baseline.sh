#!/bin/sh
# Rebuild /repo/_build with the guard OFF and run the unit-test suite per test case.
# Prints "passed=<n> failed=<m>" and the failed case names; exit 0 iff the stable baseline (43 cases) passes.
set -e
cmake --build /repo/_build >/dev/null 2>&1 || { echo "build failed"; exit 2; }
cd /repo/_build/unit_tests
pass=0; failed=""
for t in ondriks_mtbdd_c_test timbuk_parser_test bdd_bu_tree_aut_test bdd_td_tree_aut_test explicit_tree_aut_test; do
  for c in $(./$t --list_content 2>&1 | sed -n 's/^ \+\([A-Za-z0-9_]*\)\*\?$/\1/p'); do
    if (cd /repo/_build/unit_tests; timeout 900 /repo/_build/unit_tests/$t --run_test="*/$c" >/dev/null 2>&1); then pass=$((pass+1)); else failed="$failed $c"; fi
  done
done
echo "passed=$pass failed:$failed"
for f in $failed; do
  case "$f" in aut_down_inclusion_opt_rec_nosim|aut_down_inclusion_rec_nosim) ;; *) echo "UNEXPECTED FAILURE $f"; exit 1;; esac
done
[ "$pass" -ge 43 ]
