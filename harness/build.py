#!/usr/bin/env python3
"""Build libvata from /repo's current working tree (out of tree, incremental) and the drivers.

usage: build.py <flavour> [driver ...]      flavour: plain | asan
Objects go to /verif/.build/<flavour>/; a lock file serialises concurrent builds."""
import os, re, subprocess, sys, fcntl, hashlib, json, glob

REPO = os.environ.get("VERIF_REPO", "/repo")
ROOT = os.path.dirname(os.path.dirname(os.path.abspath(__file__)))
GUARD = "ONDRIK_LIBVATA_VERIF"

FLAGS = {
    "plain": "-std=c++11 -O1 -DNDEBUG -D%s -fPIC -fno-strict-aliasing -w" % GUARD,
    "asan": "-std=c++11 -O1 -g -DNDEBUG -D%s -fPIC -fno-strict-aliasing -w "
            "-fsanitize=address,undefined -fno-sanitize-recover=all -fno-omit-frame-pointer" % GUARD,
}

def source_list():
    txt = open(os.path.join(REPO, "src", "CMakeLists.txt")).read()
    m = re.search(r"add_library\(libvata\s+STATIC(.*?)\)", txt, re.S)
    if not m:
        raise SystemExit("build.py: cannot find the libvata source list in src/CMakeLists.txt")
    return [w for w in m.group(1).split() if w.endswith(".cc")]

def invalidate_by_content(bdir):
    """make decides by mtime; a file restored with an old mtime (rsync -a, cp -p, tar) after an object was compiled from another
    version of it would leave that object stale. So the content hash of every source/header of the repository and of the drivers is
    recorded per build directory, and every object whose dependency list (.d) names a file whose content changed since the
    previous build of this directory is deleted, whichever target is asked for now."""
    cur = {}
    for base, key in ((os.path.join(REPO, "include"), "R/include"), (os.path.join(REPO, "src"), "R/src"), (os.path.join(ROOT, "harness", "drv"), "D")):
        for dp, dn, fn in os.walk(base):
            for f in fn:
                fp = os.path.join(dp, f)
                try: cur[key + fp[len(base):]] = hashlib.sha1(open(fp, "rb").read()).hexdigest()
                except OSError: pass
    sp = os.path.join(bdir, "srcstate.json")
    try: old = json.load(open(sp))
    except Exception: old = None
    if old is None:
        if glob.glob(os.path.join(bdir, "*.o")):                 # objects of unknown provenance: start over
            for f in glob.glob(os.path.join(bdir, "*.o")) + glob.glob(os.path.join(bdir, "*.d")): os.remove(f)
    else:
        changed = set(k for k in set(cur) | set(old) if cur.get(k) != old.get(k))
        if changed:
            def keyof(path):
                path = os.path.normpath(path)
                for base, key in ((os.path.join(REPO, "include"), "R/include"), (os.path.join(REPO, "src"), "R/src"), (os.path.join(ROOT, "harness", "drv"), "D")):
                    if path.startswith(base + "/"): return key + path[len(base):]
                return None
            for d in glob.glob(os.path.join(bdir, "*.d")):
                deps = open(d).read().replace("\\\n", " ").split()
                stale = False
                for w in deps:
                    w = w.rstrip(":")
                    if not w.startswith("/"): continue
                    k = keyof(w)
                    if k is not None:
                        if k in changed: stale = True; break
                    elif ("/include/vata/" in w or "/src/" in w) and not os.path.exists(w): stale = True; break     # built from another checkout
                if stale:
                    for f in (d[:-2] + ".o", d): 
                        if os.path.exists(f): os.remove(f)
    json.dump(cur, open(sp, "w"))

def build(flavour, drivers):
    tag = os.environ.get("VERIF_BUILD_TAG", "")
    bdir = os.path.join(ROOT, ".build", flavour + ("-" + tag if tag else ""))
    os.makedirs(bdir, exist_ok=True)
    srcs = source_list()
    objs = [s[:-3] + ".o" for s in srcs]
    inc = "-I%s/include -I%s/src -I%s/harness/drv" % (REPO, REPO, ROOT)
    mk = ["CXX=g++", "FLAGS=%s %s" % (FLAGS[flavour], inc), "all: libvata.a", ""]
    for s, o in zip(srcs, objs):
        mk.append("%s: %s/src/%s\n\t$(CXX) $(FLAGS) -MMD -MP -c $< -o $@" % (o, REPO, s))
    mk.append("libvata.a: %s\n\trm -f $@ && ar rcs $@ $^" % " ".join(objs))
    ddir = os.path.join(ROOT, "harness", "drv")
    for d in sorted(f[:-3] for f in os.listdir(ddir) if f.endswith(".cc")):
        mk.append("d_%s.o: %s/%s.cc\n\t$(CXX) $(FLAGS) -MMD -MP -c $< -o $@" % (d, ddir, d))
        mk.append("d_%s: d_%s.o libvata.a\n\t$(CXX) $(FLAGS) -o $@ d_%s.o libvata.a" % (d, d, d))
    mk.append("-include $(wildcard *.d)")
    with open(os.path.join(bdir, "lock"), "w") as lock:
        fcntl.flock(lock, fcntl.LOCK_EX)
        mkpath = os.path.join(bdir, "Makefile")
        new = "\n".join(mk) + "\n"
        if not os.path.exists(mkpath) or open(mkpath).read() != new:
            open(mkpath, "w").write(new)
        invalidate_by_content(bdir)
        targets = ["libvata.a"] + ["d_" + d for d in drivers]
        r = subprocess.run(["make", "-j16", "-f", "Makefile"] + targets, cwd=bdir,
                           stdout=subprocess.PIPE, stderr=subprocess.STDOUT, text=True)
        if r.returncode != 0:
            sys.stdout.write(r.stdout[-6000:])
            return None
    return bdir

if __name__ == "__main__":
    fl = sys.argv[1] if len(sys.argv) > 1 else "plain"
    b = build(fl, sys.argv[2:])
    if b is None:
        sys.exit(2)
    print(b)
