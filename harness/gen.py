"""Generators shared by the property modules: tree automata / NFAs in the numeric case format,
bounded-exhaustive enumerations, targeted families, generic shrinking of case lines.

tree automaton   T <nf> f1..fnf <nr> { <sym> <par> <k> c1..ck }*
word automaton   W <ns> s1.. <nf> f1.. <ne> { <src> <sym> <dst> }*
Every random choice goes through the rng passed in (derived from VERIF_SEED)."""
import itertools

# default ranked alphabet: symbol code -> arity
SIGMA = [(0, 0), (1, 0), (2, 1), (3, 2)]
SIGMA3 = [(0, 0), (1, 0), (2, 1), (3, 2), (4, 3)]

class TA:
    __slots__ = ("finals", "rules")
    def __init__(self, finals=(), rules=()):
        self.finals = list(finals)            # list of states
        self.rules = list(rules)              # list of (sym, par, (children...))
    def copy(self): return TA(self.finals, self.rules)
    def states(self):
        s = set(self.finals)
        for (f, p, cs) in self.rules:
            s.add(p); s.update(cs)
        return s
    def fmt(self):
        out = ["T", str(len(self.finals))] + [str(f) for f in self.finals] + [str(len(self.rules))]
        for (f, p, cs) in self.rules:
            out += [str(f), str(p), str(len(cs))] + [str(c) for c in cs]
        return " ".join(out)
    def key(self):
        return (tuple(sorted(set(self.finals))), tuple(sorted(set(self.rules))))
    def rename(self, h):
        return TA([h[f] for f in self.finals], [(f, h[p], tuple(h[c] for c in cs)) for (f, p, cs) in self.rules])

def parse_ta(toks, i):
    assert toks[i] == "T", toks[i:i + 3]
    i += 1
    nf = int(toks[i]); i += 1
    fin = [int(x) for x in toks[i:i + nf]]; i += nf
    nr = int(toks[i]); i += 1
    rules = []
    for _ in range(nr):
        f, p, k = int(toks[i]), int(toks[i + 1]), int(toks[i + 2]); i += 3
        rules.append((f, p, tuple(int(x) for x in toks[i:i + k]))); i += k
    return TA(fin, rules), i

def rand_ta(rng, nstates, nrules, sigma=SIGMA, pfinal=0.4, leafbias=0.35, states=None):
    """random automaton over `sigma`; states drawn from `states` (default 0..nstates-1)"""
    st = list(states) if states is not None else list(range(nstates))
    if not st: return TA()
    leaves = [s for s in sigma if s[1] == 0]
    inner = [s for s in sigma if s[1] > 0]
    rules = []
    for _ in range(nrules):
        if (rng.random() < leafbias and leaves) or not inner:
            f, k = rng.choice(leaves)
        else:
            f, k = rng.choice(inner)
        rules.append((f, rng.choice(st), tuple(rng.choice(st) for _ in range(k))))
    fin = [s for s in st if rng.random() < pfinal]
    return TA(fin, rules)

def rand_ta_sized(rng, maxs=4, maxr=8, sigma=SIGMA, **kw):
    n = rng.randint(1, maxs)
    return rand_ta(rng, n, rng.randint(0, maxr), sigma, **kw)

def all_rules(nstates, sigma):
    st = range(nstates)
    out = []
    for (f, k) in sigma:
        for p in st:
            for cs in itertools.product(st, repeat=k):
                out.append((f, p, tuple(cs)))
    return out

def enum_ta(nstates, maxrules, sigma=SIGMA, minrules=0):
    """all automata with states 0..nstates-1, between minrules and maxrules rules, any final set"""
    ar = all_rules(nstates, sigma)
    for k in range(minrules, maxrules + 1):
        for rs in itertools.combinations(ar, k):
            for fm in range(1 << nstates):
                yield TA([q for q in range(nstates) if fm >> q & 1], rs)

def quotient_pair(rng, maxs=4, maxr=8, sigma=SIGMA):
    """B random, A := image of B under a random merging map: L(B) <= L(A); A <= B fails when B correlates subtrees"""
    b = rand_ta_sized(rng, maxs, maxr, sigma)
    st = sorted(b.states()) or [0]
    k = rng.randint(1, max(1, len(st) - 1))
    h = {q: rng.randrange(k) for q in st}
    return b.rename(h), b

def near_miss_pair(rng, maxs=4, maxr=8, sigma=SIGMA):
    a = rand_ta_sized(rng, maxs, maxr, sigma)
    b = a.copy()
    if b.rules and rng.random() < 0.6:
        b.rules.pop(rng.randrange(len(b.rules)))
    elif b.finals:
        b.finals.pop(rng.randrange(len(b.finals)))
    return (a, b) if rng.random() < 0.7 else (b, a)

SIGMA_U = [(0, 0), (1, 0), (2, 1), (3, 2), (5, 1), (6, 1)]     # unary-rich: a/0 b/0 g/1 f/2 u/1 v/1

def split_pair(rng, maxs=4, maxr=9, sigma=SIGMA_U, keep=0.55):
    """A random (cycles likely: unary-rich alphabet); B := A with every state split into two copies and every rule distributed at random over
    the copies. L(B) <= L(A); A <= B holds or fails depending on which combinations survive, and deciding it needs unions of copies
    (no single rule of B covers a rule of A pointwise) under cyclic sub-goals: the shape the downward checkers' caches are sensitive to."""
    a = rand_ta(rng, rng.randint(2, maxs), rng.randint(4, maxr), sigma=sigma, pfinal=0.4, leafbias=0.2)
    rules = []
    for (f, p, cs) in a.rules:
        combos = list(itertools.product((0, 1), repeat=len(cs) + 1))
        chosen = [c for c in combos if rng.random() < keep] or [rng.choice(combos)]
        for c in chosen:
            rules.append((f, 2 * p + c[0], tuple(2 * x + ci for x, ci in zip(cs, c[1:]))))
    fin = []
    for q in a.finals:
        fin += [2 * q + i for i in (0, 1) if rng.random() < 0.8] or [2 * q]
    return a, TA(fin, rules)

def permute_states(rng, a, extra=0, sparse=False):
    st = sorted(a.states())
    if sparse:
        tgt = rng.sample(range(0, 3 * len(st) + 5 + extra), len(st))
    else:
        tgt = list(range(len(st))); rng.shuffle(tgt)
    h = dict(zip(st, tgt))
    r = a.rename(h)
    rng.shuffle(r.rules); rng.shuffle(r.finals)
    return r, h

# ---------------------------------------------------------------------------------------------
# word automata
# ---------------------------------------------------------------------------------------------
class NFA:
    __slots__ = ("starts", "finals", "edges")
    def __init__(self, starts=(), finals=(), edges=()):
        self.starts = list(starts); self.finals = list(finals); self.edges = list(edges)   # (src, sym, dst)
    def copy(self): return NFA(self.starts, self.finals, self.edges)
    def states(self):
        s = set(self.starts) | set(self.finals)
        for (p, a, q) in self.edges: s.add(p); s.add(q)
        return s
    def fmt(self):
        out = ["W", str(len(self.starts))] + [str(x) for x in self.starts] + [str(len(self.finals))] + [str(x) for x in self.finals]
        out.append(str(len(self.edges)))
        for (p, a, q) in self.edges: out += [str(p), str(a), str(q)]
        return " ".join(out)
    def key(self):
        return (tuple(sorted(set(self.starts))), tuple(sorted(set(self.finals))), tuple(sorted(set(self.edges))))
    def rename(self, h):
        return NFA([h[s] for s in self.starts], [h[f] for f in self.finals], [(h[p], a, h[q]) for (p, a, q) in self.edges])

def parse_nfa(toks, i):
    assert toks[i] == "W", toks[i:i + 3]
    i += 1
    ns = int(toks[i]); i += 1
    st = [int(x) for x in toks[i:i + ns]]; i += ns
    nf = int(toks[i]); i += 1
    fi = [int(x) for x in toks[i:i + nf]]; i += nf
    ne = int(toks[i]); i += 1
    ed = []
    for _ in range(ne):
        ed.append((int(toks[i]), int(toks[i + 1]), int(toks[i + 2]))); i += 3
    return NFA(st, fi, ed), i

def rand_nfa(rng, nstates, nedges, nsyms=2, pstart=0.35, pfinal=0.35, states=None):
    st = list(states) if states is not None else list(range(nstates))
    if not st: return NFA()
    ed = [(rng.choice(st), rng.randrange(nsyms), rng.choice(st)) for _ in range(nedges)]
    s = [q for q in st if rng.random() < pstart]
    f = [q for q in st if rng.random() < pfinal]
    if not s and rng.random() < 0.8: s = [rng.choice(st)]
    return NFA(s, f, ed)

def rand_nfa_sized(rng, maxs=4, maxe=8, nsyms=2, **kw):
    n = rng.randint(1, maxs)
    return rand_nfa(rng, n, rng.randint(0, maxe), nsyms, **kw)

def enum_nfa(nstates, maxedges, nsyms=2):
    st = range(nstates)
    alle = [(p, a, q) for p in st for a in range(nsyms) for q in st]
    for k in range(0, maxedges + 1):
        for es in itertools.combinations(alle, k):
            for sm in range(1 << nstates):
                for fm in range(1 << nstates):
                    yield NFA([q for q in st if sm >> q & 1], [q for q in st if fm >> q & 1], es)

# ---------------------------------------------------------------------------------------------
# generic shrinking of a case line containing automata
# ---------------------------------------------------------------------------------------------
def split_case(line):
    """-> list of items: str tokens, TA or NFA objects"""
    toks = line.split()
    items, i = [], 0
    while i < len(toks):
        if toks[i] == "T":
            a, i = parse_ta(toks, i); items.append(a)
        elif toks[i] == "W":
            a, i = parse_nfa(toks, i); items.append(a)
        else:
            items.append(toks[i]); i += 1
    return items

def join_case(items):
    return " ".join(x if isinstance(x, str) else x.fmt() for x in items)

def shrink_automata(line):
    """candidates: one rule/edge/final/start removed, or two states merged, in one automaton of the line"""
    items = split_case(line)
    for idx, it in enumerate(items):
        if isinstance(it, TA):
            for j in range(len(it.rules)):
                b = it.copy(); b.rules.pop(j)
                yield join_case(items[:idx] + [b] + items[idx + 1:])
            for j in range(len(it.finals)):
                b = it.copy(); b.finals.pop(j)
                yield join_case(items[:idx] + [b] + items[idx + 1:])
            st = sorted(it.states())
            for x in st[1:]:
                h = {q: q for q in st}; h[x] = st[0]
                yield join_case(items[:idx] + [it.rename(h)] + items[idx + 1:])
        elif isinstance(it, NFA):
            for j in range(len(it.edges)):
                b = it.copy(); b.edges.pop(j)
                yield join_case(items[:idx] + [b] + items[idx + 1:])
            for j in range(len(it.finals)):
                b = it.copy(); b.finals.pop(j)
                yield join_case(items[:idx] + [b] + items[idx + 1:])
            for j in range(len(it.starts)):
                b = it.copy(); b.starts.pop(j)
                yield join_case(items[:idx] + [b] + items[idx + 1:])
