"""Generators shared by the property modules: tree automata / NFAs in the numeric case format,
bounded-exhaustive enumerations, targeted families, generic shrinking of case lines.

tree automaton   T <nf> f1..fnf <nr> { <sym> <par> <k> c1..ck }*
word automaton   W <ns> s1.. <nf> f1.. <ne> { <src> <sym> <dst> }*
Every random choice goes through the rng passed in (derived from VERIF_SEED)."""
import itertools

# default ranked alphabet: symbol code -> arity
SIGMA = [(0, 0), (1, 0), (2, 1), (3, 2)]
SIGMA3 = [(0, 0), (1, 0), (2, 1), (3, 2), (4, 3)]

class TA:
    __slots__ = ("finals", "rules")
    def __init__(self, finals=(), rules=()):
        self.finals = list(finals)            # list of states
        self.rules = list(rules)              # list of (sym, par, (children...))
    def copy(self): return TA(self.finals, self.rules)
    def states(self):
        s = set(self.finals)
        for (f, p, cs) in self.rules:
            s.add(p); s.update(cs)
        return s
    def fmt(self):
        out = ["T", str(len(self.finals))] + [str(f) for f in self.finals] + [str(len(self.rules))]
        for (f, p, cs) in self.rules:
            out += [str(f), str(p), str(len(cs))] + [str(c) for c in cs]
        return " ".join(out)
    def key(self):
        return (tuple(sorted(set(self.finals))), tuple(sorted(set(self.rules))))
    def rename(self, h):
        return TA([h[f] for f in self.finals], [(f, h[p], tuple(h[c] for c in cs)) for (f, p, cs) in self.rules])

def parse_ta(toks, i):
    assert toks[i] == "T", toks[i:i + 3]
    i += 1
    nf = int(toks[i]); i += 1
    fin = [int(x) for x in toks[i:i + nf]]; i += nf
    nr = int(toks[i]); i += 1
    rules = []
    for _ in range(nr):
        f, p, k = int(toks[i]), int(toks[i + 1]), int(toks[i + 2]); i += 3
        rules.append((f, p, tuple(int(x) for x in toks[i:i + k]))); i += k
    return TA(fin, rules), i

def rand_ta(rng, nstates, nrules, sigma=SIGMA, pfinal=0.4, leafbias=0.35, states=None):
    """random automaton over `sigma`; states drawn from `states` (default 0..nstates-1)"""
    st = list(states) if states is not None else list(range(nstates))
    if not st: return TA()
    leaves = [s for s in sigma if s[1] == 0]
    inner = [s for s in sigma if s[1] > 0]
    rules = []
    for _ in range(nrules):
        if (rng.random() < leafbias and leaves) or not inner:
            f, k = rng.choice(leaves)
        else:
            f, k = rng.choice(inner)
        rules.append((f, rng.choice(st), tuple(rng.choice(st) for _ in range(k))))
    fin = [s for s in st if rng.random() < pfinal]
    return TA(fin, rules)

def rand_ta_sized(rng, maxs=4, maxr=8, sigma=SIGMA, **kw):
    n = rng.randint(1, maxs)
    return rand_ta(rng, n, rng.randint(0, maxr), sigma, **kw)

def all_rules(nstates, sigma):
    st = range(nstates)
    out = []
    for (f, k) in sigma:
        for p in st:
            for cs in itertools.product(st, repeat=k):
                out.append((f, p, tuple(cs)))
    return out

def enum_ta(nstates, maxrules, sigma=SIGMA, minrules=0):
    """all automata with states 0..nstates-1, between minrules and maxrules rules, any final set"""
    ar = all_rules(nstates, sigma)
    for k in range(minrules, maxrules + 1):
        for rs in itertools.combinations(ar, k):
            for fm in range(1 << nstates):
                yield TA([q for q in range(nstates) if fm >> q & 1], rs)

def quotient_pair(rng, maxs=4, maxr=8, sigma=SIGMA):
    """B random, A := image of B under a random merging map: L(B) <= L(A); A <= B fails when B correlates subtrees"""
    b = rand_ta_sized(rng, maxs, maxr, sigma)
    st = sorted(b.states()) or [0]
    k = rng.randint(1, max(1, len(st) - 1))
    h = {q: rng.randrange(k) for q in st}
    return b.rename(h), b

def near_miss_pair(rng, maxs=4, maxr=8, sigma=SIGMA):
    a = rand_ta_sized(rng, maxs, maxr, sigma)
    b = a.copy()
    if b.rules and rng.random() < 0.6:
        b.rules.pop(rng.randrange(len(b.rules)))
    elif b.finals:
        b.finals.pop(rng.randrange(len(b.finals)))
    return (a, b) if rng.random() < 0.7 else (b, a)

SIGMA_U = [(0, 0), (1, 0), (2, 1), (3, 2), (5, 1), (6, 1)]     # unary-rich: a/0 b/0 g/1 f/2 u/1 v/1

def split_pair(rng, maxs=4, maxr=9, sigma=SIGMA_U, keep=0.55):
    """A random (cycles likely: unary-rich alphabet); B := A with every state split into two copies and every rule distributed at random over
    the copies. L(B) <= L(A); A <= B holds or fails depending on which combinations survive, and deciding it needs unions of copies
    (no single rule of B covers a rule of A pointwise) under cyclic sub-goals: the shape the downward checkers' caches are sensitive to."""
    a = rand_ta(rng, rng.randint(2, maxs), rng.randint(4, maxr), sigma=sigma, pfinal=0.4, leafbias=0.2)
    rules = []
    for (f, p, cs) in a.rules:
        combos = list(itertools.product((0, 1), repeat=len(cs) + 1))
        chosen = [c for c in combos if rng.random() < keep] or [rng.choice(combos)]
        for c in chosen:
            rules.append((f, 2 * p + c[0], tuple(2 * x + ci for x, ci in zip(cs, c[1:]))))
    fin = []
    for q in a.finals:
        fin += [2 * q + i for i in (0, 1) if rng.random() < 0.8] or [2 * q]
    return a, TA(fin, rules)

SIGMA_K = [(0, 0), (1, 0), (7, 0), (2, 1), (3, 2), (5, 2), (6, 2)]     # a/0 b/0 c/0 g/1 f/2 h/2 k/2

def defective_copies_pair(rng, maxs=4, maxr=9, sigma=SIGMA_K, ncopies=None):
    """A random and cyclic; B := 2-3 internally coherent copies of A, each with ONE leaf rule replaced by another leaf symbol (or dropped, or
    intact), whose root rules (rules of A into a final state) survive only for some copies (coherent, occasionally with children from mixed
    copies). L(A) <= L(B) then depends on whether, for every root rule, some surviving combination is free of defects below: the downward
    checkers meet a cyclic hypothesis inside a copy, a defect found late that refutes it, an alternative copy that rescues the rule, and the
    same sub-goal again from another root rule - the shape on which positive answers cached under a hypothesis must not outlive it."""
    n = 3 if rng.random() < 0.6 else rng.randint(3, maxs)
    a = rand_ta(rng, n, rng.randint(5, maxr), sigma=sigma, pfinal=0.0, leafbias=0.3)
    st = sorted(a.states()) or [0]
    root = rng.choice(st)
    a.finals = [root]
    for _ in range(rng.randint(1, 2)):          # make sure there are binary root rules over states with rules
        f = rng.choice([s for s in sigma if s[1] == 2])[0]
        a.rules.append((f, root, (rng.choice(st), rng.choice(st))))
    k = ncopies or (2 if rng.random() < 0.7 else 3)
    leaves_syms = [s[0] for s in sigma if s[1] == 0]
    leafrules = [r for r in a.rules if not r[2]]
    rules = []
    for i in range(k):
        defect = rng.choice(leafrules) if leafrules and rng.random() < 0.75 else None
        mode = rng.random()
        for (f, p, cs) in a.rules:
            if p == root and cs: continue                     # root rules are distributed below
            if (f, p, cs) == defect:
                if mode < 0.7: rules.append((rng.choice([x for x in leaves_syms if x != f] or [f]), p * k + i, ()))
                continue
            rules.append((f, p * k + i, tuple(c * k + i for c in cs)))
    for (f, p, cs) in a.rules:
        if not (p == root and cs): continue
        opts = []
        for i in range(k):
            if rng.random() < 0.6: opts.append((i, tuple(c * k + i for c in cs)))
        if rng.random() < 0.25: opts.append((rng.randrange(k), tuple(c * k + rng.randrange(k) for c in cs)))
        if not opts: opts.append((rng.randrange(k), tuple(c * k + rng.randrange(k) for c in cs)))
        for (i, o) in opts: rules.append((f, root * k + i, o))
    b = TA([root * k + i for i in range(k)], rules)
    return a, b

def coinductive_trap_pair(rng):
    """The shape on which a downward (coinductive) inclusion check must not keep positive answers that were obtained under a hypothesis:
    A has a cycle p -f-> (q, r), q -g-> (p); B consists of 2-3 coherent copies of A of which one is defective below r (another leaf), so
    that (q, {Q}) is answered 'holds' only under the hypothesis (p, {P}), which is refuted afterwards at r; the root rule h(p, t) is
    rescued by an intact copy, and a second root rule k(q, t) asks for (q, {Q}) again, this time decisively. Child positions, symbol codes,
    which copies carry which root rules, the position of the defect, extra rules and the numbering are random; the truth varies."""
    leafs = [0, 1, 7]; rng.shuffle(leafs); la, lc, ld = leafs
    bins = [3, 5, 6]; rng.shuffle(bins); f, h, k = bins
    g = 2
    P, Q, R, T, S = range(5)
    def pos(x, y): return (x, y) if rng.random() < 0.5 else (y, x)
    arules = [(f, P, pos(Q, R)), (g, Q, (P,)), (la, Q, ()), (lc, R, ()), (ld, T, ()), (h, S, pos(P, T)), (k, S, pos(Q, T))]
    for _ in range(rng.choice([0, 0, 1, 2])):
        sy, ar = rng.choice([(la, 0), (lc, 0), (g, 1), (f, 2), (h, 2)])
        arules.append((sy, rng.choice([P, Q, R, T]), tuple(rng.choice([P, Q, R, T]) for _ in range(ar))))
    a = TA([S], arules)
    kc = 2 if rng.random() < 0.7 else 3
    bad = rng.randrange(kc)
    where = R if rng.random() < 0.7 else rng.choice([Q, T, R])
    brules = []
    for i in range(kc):
        for (sy, p, cs) in arules:
            if p == S: continue
            if i == bad and not cs and p == where:
                if rng.random() < 0.8: brules.append((rng.choice([x for x in (la, lc, ld) if x != sy]), p * kc + i, ()))
                continue
            brules.append((sy, p * kc + i, tuple(c * kc + i for c in cs)))
    for (sy, p, cs) in arules:
        if p != S: continue
        first = (sy == h)
        for i in range(kc):
            keep = rng.random() < (0.85 if first else (0.8 if i == bad else 0.35))
            if keep: brules.append((sy, S * kc, tuple(c * kc + i for c in cs)))
    b = TA([S * kc], brules)
    rng.shuffle(a.rules); rng.shuffle(b.rules)
    if rng.random() < 0.5: a, _ = permute_states(rng, a)
    if rng.random() < 0.7: b, _ = permute_states(rng, b)
    return a, b

def sim_prune_pair(rng):
    """upward inclusion WITH a simulation prunes stored pairs by the preorder: A has two states q < qp in strict upward simulation (qp has
    every context of q and one more, k(qp) -> r); (qp, P') is discovered at the leaves and (q, P) with P inside P' later, in the main loop.
    Pruning in the right direction keeps (qp, P') - it is the only pair through which the extra context k is examined. B may or may not
    have a k rule, so the truth varies; numbers, symbol codes, the number of shared contexts and noise are random."""
    codes = rng.sample(range(8, 30), 8)
    la, lb, g, k, n = codes[0], codes[1], codes[2], codes[3], codes[4]
    ctx = codes[5:5 + rng.randint(1, 3)]
    qp, s, q, r = 0, 1, 2, 3
    arules = [(la, qp, ()), (lb, s, ()), (g, q, (s,))] + [(m, r, (q,)) for m in ctx] + [(m, r, (qp,)) for m in ctx] + [(k, r, (qp,))]
    a = TA([r], arules)
    x = [10 + i for i in range(len(ctx))]                 # one state of B per shared context (at least x1; two contexts -> x1, x2 ...)
    if len(x) == 1: x.append(11)
    y, z, w = 20, 21, 22
    brules = [(la, xi, ()) for xi in x] + [(la, y, ()), (lb, z, ())] + [(g, xi, (z,)) for xi in x]
    for i, m in enumerate(ctx): brules.append((m, w, (x[i % len(x)],)))
    brules.append((n, w, (y,)))
    mode = rng.random()
    if mode < 0.35: brules.append((k, w, (y,)))                      # k(a) accepted through y: included
    elif mode < 0.5: brules.append((k, w, (x[0],)))                  # k(a) accepted through x1 (then also k(g(b))): included
    b = TA([w], brules)
    for _ in range(rng.choice([0, 0, 1])):
        a.rules.append((rng.choice(ctx), r, (rng.choice([q, qp]),)))
    rng.shuffle(a.rules); rng.shuffle(b.rules)
    if rng.random() < 0.6: a, _ = permute_states(rng, a)
    if rng.random() < 0.6: b, _ = permute_states(rng, b)
    return a, b

def late_sibling_pair(rng):
    """A: f(c1, c2) -> p (final) where c2 is reached by 2-3 different leaf symbols and c1 sits on top of a unary chain over a leaf that has TWO
    parents in B (its macro-state is larger, so it leaves the worklist late); B gives every leaf of c2 its own state, and f over some of them
    leads to a final state, over the others to a non-final one. The upward checker then meets, in ONE enumeration of the rule f(c1, c2),
    accepting and non-accepting combinations of child macro-states: every combination has to be judged on its own."""
    leafcodes = rng.sample(range(8, 24), 4)
    la, ls = leafcodes[0], leafcodes[1:1 + rng.randint(2, 3)]
    u, f, g = 2, 3, 5
    chain = rng.randint(1, 3)
    swap = rng.random() < 0.5
    # A: states 0..chain = chain, chain+1 = c2, chain+2 = p
    arules = [(la, 0, ())] + [(u, i + 1, (i,)) for i in range(chain)]
    c1, c2, p = chain, chain + 1, chain + 2
    arules += [(x, c2, ()) for x in ls]
    arules.append((f, p, (c2, c1) if swap else (c1, c2)))
    a = TA([p], arules)
    # B: two copies of the chain base (0 and 50), chain states 1..chain, leaf states 60+i, s = 90 final, t = 91
    brules = [(la, 0, ()), (la, 50, ())]
    if chain >= 1: brules += [(u, 1, (0,)), (u, 1, (50,))]
    brules += [(u, i + 1, (i,)) for i in range(1, chain)]
    r1 = chain
    acc = [rng.random() < 0.6 for _ in ls]
    if all(acc) and rng.random() < 0.7: acc[rng.randrange(len(acc))] = False
    for i, x in enumerate(ls):
        brules.append((x, 60 + i, ()))
        brules.append((f, 90 if acc[i] else 91, (60 + i, r1) if swap else (r1, 60 + i)))
    brules.append((g, 90, (91,)))
    b = TA([90], brules)
    rng.shuffle(a.rules); rng.shuffle(b.rules)
    if rng.random() < 0.5: b, _ = permute_states(rng, b)
    return a, b

def permute_states(rng, a, extra=0, sparse=False):
    st = sorted(a.states())
    if sparse:
        tgt = rng.sample(range(0, 3 * len(st) + 5 + extra), len(st))
    else:
        tgt = list(range(len(st))); rng.shuffle(tgt)
    h = dict(zip(st, tgt))
    r = a.rename(h)
    rng.shuffle(r.rules); rng.shuffle(r.finals)
    return r, h

# ---------------------------------------------------------------------------------------------
# word automata
# ---------------------------------------------------------------------------------------------
class NFA:
    __slots__ = ("starts", "finals", "edges")
    def __init__(self, starts=(), finals=(), edges=()):
        self.starts = list(starts); self.finals = list(finals); self.edges = list(edges)   # (src, sym, dst)
    def copy(self): return NFA(self.starts, self.finals, self.edges)
    def states(self):
        s = set(self.starts) | set(self.finals)
        for (p, a, q) in self.edges: s.add(p); s.add(q)
        return s
    def fmt(self):
        out = ["W", str(len(self.starts))] + [str(x) for x in self.starts] + [str(len(self.finals))] + [str(x) for x in self.finals]
        out.append(str(len(self.edges)))
        for (p, a, q) in self.edges: out += [str(p), str(a), str(q)]
        return " ".join(out)
    def key(self):
        return (tuple(sorted(set(self.starts))), tuple(sorted(set(self.finals))), tuple(sorted(set(self.edges))))
    def rename(self, h):
        return NFA([h[s] for s in self.starts], [h[f] for f in self.finals], [(h[p], a, h[q]) for (p, a, q) in self.edges])

def parse_nfa(toks, i):
    assert toks[i] == "W", toks[i:i + 3]
    i += 1
    ns = int(toks[i]); i += 1
    st = [int(x) for x in toks[i:i + ns]]; i += ns
    nf = int(toks[i]); i += 1
    fi = [int(x) for x in toks[i:i + nf]]; i += nf
    ne = int(toks[i]); i += 1
    ed = []
    for _ in range(ne):
        ed.append((int(toks[i]), int(toks[i + 1]), int(toks[i + 2]))); i += 3
    return NFA(st, fi, ed), i

def rand_nfa(rng, nstates, nedges, nsyms=2, pstart=0.35, pfinal=0.35, states=None):
    st = list(states) if states is not None else list(range(nstates))
    if not st: return NFA()
    ed = [(rng.choice(st), rng.randrange(nsyms), rng.choice(st)) for _ in range(nedges)]
    s = [q for q in st if rng.random() < pstart]
    f = [q for q in st if rng.random() < pfinal]
    if not s and rng.random() < 0.8: s = [rng.choice(st)]
    return NFA(s, f, ed)

def rand_nfa_sized(rng, maxs=4, maxe=8, nsyms=2, **kw):
    n = rng.randint(1, maxs)
    return rand_nfa(rng, n, rng.randint(0, maxe), nsyms, **kw)

def enum_nfa(nstates, maxedges, nsyms=2):
    st = range(nstates)
    alle = [(p, a, q) for p in st for a in range(nsyms) for q in st]
    for k in range(0, maxedges + 1):
        for es in itertools.combinations(alle, k):
            for sm in range(1 << nstates):
                for fm in range(1 << nstates):
                    yield NFA([q for q in st if sm >> q & 1], [q for q in st if fm >> q & 1], es)

# ---------------------------------------------------------------------------------------------
# generic shrinking of a case line containing automata
# ---------------------------------------------------------------------------------------------
def split_case(line):
    """-> list of items: str tokens, TA or NFA objects"""
    toks = line.split()
    items, i = [], 0
    while i < len(toks):
        if toks[i] == "T":
            a, i = parse_ta(toks, i); items.append(a)
        elif toks[i] == "W":
            a, i = parse_nfa(toks, i); items.append(a)
        else:
            items.append(toks[i]); i += 1
    return items

def join_case(items):
    return " ".join(x if isinstance(x, str) else x.fmt() for x in items)

def shrink_automata(line):
    """candidates: one rule/edge/final/start removed, or two states merged, in one automaton of the line"""
    items = split_case(line)
    for idx, it in enumerate(items):
        if isinstance(it, TA):
            for j in range(len(it.rules)):
                b = it.copy(); b.rules.pop(j)
                yield join_case(items[:idx] + [b] + items[idx + 1:])
            for j in range(len(it.finals)):
                b = it.copy(); b.finals.pop(j)
                yield join_case(items[:idx] + [b] + items[idx + 1:])
            st = sorted(it.states())
            for x in st[1:]:
                h = {q: q for q in st}; h[x] = st[0]
                yield join_case(items[:idx] + [it.rename(h)] + items[idx + 1:])
        elif isinstance(it, NFA):
            for j in range(len(it.edges)):
                b = it.copy(); b.edges.pop(j)
                yield join_case(items[:idx] + [b] + items[idx + 1:])
            for j in range(len(it.finals)):
                b = it.copy(); b.finals.pop(j)
                yield join_case(items[:idx] + [b] + items[idx + 1:])
            for j in range(len(it.starts)):
                b = it.copy(); b.starts.pop(j)
                yield join_case(items[:idx] + [b] + items[idx + 1:])
