#!/usr/bin/env python3
"""Build the OCaml model binary for one property from the extracted module coq/ex_<id>.ml and
harness/ml/<id>_main.ml.  The glue templates (*.ml.in) are instantiated per property by replacing
EXMOD / COMMON with the property's module names.   usage: build_ml.py c03 -> /verif/.build/ml/c03/m_c03"""
import os, re, shutil, subprocess, sys, fcntl
ROOT = os.path.dirname(os.path.dirname(os.path.abspath(__file__)))

def build(pid):
    mld = os.path.join(ROOT, "harness", "ml")
    out = os.path.join(ROOT, ".build", "ml", pid)
    os.makedirs(out, exist_ok=True)
    main = os.path.join(mld, pid + "_main.ml")
    first = open(main).readline()
    m = re.match(r"\(\* templates:(.*)\*\)", first)
    templates = m.group(1).split() if m else ["common"]
    with open(os.path.join(out, "lock"), "w") as lock:
        fcntl.flock(lock, fcntl.LOCK_EX)
        files = []
        for ext in (".mli", ".ml"):
            src = os.path.join(ROOT, "coq", "ex_" + pid + ext)
            if not os.path.exists(src):
                print("build_ml: missing " + src + " (Coq extraction did not run)")
                return None
            shutil.copy(src, out)
            files.append("ex_" + pid + ext)
        for t in templates:
            txt = open(os.path.join(mld, t + ".ml.in")).read()
            txt = txt.replace("EXMOD", "Ex_" + pid).replace("COMMON", "Common_" + pid)
            open(os.path.join(out, "%s_%s.ml" % (t, pid)), "w").write(txt)
            files.append("%s_%s.ml" % (t, pid))
        shutil.copy(main, out)
        files.append(pid + "_main.ml")
        exe = os.path.join(out, "m_" + pid)
        srcs = [os.path.join(out, f) for f in files]
        if os.path.exists(exe) and all(os.path.getmtime(s) <= os.path.getmtime(exe) for s in srcs) and False:
            return exe
        r = subprocess.run(["ocamlfind", "ocamlopt", "-O3", "-w", "-a"] + files + ["-o", "m_" + pid], cwd=out,
                           stdout=subprocess.PIPE, stderr=subprocess.STDOUT, text=True)
        if r.returncode != 0:
            r = subprocess.run(["ocamlfind", "ocamlopt", "-w", "-a"] + files + ["-o", "m_" + pid], cwd=out,
                               stdout=subprocess.PIPE, stderr=subprocess.STDOUT, text=True)
        if r.returncode != 0:
            sys.stdout.write(r.stdout[-4000:])
            return None
    return exe

if __name__ == "__main__":
    e = build(sys.argv[1])
    if e is None:
        sys.exit(2)
    print(e)
