"""Shared check flow: Coq build -> C++ build from /repo's working tree -> cases -> driver -> verified
gates (extracted model) -> shrink -> known findings -> evidence.  One property = one module in
harness/props/ (see props/c03.py for the interface)."""
import hashlib, json, os, random, re, subprocess, sys, time

ROOT = os.path.dirname(os.path.dirname(os.path.abspath(__file__)))
sys.path.insert(0, os.path.join(ROOT, "harness"))
import build as cxxbuild
import build_ml

COQ = os.path.join(ROOT, "coq")
FORBIDDEN = re.compile(r"\b(Admitted|admit|Axiom|Axioms|Parameter|Parameters|Conjecture|Conjectures|Admit Obligations|"
                       r"Unset Guard Checking|Unset Positivity Checking|Unset Universe Checking|bypass_check|"
                       r"type-in-type|impredicative-set)\b")

def sh(cmd, cwd=None, timeout=None, inp=None):
    try:
        r = subprocess.run(cmd, cwd=cwd, input=inp, stdout=subprocess.PIPE, stderr=subprocess.STDOUT,
                           text=True, timeout=timeout, shell=isinstance(cmd, str))
        return r.returncode, r.stdout
    except subprocess.TimeoutExpired as e:
        out = e.stdout if isinstance(e.stdout, str) else (e.stdout or b"").decode("utf8", "replace")
        return 124, out + "\n[timeout]"

# ----------------------------------------------------------------------------------------------
# Coq side
# ----------------------------------------------------------------------------------------------
def strip_comments(txt):
    out, depth, i = [], 0, 0
    while i < len(txt):
        if txt.startswith("(*", i): depth += 1; i += 2
        elif txt.startswith("*)", i) and depth: depth -= 1; i += 2
        else:
            if depth == 0: out.append(txt[i])
            i += 1
    return "".join(out)

def coq_deps(vfile):
    """transitive closure of `From V Require Import` (files of this development only)"""
    seen, todo = [], [vfile]
    while todo:
        f = todo.pop()
        if f in seen: continue
        seen.append(f)
        txt = strip_comments(open(os.path.join(COQ, f)).read())
        for m in re.finditer(r"From V Require (?:Import|Export)\s+([^.]*)\.", txt):
            for mod in m.group(1).split():
                if os.path.exists(os.path.join(COQ, mod + ".v")): todo.append(mod + ".v")
    return seen

def coq_prepare():
    """_CoqProject lists every .v file of coq/ (generated, so that property files can be added independently)"""
    import scrape_dispatch
    scrape_dispatch.main()          # coq/DispatchTable.v regenerated from /repo's sources (C07)
    vs = sorted(f for f in os.listdir(COQ) if f.endswith(".v"))
    txt = "-Q . V\n" + "\n".join(vs) + "\n"
    cp = os.path.join(COQ, "_CoqProject")
    if not os.path.exists(cp) or open(cp).read() != txt or not os.path.exists(os.path.join(COQ, "Makefile")):
        open(cp, "w").write(txt)
        sh("coq_makefile -f _CoqProject -o Makefile", cwd=COQ)

def coqchk(props_files):
    """independent re-check of the compiled property files and everything they depend on (thorough tier); returns (ok, axioms text)"""
    mods = ["V." + f[:-2] for f in props_files]
    rc, out = sh(["timeout", "1500", "coqchk", "-o", "-silent", "-Q", ".", "V"] + mods, cwd=COQ)
    m = re.search(r"\* Axioms:(.*?)\n\s*\n\* Constants/Inductives relying on type-in-type:(.*?)\n\s*\n\* Constants/Inductives relying on unsafe \(co\)fixpoints:(.*?)\n\s*\n\* Inductives whose positivity is assumed:(.*?)\n", out + "\n", re.S)
    if rc != 0 or not m: return False, "coqchk failed (rc=%d): %s" % (rc, out[-400:])
    parts = [x.strip() for x in m.groups()]
    ok = all(x == "<none>" for x in parts[1:])
    return ok, "axioms: %s; type-in-type: %s; unsafe fixpoints: %s; assumed positivity: %s" % tuple(parts)

def coq_check(pid, props_files, extract_file):
    """Full .vo build of the development, then re-check of the property files with their
    Print Assumptions output captured.  Returns a dict for the evidence."""
    res = {"obligations": 0, "discharged": 0, "axioms": [], "broken": [], "forbidden": [], "extract_ok": True}
    with open(os.path.join(COQ, ".lock"), "w") as lock:
        import fcntl
        fcntl.flock(lock, fcntl.LOCK_EX)
        coq_prepare()
        rc, out = sh("timeout 1500 make -k -j16", cwd=COQ)
        res["make_rc"] = rc
        if rc != 0:
            res["make_tail"] = out[-1500:]
        if extract_file and not os.path.exists(os.path.join(COQ, extract_file[:-2] + ".vo")):
            res["extract_ok"] = False
        for pf in props_files:
            txt = strip_comments(open(os.path.join(COQ, pf)).read())
            thms = re.findall(r"^\s*(?:Theorem|Lemma|Corollary|Example)\s+(\w+)", txt, re.M)
            res["obligations"] += len(thms)
            for dep in coq_deps(pf):
                t = strip_comments(open(os.path.join(COQ, dep)).read())
                for m in FORBIDDEN.finditer(t):
                    res["forbidden"].append("%s: %s" % (dep, m.group(0)))
            vo = os.path.join(COQ, pf[:-2] + ".vo")
            if not os.path.exists(vo) or os.path.getmtime(vo) < os.path.getmtime(os.path.join(COQ, pf)):
                res["broken"].append(pf)
                continue
            rc2, out2 = sh(["timeout", "600", "coqc", "-Q", ".", "V", pf], cwd=COQ)
            if rc2 != 0:
                res["broken"].append(pf); res["make_tail"] = out2[-1500:]
                continue
            res["discharged"] += len(thms)
            # Print Assumptions output: either "Closed under the global context" or "Axioms:" blocks
            ax = re.findall(r"^Axioms:\n((?:.+\n)+?)(?=^\S|\Z)", out2, re.M)
            closed = len(re.findall(r"Closed under the global context", out2))
            res.setdefault("assumption_reports", 0)
            res["assumption_reports"] += closed + len(ax)
            for blk in ax:
                for m in re.finditer(r"^(\S+)\s*:", blk, re.M):
                    if m.group(1) not in res["axioms"]: res["axioms"].append(m.group(1))
    return res

# ----------------------------------------------------------------------------------------------
# running driver and model
# ----------------------------------------------------------------------------------------------
CRASH_CAP = 40
CHUNK = 2000

def _big_stack():
    import resource
    try: resource.setrlimit(resource.RLIMIT_STACK, (resource.RLIM_INFINITY, resource.RLIM_INFINITY))
    except Exception:
        try: resource.setrlimit(resource.RLIMIT_STACK, (1 << 30, resource.getrlimit(resource.RLIMIT_STACK)[1]))
        except Exception: pass

def _std_stack():
    """the implementation under test runs with the customary 8 MiB stack: a recursion that is linear in the input (and would exhaust it) must show"""
    import resource
    try:
        hard = resource.getrlimit(resource.RLIMIT_STACK)[1]
        lim = 8 << 20
        resource.setrlimit(resource.RLIMIT_STACK, (lim if hard == resource.RLIM_INFINITY or hard >= lim else hard, hard))
    except Exception: pass

def run_lines(exe, lines, per_batch_timeout=600, env=None, stack="big"):
    """Feed lines to exe (one output line per input line).  A crash or hang is attributed to the
    first case without an output line; the run resumes after it.  The input is fed in chunks of CHUNK lines per process, so that the
    time limit applies to a bounded amount of work (a large thorough-tier case list is not a hang)."""
    if len(lines) > CHUNK:
        out = []
        for k in range(0, len(lines), CHUNK):
            out.extend(run_lines(exe, lines[k:k + CHUNK], per_batch_timeout, env, stack))
        return out
    out = []
    i = 0
    e = dict(os.environ)
    if env: e.update(env)
    crashes = 0
    while i < len(lines):
        if crashes >= CRASH_CAP:        # enough replays collected: do not restart the driver thousands of times
            out.extend(["SKIPPED"] * (len(lines) - i))
            break
        data = "\n".join(lines[i:]) + "\n"
        try:
            r = subprocess.run(exe if isinstance(exe, list) else [exe], input=data, stdout=subprocess.PIPE, stderr=subprocess.PIPE, text=True,
                               timeout=per_batch_timeout, env=e, errors="replace", preexec_fn=(_big_stack if stack == "big" else _std_stack))
            got = r.stdout.split("\n")
            if got and got[-1] == "": got.pop()
            rc, err = r.returncode, r.stderr
        except subprocess.TimeoutExpired as ex:
            so = ex.stdout if isinstance(ex.stdout, str) else (ex.stdout or b"").decode("utf8", "replace")
            got = so.split("\n")
            if got and got[-1] == "": got.pop()
            rc, err = 124, "timeout"
        need = len(lines) - i
        if len(got) >= need:
            out.extend(got[:need]); i = len(lines)
        else:
            # partial last line (no newline) is discarded
            out.extend(got)
            i += len(got)
            kind = "HANG" if rc == 124 else "CRASH rc=%d" % rc
            el = err.strip().split("\n") if err else []
            key = [x.strip() for x in el if re.search(r"ERROR: AddressSanitizer|runtime error:|SUMMARY:|Invalid (read|write)|uninitialised|Mismatched|terminate called|Assertion", x)]
            tail = (" ".join(key[:3]) if key else " ".join(el[-3:]))[:400]
            out.append("%s %s" % (kind, tail))
            i += 1
            crashes += 1
    return out

class Runner:
    """builds and runs driver(s) + model(s).  A property may route cases to several drivers: prop.route(case) ->
    (driver name, model name or None, stripped case); with model None the verdict is prop.judge(case, impl)."""
    def __init__(self, prop, flavour="plain"):
        self.prop = prop
        self.flavour = flavour
        self.bdir = None
        self.models = {}
        self.build_err = None
    def build(self):
        drivers = list(getattr(self.prop, "DRIVERS", [self.prop.DRIVER]))
        models = list(getattr(self.prop, "MODELS", [self.prop.MODEL]))
        cxx_flavour = "plain" if self.flavour == "valgrind" else self.flavour
        b = cxxbuild.build(cxx_flavour, drivers)
        if b is None:
            self.build_err = "C++ build of /repo (flavour %s) or of a driver in %s failed" % (cxx_flavour, drivers)
            return False
        self.bdir = b
        for mname in models:
            m = build_ml.build(mname)
            if m is None:
                self.build_err = "OCaml build of the extracted model %s failed" % mname
                return False
            self.models[mname] = m
        return True
    def driver_cmd(self, name):
        exe = os.path.join(self.bdir, "d_" + name)
        if self.flavour == "valgrind":
            return ["valgrind", "-q", "--error-exitcode=97", "--exit-on-first-error=yes", "--errors-for-leak-kinds=none", exe]
        return exe
    def run_env(self):
        env = dict(getattr(self.prop, "DRIVER_ENV", None) or {})
        if self.flavour == "asan":
            env.setdefault("ASAN_OPTIONS", "detect_leaks=0:abort_on_error=0:allocator_may_return_null=1")
            env.setdefault("UBSAN_OPTIONS", "print_stacktrace=1:halt_on_error=1")
        return env
    def _judge_with_model(self, m, cases, impl, timeout):
        idx = [i for i, o in enumerate(impl) if o != "SKIPPED"]
        verd = ["OK skipped-after-crash-cap"] * len(cases)
        got = run_lines(self.models[m], [cases[i] + " ||| " + impl[i] for i in idx], per_batch_timeout=timeout)
        for i, v in zip(idx, got): verd[i] = v
        return verd
    def evaluate(self, cases, timeout=900):
        """returns list of (impl_line, verdict_line)"""
        env = self.run_env()
        if not hasattr(self.prop, "route"):
            impl = run_lines(self.driver_cmd(self.prop.DRIVER), cases, per_batch_timeout=timeout, env=env, stack="std")
            return list(zip(impl, self._judge_with_model(self.prop.MODEL, cases, impl, timeout)))
        routed = [self.prop.route(c) for c in cases]
        out = [None] * len(cases)
        groups = {}
        for i, (d, m, c) in enumerate(routed): groups.setdefault((d, m), []).append(i)
        for (d, m), idx in groups.items():
            sub = [routed[i][2] for i in idx]
            impl = run_lines(self.driver_cmd(d), sub, per_batch_timeout=timeout, env=env, stack="std")
            if m is None:
                verd = [self.prop.judge(c, o) for c, o in zip(sub, impl)]
            else:
                verd = self._judge_with_model(m, sub, impl, timeout)
            for i, o, v in zip(idx, impl, verd): out[i] = (o, v)
        return out

# ----------------------------------------------------------------------------------------------
# shrinking (delta debugging over the structured case)
# ----------------------------------------------------------------------------------------------
def shrink(runner, prop, case, fails_like, budget=400):
    """greedy: try each candidate from prop.shrink_candidates(case); keep the first that still fails
    in the same way (same first failure label)."""
    cur = case
    steps = 0
    improved = True
    while improved and steps < budget:
        improved = False
        for cand in prop.shrink_candidates(cur):
            steps += 1
            if steps > budget: break
            (impl, verd), = runner.evaluate([cand], timeout=60)
            if fails_like(verd):
                cur = cand; improved = True
                break
    (impl, verd), = runner.evaluate([cur], timeout=60)
    return cur, impl, verd

def fail_label(verd):
    if verd.startswith("OK"): return None
    if verd.startswith("FAIL"):
        w = verd.split()
        return w[1] if len(w) > 1 else "fail"
    return verd.split()[0] if verd else "empty"

# ----------------------------------------------------------------------------------------------
# known findings
# ----------------------------------------------------------------------------------------------
def load_known():
    """known_findings/<ID>.json, one file per property (committed; never written at run time)"""
    out = []
    d = os.path.join(ROOT, "known_findings")
    for f in sorted(os.listdir(d)) if os.path.isdir(d) else []:
        if f.endswith(".json"):
            out += json.load(open(os.path.join(d, f))).get("findings", [])
    return out

# ----------------------------------------------------------------------------------------------
# main flow
# ----------------------------------------------------------------------------------------------
def main(prop, argv):
    import argparse
    ap = argparse.ArgumentParser()
    ap.add_argument("--tier", default=os.environ.get("VERIF_TIER", "quick"))
    ap.add_argument("--replay", default=None)
    ap.add_argument("--flavour", default=None)
    args = ap.parse_args(argv)
    tier = args.tier if args.tier in ("quick", "thorough") else "quick"
    seed = int(os.environ.get("VERIF_SEED", "1"))
    t0 = time.time()
    pid = prop.ID
    work = os.path.join(ROOT, "work", pid + ("-" + os.environ["VERIF_BUILD_TAG"] if os.environ.get("VERIF_BUILD_TAG") else ""))
    os.makedirs(work, exist_ok=True)
    os.makedirs(os.path.join(ROOT, "evidence"), exist_ok=True)
    violations = []      # (what, replay_path, no_failing_input)
    known_lines = []

    coq = coq_check(pid, prop.COQ_PROPS, getattr(prop, "COQ_EXTRACT", None))
    if tier == "thorough" and not coq["broken"] and not os.environ.get("VERIF_NO_COQCHK"):
        ok, txt = coqchk(prop.COQ_PROPS)
        coq["coqchk"] = txt
        if not ok: coq["broken"].append("coqchk: " + txt)
        elif "axioms: <none>" not in txt:
            for a in re.findall(r"[\w.]+", txt.split(";")[0].replace("axioms:", "")):
                if a not in coq["axioms"]: coq["axioms"].append(a)
    proof_ok = (not coq["broken"]) and (not coq["forbidden"]) and coq["obligations"] > 0 and coq["discharged"] == coq["obligations"]
    allowed_axioms = set(getattr(prop, "ALLOWED_AXIOMS", []))
    bad_axioms = [a for a in coq["axioms"] if a not in allowed_axioms]
    if bad_axioms: proof_ok = False

    flavours = [args.flavour] if args.flavour else list(getattr(prop, "FLAVOURS", {}).get(tier, ["plain"]))
    stats = {"evaluations": 0, "nontrivial": set(), "drift": 0, "families": {}, "samples": [], "fails": 0,
             "exhaustive": False, "distribution": {}}
    failing = []

    if args.replay:
        rp = json.load(open(args.replay))
        cases = [(c, "replay") for c in rp["cases"]]
    else:
        rng = random.Random(seed * 1000003 + (17 if tier == "thorough" else 0))
        cases = prop.cases(rng, tier)

    for flavour in flavours:
        runner = Runner(prop, flavour)
        if not runner.build():
            rp = os.path.join(work, "replay_build.json")
            json.dump({"property": pid, "kind": "build", "what": runner.build_err,
                       "note": "the code under /repo no longer builds with the drivers; correspondence cannot be run"}, open(rp, "w"), indent=1)
            violations.append(("build failed: " + runner.build_err, rp, True))
            continue
        fcases = cases
        cap = int(getattr(prop, "SANITIZER_CAP", 60000))
        if flavour != "plain" and not args.replay and len(cases) > cap:
            # sanitizer flavours are several times slower: a family-stratified sample of the list (all of the corpus, the same share of every family)
            srng = random.Random(seed * 7919 + 13)
            byfam = {}
            for cf in cases: byfam.setdefault(cf[1], []).append(cf)
            share = cap / float(len(cases))
            fcases = []
            for fam in sorted(byfam):
                l = byfam[fam]
                k = len(l) if fam == "corpus" else max(min(len(l), 200), int(len(l) * share))
                fcases += l if k >= len(l) else srng.sample(l, k)
            stats["distribution"]["sanitizer_flavour_sampled"] = len(fcases)
        lines = [c for c, _ in fcases]
        res = runner.evaluate(lines)
        for (c, fam), (impl, verd) in zip(fcases, res):
            stats["evaluations"] += 1
            stats["families"][fam] = stats["families"].get(fam, 0) + 1
            if hasattr(prop, "observe"): prop.observe(stats["distribution"], c, impl, verd)
            if prop.nontrivial(c, impl, verd):
                stats["nontrivial"].add(hashlib.md5(c.encode()).hexdigest())
            if "DRIFT" in verd: stats["drift"] += 1
            if len(stats["samples"]) < 6 and (stats["evaluations"] % max(1, len(lines) // 6) == 1):
                stats["samples"].append({"case": c[:600], "impl": impl[:600], "verdict": verd[:200], "family": fam})
            if not verd.startswith("OK"):
                failing.append((flavour, c, impl, verd, runner))

    # adjudicate failures: known findings first, then shrink the first few new ones
    known = [k for k in load_known() if k.get("property") == pid and k.get("status") == "open"]
    reported = {}
    nshrunk = 0
    for flavour, c, impl, verd, runner in failing:
        stats["fails"] += 1
        kf = None
        for k in known:
            pred = getattr(prop, k["matcher"], None)
            if pred and pred(c, impl, verd, k):
                kf = k; break
        if kf:
            key = ("known", kf["id"])
            if key not in reported:
                reported[key] = 1
                known_lines.append("KNOWN-FINDING: property=%s %s [%s] e.g. case: %s" % (pid, kf["what"], kf["id"], c[:300]))
            else: reported[key] += 1
            continue
        lab = fail_label(verd)
        key = ("new", lab)
        if key in reported:
            reported[key] += 1
            continue
        reported[key] = 1
        if nshrunk < 4 and hasattr(prop, "shrink_candidates"):
            nshrunk += 1
            c2, impl2, verd2 = shrink(runner, prop, c, lambda v, lab=lab: fail_label(v) == lab)
        else:
            c2, impl2, verd2 = c, impl, verd
        # a shrunk case may have become a known finding; re-test
        kf2 = None
        for k in known:
            pred = getattr(prop, k["matcher"], None)
            if pred and pred(c2, impl2, verd2, k) and pred(c, impl, verd, k): kf2 = k
        if kf2:
            known_lines.append("KNOWN-FINDING: property=%s %s [%s] e.g. case: %s" % (pid, kf2["what"], kf2["id"], c2[:300]))
            continue
        rp = os.path.join(work, "replay_%s_%s_%s.json" % (tier, lab, hashlib.md5(c2.encode()).hexdigest()[:8]))
        json.dump({"property": pid, "kind": "failing-input", "failed_gate": lab, "flavour": flavour,
                   "cases": [c2], "impl_output": impl2, "gate_verdict": verd2, "original_case": c,
                   "explain": prop.explain(c2, impl2, verd2) if hasattr(prop, "explain") else "",
                   "replay_cmd": "./check %s --replay %s" % (pid, rp)}, open(rp, "w"), indent=1)
        violations.append(("gate %s failed" % lab, rp, False))

    if not proof_ok:
        # a broken proof: the correspondence above already searched for a failing input
        if not any(not nf for _, _, nf in violations):
            rp = os.path.join(work, "replay_proof.json")
            json.dump({"property": pid, "kind": "proof", "broken_files": coq["broken"], "forbidden": coq["forbidden"],
                       "unexpected_axioms": bad_axioms, "make_tail": coq.get("make_tail", ""),
                       "note": "theorem(s) of %s no longer check; no failing input found by the correspondence run" % ",".join(prop.COQ_PROPS)},
                      open(rp, "w"), indent=1)
            violations.append(("proof obligations not discharged", rp, True))

    wall = time.time() - t0
    ev = {
        "property_id": pid, "tier": tier, "seed": seed, "level": prop.LEVEL,
        "coverage": {
            "obligations": coq["obligations"], "discharged": coq["discharged"],
            "checker_cmd": "make -C coq -j16 (coqc 8.16.1, full .vo) ; coqc -Q . V " + " ".join(prop.COQ_PROPS) + (" ; coqchk -o -silent -Q . V " + " ".join("V." + f[:-2] for f in prop.COQ_PROPS) if coq.get("coqchk") else ""),
            "coqchk": coq.get("coqchk", "not run in this tier (thorough only)"),
            "trusted_base": prop.TRUSTED_BASE + ["Print Assumptions: %d reports, axioms used: %s" %
                                                 (coq.get("assumption_reports", 0), ", ".join(coq["axioms"]) or "none (closed under the global context)")],
            "evaluations": stats["evaluations"], "distinct_nontrivial": len(stats["nontrivial"]),
            "rule": prop.RULE, "samples": stats["samples"], "exhaustive": False,
            "exhaustive_slices": getattr(prop, "EXHAUSTIVE_SLICES", "none"),
            "families": stats["families"], "distribution": stats["distribution"],
            "structural_drift": stats["drift"], "failing_cases": stats["fails"],
            "disagreements_checked": stats["fails"],
            "known_findings_printed": known_lines, "flavours": flavours,
            "explanation": getattr(prop, "EXPLANATION", ""),
        },
        "assumptions": prop.ASSUMPTIONS,
        "wall_s": round(wall, 2),
        "violations": len(violations),
    }
    if args.replay:
        for (c, _), (impl, verd) in zip(cases, res):
            print("case:    " + c); print("impl:    " + impl); print("verdict: " + verd)
    elif os.environ.get("VERIF_NO_EVIDENCE"):
        pass
    else:
        json.dump(ev, open(os.path.join(ROOT, "evidence", pid + ".json"), "w"), indent=1)
    for l in known_lines: print(l)
    print("%s tier=%s seed=%d: %d evaluations, %d distinct non-trivial, %d drift, proofs %d/%d, %.1fs" %
          (pid, tier, seed, stats["evaluations"], len(stats["nontrivial"]), stats["drift"], coq["discharged"], coq["obligations"], wall))
    for what, rp, nf in violations:
        print("# " + what)
        print("VIOLATION property=%s replay=%s%s" % (pid, rp, " no-failing-input-found" if nf else ""))
    return 1 if violations else 0
