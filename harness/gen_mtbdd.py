"""Generators for the MTBDD properties C17 (operation trees) and C18 (histories with destruction).

C17 case:  c17 <u|s> <NV> { K v | C asgn v d | Y a | U f a | B f a b | T f a b c | P f mask a | R r0..r(NV-1) a
                            | E asgn off a | X asgn off a }*          handle = position of the op
C18 case:  c18 <u|s> <NV> { C h asgn v d | K h v | Y h g | A h g | U h f a | B h f a b | T h f a b c
                            | E h asgn off a | X h asgn off a | D h }*  explicit handle names
asgn: string over 0 1 X (position i = variable i), "-" = empty.  Leaf domains: u = 0..3, s = masks 0..7.
Every generated case respects the preconditions the package states (one fixed variable order: ExtendWith only
above the variables present, renaming monotone, assignments long enough for GetMtbddForPrefix / GetValue); the
builders track an upper bound ub of the variables of every handle to guarantee that.
Every random choice goes through the rng passed in."""
import itertools

NOPS = {"u": (5, 7, 3), "s": (4, 4, 3)}      # number of unary / binary / ternary op codes per domain
NVAL = {"u": 4, "s": 8}
ARITY = {  # C17 token counts after the op letter (R handled separately)
    "K": 1, "C": 3, "Y": 1, "A": 2, "U": 2, "B": 3, "T": 4, "P": 3, "E": 3, "X": 3}

def asgn_word(a): return a if a else "-"
def rand_asgn(rng, n, pdc=0.34):
    return "".join("X" if rng.random() < pdc else rng.choice("01") for _ in range(n))
def all_asgn(n): return ["".join(p) for p in itertools.product("01X", repeat=n)]

# ------------------------------------------------------------------------------------------------
# C17: operation trees
# ------------------------------------------------------------------------------------------------
class Tree:
    """a C17 case under construction; ub[h] = strict upper bound of the variables of handle h"""
    def __init__(self, dom, nv):
        self.dom, self.nv, self.ops, self.ub = dom, nv, [], []
    def n(self): return len(self.ops)
    def _add(self, toks, ub):
        self.ops.append([str(t) for t in toks]); self.ub.append(ub); return len(self.ops) - 1
    def K(self, v): return self._add(["K", v], 0)
    def C(self, asgn, v, d):
        assert len(asgn) <= self.nv
        return self._add(["C", asgn_word(asgn), v, d], len(asgn))
    def Y(self, a): return self._add(["Y", a], self.ub[a])
    def A(self, a, b): return self._add(["A", a, b], self.ub[b])          # a copy of a, then copy-assigned from b
    def U(self, f, a): return self._add(["U", f, a], self.ub[a])
    def B(self, f, a, b): return self._add(["B", f, a, b], max(self.ub[a], self.ub[b]))
    def T(self, f, a, b, c): return self._add(["T", f, a, b, c], max(self.ub[a], self.ub[b], self.ub[c]))
    def P(self, f, mask, a): return self._add(["P", f, mask, a], self.ub[a])
    def R(self, r, a):
        """r: strictly increasing list of length nv; values used (positions < ub[a]) must be < nv"""
        assert len(r) == self.nv and all(r[i] < r[i + 1] for i in range(len(r) - 1))
        u = self.ub[a]
        assert u == 0 or r[u - 1] < self.nv
        return self._add(["R"] + list(r) + [a], 0 if u == 0 else r[u - 1] + 1)
    def E(self, asgn, off, a):
        assert off >= self.ub[a] and off + len(asgn) <= self.nv
        return self._add(["E", asgn_word(asgn), off, a], max(self.ub[a], off + len(asgn)))
    def X(self, asgn, off, a):
        assert len(asgn) >= max(0, self.ub[a] - off)
        return self._add(["X", asgn_word(asgn), off, a], min(self.ub[a], off))
    def fmt(self):
        return " ".join(["c17", self.dom, str(self.nv)] + [" ".join(o) for o in self.ops])

def rand_renaming(rng, nv, u):
    """strictly increasing r on 0..nv-1 with r[u-1] < nv"""
    if u == 0: return list(range(nv))
    img = sorted(rng.sample(range(nv), u))
    r = list(img)
    while len(r) < nv: r.append(r[-1] + 1)
    return r

def rand_tree(rng, dom, nv, nops, vals=None, pdc=0.34, kinds="KCCCYAUBBBTPREX"):
    t = Tree(dom, nv)
    vals = vals if vals is not None else list(range(NVAL[dom]))
    n1, n2, n3 = NOPS[dom]
    for _ in range(nops):
        k = rng.choice(kinds) if t.n() else rng.choice("KCCC")
        h = lambda: rng.randrange(t.n())
        if k == "K": t.K(rng.choice(vals))
        elif k == "C": t.C(rand_asgn(rng, rng.randint(0, nv), pdc), rng.choice(vals), rng.choice(vals))
        elif k == "Y": t.Y(h())
        elif k == "A": t.A(h(), h())
        elif k == "U": t.U(rng.randrange(n1), h())
        elif k == "B": t.B(rng.randrange(n2), h(), h())
        elif k == "T": t.T(rng.randrange(n3), h(), h(), h())
        elif k == "P": t.P(rng.randrange(n2), rng.randrange(1 << nv), h())
        elif k == "R":
            a = h(); t.R(rand_renaming(rng, nv, t.ub[a]), a)
        elif k == "E":
            a = h()
            if t.ub[a] > nv: continue
            off = rng.randint(t.ub[a], nv)
            t.E(rand_asgn(rng, rng.randint(0, nv - off), pdc), off, a)
        elif k == "X":
            a = h(); off = rng.randint(0, nv)
            need = max(0, t.ub[a] - off)
            t.X(rand_asgn(rng, rng.randint(need, max(need, nv)), pdc), off, a)
    return t

def assign_default_tree(rng, dom, nv):
    """two objects denoting the SAME function with DIFFERENT default values (a construction and its mirror image, or a constant built two ways),
    copy-assignment between them in both directions, then operations that read the default value (ExtendWith) and further random operations"""
    t = Tree(dom, nv)
    vals = list(range(NVAL[dom]))
    v, d = rng.sample(vals, 2)
    r = rng.random()
    if r < 0.5 and nv >= 1:
        k = rng.randint(1, max(1, nv - 1))
        pos = rng.randrange(k)
        bit = rng.choice("01")
        a1 = "".join(bit if i == pos else "X" for i in range(k)); a2 = "".join(("1" if bit == "0" else "0") if i == pos else "X" for i in range(k))
        h0 = t.C(a1, v, d); h1 = t.C(a2, d, v)                      # x_pos = bit ? v : d   both ways
    elif r < 0.75:
        h0 = t.C("", v, d); h1 = t.K(v)                              # the constant v with default d / default v
    else:
        h0 = t.C(rand_asgn(rng, rng.randint(0, max(0, nv - 1)), 1.0), v, d); h1 = t.C("", v, rng.choice(vals))
    h2 = t.A(h0, h1); h3 = t.A(h1, h0)
    for h in (h2, h3, h0, h1):
        if t.ub[h] <= nv:
            off = rng.randint(t.ub[h], nv)
            t.E(rand_asgn(rng, rng.randint(0, nv - off), 0.2), off, h)
    n1, n2, n3 = NOPS[dom]
    for _ in range(rng.randint(0, 3)):
        k = rng.choice("BUAY")
        hh = lambda: rng.randrange(t.n())
        if k == "B": t.B(rng.randrange(n2), hh(), hh())
        elif k == "U": t.U(rng.randrange(n1), hh())
        elif k == "A": t.A(hh(), hh())
        else: t.Y(hh())
    return t

def parse17(line):
    w = line.split()
    assert w[0] == "c17"
    dom, nv = w[1], int(w[2])
    ops, i = [], 3
    while i < len(w):
        k = w[i]
        n = nv + 1 if k == "R" else ARITY[k]
        ops.append(w[i:i + 1 + n]); i += 1 + n
    return dom, nv, ops

def refs17(op):
    """positions (inside the op's token list) holding handle references"""
    k = op[0]
    return {"K": [], "C": [], "Y": [1], "A": [1, 2], "U": [2], "B": [2, 3], "T": [2, 3, 4], "P": [3], "E": [3], "X": [3]}.get(k, [len(op) - 1])

def shrink17(line):
    """candidates: drop the last op; drop an unreferenced op (renumbering); replace an op by a constant"""
    dom, nv, ops = parse17(line)
    out = []
    def fmt(o): return " ".join(["c17", dom, str(nv)] + [" ".join(x) for x in o])
    if ops: out.append(fmt(ops[:-1]))
    for i in range(len(ops) - 1):
        used = any(int(o[p]) == i for o in ops[i + 1:] for p in refs17(o))
        if used: continue
        new = []
        for o in ops[:i] + ops[i + 1:]:
            o = list(o)
            for p in refs17(o):
                if int(o[p]) > i: o[p] = str(int(o[p]) - 1)
            new.append(o)
        out.append(fmt(new))
    for i, o in enumerate(ops):
        if o[0] not in ("K",):
            out.append(fmt(ops[:i] + [["K", "0"]] + ops[i + 1:]))
            if o[0] == "C" and o[1] != "-" and "X" not in o[1]:
                pass
    return out

# ------------------------------------------------------------------------------------------------
# C18: histories
# ------------------------------------------------------------------------------------------------
class Hist:
    """a C18 case under construction; live: handle -> ub"""
    def __init__(self, dom, nv):
        self.dom, self.nv, self.steps, self.live, self.nexth = dom, nv, [], {}, 0
    def fresh(self):
        h = self.nexth; self.nexth += 1; return h
    def _new(self, toks, ub, h=None):
        h = self.fresh() if h is None else h
        assert h not in self.live
        self.nexth = max(self.nexth, h + 1)
        self.steps.append([toks[0], str(h)] + [str(t) for t in toks[1:]]); self.live[h] = ub; return h
    def C(self, asgn, v, d, h=None):
        assert len(asgn) <= self.nv
        return self._new(["C", asgn_word(asgn), v, d], len(asgn), h)
    def K(self, v, h=None): return self._new(["K", v], 0, h)
    def Y(self, g, h=None): return self._new(["Y", g], self.live[g], h)
    def A(self, h, g):
        assert h in self.live and g in self.live
        self.steps.append(["A", str(h), str(g)]); self.live[h] = self.live[g]
    def U(self, f, a, h=None): return self._new(["U", f, a], self.live[a], h)
    def B(self, f, a, b, h=None): return self._new(["B", f, a, b], max(self.live[a], self.live[b]), h)
    def T(self, f, a, b, c, h=None): return self._new(["T", f, a, b, c], max(self.live[a], self.live[b], self.live[c]), h)
    def E(self, asgn, off, a, h=None):
        assert off >= self.live[a] and off + len(asgn) <= self.nv
        return self._new(["E", asgn_word(asgn), off, a], max(self.live[a], off + len(asgn)), h)
    def X(self, asgn, off, a, h=None):
        assert len(asgn) >= max(0, self.live[a] - off)
        return self._new(["X", asgn_word(asgn), off, a], min(self.live[a], off), h)
    def D(self, h):
        assert h in self.live
        self.steps.append(["D", str(h)]); del self.live[h]
    def Z(self, h, n):
        assert h in self.live
        self.steps.append(["Z", str(h), str(n)])
    def fmt(self):
        return " ".join(["c18", self.dom, str(self.nv)] + [" ".join(s) for s in self.steps])
    def copy(self):
        c = Hist(self.dom, self.nv); c.steps = [list(s) for s in self.steps]; c.live = dict(self.live); c.nexth = self.nexth; return c

def rand_hist(rng, dom, nv, nsteps, vals=None, maxlive=6, pdc=0.34, pdestroy=0.22, destroy_all=False):
    t = Hist(dom, nv)
    vals = vals if vals is not None else list(range(NVAL[dom]))
    n1, n2, n3 = NOPS[dom]
    for _ in range(nsteps):
        lv = sorted(t.live)
        if not lv: k = rng.choice("CCCK")
        elif len(lv) >= maxlive: k = rng.choice("DDAA")
        else:
            k = "D" if rng.random() < pdestroy else rng.choice("CCCKYYAAUBBBBTEX")
        g = lambda: rng.choice(lv)
        if k == "C": t.C(rand_asgn(rng, rng.randint(0, nv), pdc), rng.choice(vals), rng.choice(vals))
        elif k == "K": t.K(rng.choice(vals))
        elif k == "Y": t.Y(g())
        elif k == "A": t.A(g(), g())
        elif k == "U": t.U(rng.randrange(n1), g())
        elif k == "B": t.B(rng.randrange(n2), g(), g())
        elif k == "T": t.T(rng.randrange(n3), g(), g(), g())
        elif k == "E":
            a = g()
            off = rng.randint(t.live[a], nv)
            t.E(rand_asgn(rng, rng.randint(0, nv - off), pdc), off, a)
        elif k == "X":
            a = g(); off = rng.randint(0, nv); need = max(0, t.live[a] - off)
            t.X(rand_asgn(rng, rng.randint(need, max(need, nv)), pdc), off, a)
        elif k == "D": t.D(g())
    if destroy_all:
        lv = sorted(t.live); rng.shuffle(lv)
        for h in lv: t.D(h)
    return t

def assign_same_root_hist(rng, dom, nv):
    """two live objects with the SAME diagram and DIFFERENT default values (a construction and its mirror image, a constant built two
    ways, or an apply whose result equals an operand), copy-assignment between them, then the objects are destroyed in a random order with
    further objects created in between: every reference the assignment takes or gives back must be accounted for"""
    t = Hist(dom, nv)
    vals = list(range(NVAL[dom]))
    v, d = rng.sample(vals, 2)
    r = rng.random()
    if r < 0.4 and nv >= 1:
        k = rng.randint(1, nv); pos = rng.randrange(k); bit = rng.choice("01")
        a1 = "".join(bit if i == pos else "X" for i in range(k)); a2 = "".join(("1" if bit == "0" else "0") if i == pos else "X" for i in range(k))
        h0 = t.C(a1, v, d); h1 = t.C(a2, d, v)
    elif r < 0.7:
        h0 = t.C(rand_asgn(rng, rng.randint(0, nv), 1.0), v, d); h1 = t.K(v)
    else:
        h0 = t.C(rand_asgn(rng, rng.randint(1, max(1, nv)), 0.3), v, d)
        z = t.C("", rng.choice(vals), rng.choice(vals))
        h1 = t.B(rng.randrange(NOPS[dom][1]), h0, z)
    if rng.random() < 0.5: t.A(h0, h1)
    else: t.A(h1, h0)
    if rng.random() < 0.3: t.A(h0, h1)
    if rng.random() < 0.4: t.Y(rng.choice(sorted(t.live)))
    if rng.random() < 0.3: t.U(rng.randrange(NOPS[dom][0]), rng.choice(sorted(t.live)))
    lv = sorted(t.live); rng.shuffle(lv)
    for h in lv:
        t.D(h)
        if t.live and rng.random() < 0.3: t.Y(rng.choice(sorted(t.live)))
    for h in sorted(t.live): t.D(h)
    return t

def bulk_hist(rng, dom, nv):
    """a diagram that is, for a while, referred to by very many objects (n temporary copies made and destroyed again: reference counters far
    beyond 16 bits), with ordinary objects alive before and after"""
    t = Hist(dom, nv)
    vals = list(range(NVAL[dom]))
    h0 = t.C(rand_asgn(rng, rng.randint(1, nv), 0.3), rng.choice(vals), rng.choice(vals))
    h1 = t.Y(h0) if rng.random() < 0.5 else t.C(rand_asgn(rng, rng.randint(1, nv), 0.3), rng.choice(vals), rng.choice(vals))
    t.Z(rng.choice([h0, h1]), rng.choice([65535, 65536, 70000, 131072]))
    if rng.random() < 0.5: t.B(rng.randrange(NOPS[dom][1]), h0, h1)
    lv = sorted(t.live); rng.shuffle(lv)
    for h in lv: t.D(h)
    return t

ARITY18 = {"C": 4, "K": 2, "Y": 2, "A": 2, "U": 3, "B": 4, "T": 5, "E": 4, "X": 4, "D": 1, "Z": 2}
def parse18(line):
    w = line.split()
    assert w[0] == "c18"
    dom, nv = w[1], int(w[2])
    steps, i = [], 3
    while i < len(w):
        n = ARITY18[w[i]]; steps.append(w[i:i + 1 + n]); i += 1 + n
    return dom, nv, steps

def uses18(s):
    k = s[0]
    idx = {"C": [], "K": [], "Y": [2], "A": [1, 2], "U": [3], "B": [3, 4], "T": [3, 4, 5], "E": [4], "X": [4], "D": [1], "Z": [1]}[k]
    return [int(s[i]) for i in idx]
def creates18(s): return s[0] in "CKYUBTEX"

def valid18(nv, steps):
    """liveness discipline and the variable-order preconditions (recomputed bounds)"""
    live = {}
    for s in steps:
        k, h = s[0], int(s[1])
        for u in uses18(s):
            if u not in live: return False
        if creates18(s) and h in live: return False
        if k == "C":
            a = "" if s[2] == "-" else s[2]
            if len(a) > nv: return False
            live[h] = len(a)
        elif k == "K": live[h] = 0
        elif k == "Y": live[h] = live[int(s[2])]
        elif k == "A": live[h] = live[int(s[2])]
        elif k == "U": live[h] = live[int(s[3])]
        elif k == "B": live[h] = max(live[int(s[3])], live[int(s[4])])
        elif k == "T": live[h] = max(live[int(s[3])], live[int(s[4])], live[int(s[5])])
        elif k == "E":
            a = "" if s[2] == "-" else s[2]; off = int(s[3]); src = live[int(s[4])]
            if off < src or off + len(a) > nv: return False
            live[h] = max(src, off + len(a))
        elif k == "X":
            a = "" if s[2] == "-" else s[2]; off = int(s[3]); src = live[int(s[4])]
            if len(a) < max(0, src - off): return False
            live[h] = min(src, off)
        elif k == "D": del live[h]
    return True

def shrink18(line):
    dom, nv, steps = parse18(line)
    out = []
    def fmt(st): return " ".join(["c18", dom, str(nv)] + [" ".join(x) for x in st])
    for i in range(len(steps) - 1, -1, -1):
        cand = steps[:i] + steps[i + 1:]
        if valid18(nv, cand): out.append(fmt(cand))
    for i, s in enumerate(steps):
        if creates18(s) and s[0] not in ("K",):
            cand = steps[:i] + [["K", s[1], "0"]] + steps[i + 1:]
            if valid18(nv, cand): out.append(fmt(cand))
    return out

def enum_hist(dom, nv, length, vals=(0, 1), f1=(0, 1), f2=(0, 2)):
    """ALL histories of exactly `length` steps over nv variables and the given leaf values, with the op alphabet
    C (every assignment of full length nv, (v,d) in vals x vals), K, Y, A (incl. self), U (codes f1), B (codes f2), D;
    a new object always takes the smallest unused name"""
    atoms = [("C", a, v, d) for a in all_asgn(nv) for v in vals for d in vals] + [("K", v) for v in vals]
    out = []
    def rec(t, k):
        if k == 0:
            out.append(t.fmt()); return
        lv = sorted(t.live)
        for at in atoms:
            c = t.copy()
            if at[0] == "C": c.C(at[1], at[2], at[3])
            else: c.K(at[1])
            rec(c, k - 1)
        for g in lv:
            c = t.copy(); c.Y(g); rec(c, k - 1)
            c = t.copy(); c.D(g); rec(c, k - 1)
            for f in f1:
                c = t.copy(); c.U(f, g); rec(c, k - 1)
            for g2 in lv:
                c = t.copy(); c.A(g, g2); rec(c, k - 1)
                for f in f2:
                    c = t.copy(); c.B(f, g, g2); rec(c, k - 1)
    rec(Hist(dom, nv), length)
    return out
