#!/bin/sh
# usage: mutcheck.sh <ID> <patch.diff> [-R] [tier] — run a check against a scratch copy of /repo with a patch applied
# (or reverse-applied with -R, e.g. to re-introduce a fixed defect). Never touches /repo; no evidence is written.
# MUTTAG (default mut) names the scratch copy /tmp/<tag>_repo and the build directory .build/plain-<tag>: runs with different tags can go in parallel.
# Files patched in this or the previous run are touched so that the incremental build (mtime based) recompiles them.
set -e
ID=$1; PATCH=$2; REV=""; TIER=quick
[ "$3" = "-R" ] && REV=-R
[ -n "$4" ] && TIER=$4
TAG=${MUTTAG:-mut}
S=/tmp/${TAG}_repo; rm -rf $S
rsync -a --exclude _build --exclude .git /repo/ $S/
(cd $S && patch -p1 $REV --no-backup-if-mismatch -s < "$PATCH")
mkdir -p /verif/.build/plain-$TAG
LAST=/verif/.build/plain-$TAG/last_patched
grep '^+++ ' "$PATCH" | sed 's|^+++ [ab]/||; s|\t.*||' > $LAST.new
for f in $(cat $LAST.new $LAST 2>/dev/null | sort -u); do [ -f "$S/$f" ] && touch "$S/$f"; done
mv $LAST.new $LAST
cd /verif
VERIF_REPO=$S VERIF_BUILD_TAG=$TAG VERIF_NO_EVIDENCE=1 ./check $ID --tier $TIER | tail -6 || true
rm -rf $S
