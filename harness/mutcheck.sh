#!/bin/sh
# usage: mutcheck.sh <ID> <patch.diff> [-R]  — run a check against a scratch copy of /repo with a patch applied
# (or reverse-applied with -R, e.g. to re-introduce a fixed defect). Never touches /repo; no evidence is written.
set -e
ID=$1; PATCH=$2; REV=$3
S=/tmp/mut_repo; rm -rf $S
rsync -a --exclude _build --exclude .git /repo/ $S/
(cd $S && patch -p1 $REV --no-backup-if-mismatch -s < "$PATCH")
cd /verif
VERIF_REPO=$S VERIF_BUILD_TAG=mut VERIF_NO_EVIDENCE=1 ./check $ID --tier quick | tail -6 || true
rm -rf $S
