#!/usr/bin/env python3
"""Regenerate the table of seeded changes in DESIGN.md (between the SEEDED markers) from seeded/*/meta.json."""
import json, os, re
ROOT = os.path.dirname(os.path.dirname(os.path.abspath(__file__)))
rows = ["| seed | property | change (author: independent sub-agent) | needs | caught by (quick tier) | note |", "|---|---|---|---|---|---|"]
hrows = ["| harmless change | what it changes (author: independent sub-agent) | checks run against it | false alarms |", "|---|---|---|---|"]
for d in sorted(os.listdir(os.path.join(ROOT, "seeded"))):
    mp = os.path.join(ROOT, "seeded", d, "meta.json")
    if not os.path.exists(mp): continue
    m = json.load(open(mp))
    if d.startswith("harmless_"):
        hrows.append("| %s | %s | %s | %s |" % (d, m.get("changes", "see author_notes.md"), " ".join(m.get("checks_run_against_it", [])), " ".join(m.get("false_alarms", [])) or "none"))
        continue
    gates = "; ".join(g.replace("gate ", "").replace(" failed", "") for g in m.get("failed_gates", [])[:2]) or "–"
    caught = ("**yes**: " + gates) if m.get("caught_by_check") else "**no**"
    rows.append("| %s | %s | %s | %s | %s | %s |" % (d, m["property"], m.get("breaks", ""), m.get("needs_to_manifest", ""), caught, m.get("history", "")))
tab = "<!-- SEEDED:BEGIN -->\n" + "\n".join(rows) + "\n<!-- SEEDED:END -->"
p = os.path.join(ROOT, "DESIGN.md")
s = open(p).read()
if "SEEDED_TABLE" in s: s = s.replace("SEEDED_TABLE", tab)
else: s = re.sub(r"<!-- SEEDED:BEGIN -->.*?<!-- SEEDED:END -->", lambda _: tab, s, flags=re.S)
htab = "<!-- HARMLESS:BEGIN -->\n" + "\n".join(hrows) + "\n<!-- HARMLESS:END -->"
if "HARMLESS_TABLE" in s: s = s.replace("HARMLESS_TABLE", htab)
else: s = re.sub(r"<!-- HARMLESS:BEGIN -->.*?<!-- HARMLESS:END -->", lambda _: htab, s, flags=re.S)
open(p, "w").write(s)
print(len(rows) - 2, "seeded changes,", len(hrows) - 2, "harmless changes")
