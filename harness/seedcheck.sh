#!/bin/sh
# usage: seedcheck.sh <id> [outdir]   — confirm a seeded change (made by an independent sub-agent) and run our check against it.
#   1. scratch copy of /repo, clean cmake build, per-case unit-test results, demo must PASS
#   2. apply patch.diff, rebuild, per-case unit-test results must be IDENTICAL, demo must FAIL
#   3. run ./check <ID> against the patched copy (harness/mutcheck.sh)
#   4. store patch, demo and meta.json under /verif/seeded/<id>/
ID=$1; OUT=${2:-/tmp/seed_${ID}_out}; PID=$(echo $ID | tr a-z A-Z | cut -c1-3)
S=/tmp/sv_base${SVTAG:+_$SVTAG}
[ -f $OUT/patch.diff ] || { echo "no patch in $OUT"; exit 2; }
tests() {
  ( cd $S/_build/unit_tests && for t in ondriks_mtbdd_c_test timbuk_parser_test bdd_bu_tree_aut_test bdd_td_tree_aut_test explicit_tree_aut_test; do
      for c in $(./$t --list_content 2>&1 | sed -n 's/^ \+\([A-Za-z0-9_]*\)\*\?$/\1/p'); do
        if timeout 900 ./$t --run_test="*/$c" >/dev/null 2>&1; then echo "$t/$c pass"; else echo "$t/$c FAIL"; fi
      done; done )
}
HEADNOW=$(git -C /repo rev-parse HEAD)
if [ ! -f $S/.base_head ] || [ "$(cat $S/.base_head)" != "$HEADNOW" ]; then     # clean base build of the current /repo HEAD, reused by later calls
  rm -rf $S; rsync -a --exclude _build --exclude .git /repo/ $S/
  cmake -G Ninja -S $S -B $S/_build >/dev/null 2>&1 && cmake --build $S/_build -j12 >/dev/null 2>&1 || { echo "clean build failed"; exit 2; }
  tests > $S.tests.txt; echo $HEADNOW > $S/.base_head
fi
cp $S.tests.txt /tmp/sv_${ID}_before.txt
( cd $OUT && sh ./run_demo.sh $S ) > /tmp/sv_${ID}_demo_before.txt 2>&1; D0=$?
( cd $S && patch -p1 -s --no-backup-if-mismatch < $OUT/patch.diff ) || { echo "patch does not apply"; exit 2; }
cmake --build $S/_build -j12 >/dev/null 2>&1 || { echo "patched build failed"; ( cd $S && patch -R -p1 -s < $OUT/patch.diff ); exit 2; }
tests > /tmp/sv_${ID}_after.txt
( cd $OUT && sh ./run_demo.sh $S ) > /tmp/sv_${ID}_demo_after.txt 2>&1; D1=$?
( cd $S && patch -R -p1 -s --no-backup-if-mismatch < $OUT/patch.diff; for f in $(grep '^+++ ' $OUT/patch.diff | sed 's|^+++ [ab]/||; s|\t.*||'); do touch $f; done )
cmake --build $S/_build -j12 >/dev/null 2>&1
if cmp -s /tmp/sv_${ID}_before.txt /tmp/sv_${ID}_after.txt; then T=same; else T=DIFFERENT; fi
echo "unit tests: $T ($(grep -c pass /tmp/sv_${ID}_after.txt) pass); demo unchanged tree exit=$D0, patched exit=$D1"
cd /verif && harness/mutcheck.sh $PID $OUT/patch.diff > /tmp/sv_${ID}_check.txt 2>&1
tail -4 /tmp/sv_${ID}_check.txt
CAUGHT=no; grep -q "^VIOLATION property=$PID" /tmp/sv_${ID}_check.txt && CAUGHT=yes
mkdir -p /verif/seeded/$ID
cp $OUT/patch.diff /verif/seeded/$ID/; cp $OUT/demo.cc $OUT/run_demo.sh /verif/seeded/$ID/ 2>/dev/null; cp $OUT/notes.md /verif/seeded/$ID/author_notes.md 2>/dev/null
python3 - "$ID" "$PID" "$T" "$D0" "$D1" "$CAUGHT" <<'PY'
import json, sys, re
i, pid, t, d0, d1, caught = sys.argv[1:]
chk = open('/tmp/sv_%s_check.txt' % i).read()
viol = re.findall(r"^# (.*)$", chk, re.M)
meta = {"property": pid, "id": i,
        "breaks": "see author_notes.md (written by the independent sub-agent that authored the change)",
        "confirmed": {"unit_tests_identical_with_and_without_change": t == "same", "demo_exit_unchanged_tree": int(d0), "demo_exit_with_change": int(d1)},
        "what_was_run": ["harness/seedcheck.sh %s: scratch copy of /repo, clean cmake build, per-case unit tests, run_demo.sh; git apply patch.diff, rebuild, per-case unit tests, run_demo.sh" % i,
                         "harness/mutcheck.sh %s patch.diff (= ./check %s --tier quick against the patched scratch copy)" % (pid, pid)],
        "caught_by_check": caught == "yes", "failed_gates": viol[:5], "check_tail": chk.strip().split("\n")[-4:]}
json.dump(meta, open('/verif/seeded/%s/meta.json' % i, 'w'), indent=1)
print("seeded/%s: caught=%s" % (i, caught))
PY
