#!/bin/sh
# usage: harmlesscheck.sh <name> <outdir> <ID> [<ID> ...]  — a HARMLESS change (property-preserving refactoring written by an independent
# sub-agent): confirm unit tests and demo are unaffected, then run the given checks against the patched scratch copy: none may raise an alarm.
NAME=$1; OUT=$2; shift 2
S=/tmp/sv_base
[ -f $OUT/patch.diff ] || { echo "no patch in $OUT"; exit 2; }
tests() {
  ( cd $S/_build/unit_tests && for t in ondriks_mtbdd_c_test timbuk_parser_test bdd_bu_tree_aut_test bdd_td_tree_aut_test explicit_tree_aut_test; do
      for c in $(./$t --list_content 2>&1 | sed -n 's/^ \+\([A-Za-z0-9_]*\)\*\?$/\1/p'); do
        if timeout 900 ./$t --run_test="*/$c" >/dev/null 2>&1; then echo "$t/$c pass"; else echo "$t/$c FAIL"; fi
      done; done )
}
HEADNOW=$(git -C /repo rev-parse HEAD)
if [ ! -f $S/.base_head ] || [ "$(cat $S/.base_head)" != "$HEADNOW" ]; then
  rm -rf $S; rsync -a --exclude _build --exclude .git /repo/ $S/
  cmake -G Ninja -S $S -B $S/_build >/dev/null 2>&1 && cmake --build $S/_build -j12 >/dev/null 2>&1 || { echo "clean build failed"; exit 2; }
  tests > /tmp/sv_base.tests.txt; echo $HEADNOW > $S/.base_head
fi
( cd $OUT && sh ./run_demo.sh $S ) > /tmp/hl_${NAME}_demo_before.txt 2>&1; D0=$?
( cd $S && patch -p1 -s --no-backup-if-mismatch < $OUT/patch.diff ) || { echo "patch does not apply"; exit 2; }
cmake --build $S/_build -j12 >/dev/null 2>&1 || { echo "patched build failed"; ( cd $S && patch -R -p1 -s < $OUT/patch.diff ); exit 2; }
tests > /tmp/hl_${NAME}_after.txt
( cd $OUT && sh ./run_demo.sh $S ) > /tmp/hl_${NAME}_demo_after.txt 2>&1; D1=$?
( cd $S && patch -R -p1 -s --no-backup-if-mismatch < $OUT/patch.diff; for f in $(grep '^+++ ' $OUT/patch.diff | sed 's|^+++ [ab]/||; s|\t.*||'); do touch $f; done )
cmake --build $S/_build -j12 >/dev/null 2>&1
if cmp -s /tmp/sv_base.tests.txt /tmp/hl_${NAME}_after.txt; then T=same; else T=DIFFERENT; fi
echo "unit tests: $T; demo (property holds) unchanged tree exit=$D0, patched exit=$D1"
ALARMS=""
for ID in "$@"; do
  cd /verif && harness/mutcheck.sh $ID $OUT/patch.diff > /tmp/hl_${NAME}_$ID.txt 2>&1
  tail -2 /tmp/hl_${NAME}_$ID.txt | cut -c1-200
  grep -q "^VIOLATION" /tmp/hl_${NAME}_$ID.txt && ALARMS="$ALARMS $ID"
done
mkdir -p /verif/seeded/harmless_$NAME
cp $OUT/patch.diff /verif/seeded/harmless_$NAME/; cp $OUT/demo.cc $OUT/run_demo.sh /verif/seeded/harmless_$NAME/ 2>/dev/null; cp $OUT/notes.md /verif/seeded/harmless_$NAME/author_notes.md 2>/dev/null
python3 - "$NAME" "$T" "$D0" "$D1" "$ALARMS" "$*" <<'PY'
import json, sys
name, t, d0, d1, alarms, ids = sys.argv[1:]
meta = {"kind": "harmless change (the property keeps holding; no check may raise an alarm)", "id": "harmless_" + name,
        "confirmed": {"unit_tests_identical_with_and_without_change": t == "same", "demo_exit_unchanged_tree": int(d0), "demo_exit_with_change": int(d1)},
        "checks_run_against_it": ids.split(), "false_alarms": alarms.split(),
        "what_was_run": ["harness/harmlesscheck.sh %s: scratch copy, per-case unit tests, run_demo.sh before/after, harness/mutcheck.sh <ID> patch.diff for each listed check" % name]}
json.dump(meta, open('/verif/seeded/harmless_%s/meta.json' % name, 'w'), indent=1)
print("harmless_%s: false alarms: %s" % (name, alarms or "none"))
PY
