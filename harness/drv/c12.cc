// C12 driver: op sequences on one ExplicitTreeAut through the public facade, read-only views printed as
// sorted multisets (duplicates and omissions both visible).
// case:   c12 <n> { A s p k c.. | T s p k c.. | F q | G n q.. | E | C | R nd d.. np {s p k c..} }
//         A = AddTransition(children,symbol,parent), T = AddTransition(Transition), F = SetStateFinal,
//         G = SetStatesFinal, E = EraseFinalStates, C = Clear, R = read all views;
//         bystander: Y = (re)make a copy of the automaton, Z s p k c.. = AddTransition on the copy, H q = SetStateFinal on the copy,
//         W = AreTransitionsEmpty on both (nothing done to the copy may show in the views of the automaton)
// output: per R:  R I <n> {s p k c..} F <n> q.. A <n> {rules} U <n> q.. E <0|1> D <nd> { q <empty> <n> {rules} }
//                 S <nd> bits  K <np> bits  V <np> bits
#include "common.hh"
#include "cont_watchdog.hh"
using namespace vd;
typedef VATA::ExplicitTreeAut Aut;

static Rule readRule(Toks& t) { Rule r; r.sym = t.num(); r.par = t.num(); U k = t.num(); for (U j = 0; j < k; ++j) r.ch.push_back(t.num()); return r; }
static Rule ofTrans(const Aut::Transition& tr) { Rule r; r.sym = tr.GetSymbol(); r.par = tr.GetParent(); for (auto c : tr.GetChildren()) r.ch.push_back(c); return r; }
static void showRules(std::ostream& os, std::vector<Rule> v) {
	std::sort(v.begin(), v.end());
	os << ' ' << v.size();
	for (const Rule& r : v) { os << ' ' << r.sym << ' ' << r.par << ' ' << r.ch.size(); for (U c : r.ch) os << ' ' << c; }
}
static void showNums(std::ostream& os, std::vector<U> v) { std::sort(v.begin(), v.end()); os << ' ' << v.size(); for (U x : v) os << ' ' << x; }

int main() {
	std::string line;
	while (std::getline(std::cin, line)) {
		guarded([&]() {
			Watchdog wd;
			Toks t(line); t.expect("c12"); U n = t.num();
			Aut aut;
			std::unique_ptr<Aut> by;     // a bystander: a copy of the automaton that is modified on its own; nothing done to it may show in aut's views
			std::ostringstream os;
			bool first = true;
			for (U i = 0; i < n; ++i) {
				std::string w = t.word();
				if (w == "A") { Rule r = readRule(t); Aut::StateTuple tup(r.ch.begin(), r.ch.end()); aut.AddTransition(tup, r.sym, r.par); }
				else if (w == "T") { Rule r = readRule(t); Aut::StateTuple tup(r.ch.begin(), r.ch.end()); aut.AddTransition(Aut::Transition(r.par, r.sym, tup)); }
				else if (w == "F") { aut.SetStateFinal(t.num()); }
				else if (w == "G") { U k = t.num(); std::set<Aut::StateType> s; for (U j = 0; j < k; ++j) s.insert(t.num()); aut.SetStatesFinal(s); }
				else if (w == "Y") { by.reset(new Aut(aut)); }
				else if (w == "Z") { Rule r = readRule(t); Aut::StateTuple tup(r.ch.begin(), r.ch.end()); if (by) by->AddTransition(tup, r.sym, r.par); }
				else if (w == "H") { U q = t.num(); if (by) by->SetStateFinal(q); }
				else if (w == "W") { (void) aut.AreTransitionsEmpty(); if (by) (void) by->AreTransitionsEmpty(); }
				else if (w == "E") { aut.EraseFinalStates(); }
				else if (w == "C") { aut.Clear(); }
				else if (w == "R") {
					U nd = t.num(); std::vector<U> ds; for (U j = 0; j < nd; ++j) ds.push_back(t.num());
					U np = t.num(); std::vector<Rule> ps; for (U j = 0; j < np; ++j) ps.push_back(readRule(t));
					const Aut& caut = aut;
					if (!first) os << ' '; first = false;
					os << "R I"; { std::vector<Rule> v; for (auto it = caut.begin(); it != caut.end() && v.size() < ITER_CAP; ++it) v.push_back(ofTrans(*it)); showRules(os, v); }
					os << " F"; { std::vector<U> v; for (auto f : caut.GetFinalStates()) v.push_back(f); showNums(os, v); }
					os << " A"; { std::vector<Rule> v; auto acc = caut.GetAcceptTrans(); for (auto it = acc.begin(); it != acc.end() && v.size() < ITER_CAP; ++it) v.push_back(ofTrans(*it)); showRules(os, v); }
					os << " U"; { std::vector<U> v; for (auto s : caut.GetUsedStates()) v.push_back(s); showNums(os, v); }
					os << " E " << (aut.AreTransitionsEmpty() ? 1 : 0);
					os << " D " << nd;
					for (U d : ds) { auto acc = caut[d]; std::vector<Rule> v; for (auto it = acc.begin(); it != acc.end() && v.size() < ITER_CAP; ++it) v.push_back(ofTrans(*it)); os << ' ' << d << ' ' << (acc.empty() ? 1 : 0); showRules(os, v); }
					os << " S " << nd; for (U d : ds) os << ' ' << (caut.IsStateFinal(d) ? 1 : 0);
					os << " K " << np; for (const Rule& r : ps) { Aut::StateTuple tup(r.ch.begin(), r.ch.end()); os << ' ' << (caut.ContainsTransition(tup, r.sym, r.par) ? 1 : 0); }
					os << " V " << np; for (const Rule& r : ps) { Aut::StateTuple tup(r.ch.begin(), r.ch.end()); os << ' ' << (caut.ContainsTransition(Aut::Transition(r.par, r.sym, tup)) ? 1 : 0); }
				}
				else throw std::runtime_error("driver: unknown step " + w);
			}
			if (first) os << "NOREAD";
			return os.str();
		});
	}
	return 0;
}
