// C17 driver: builds an operation tree of MTBDDs (every op creates handle number = its position) in the
// process-wide node store, then observes every handle.
// case:   c17 <u|s> <NV> { K v | C asgn v d | Y a | A a b | U f a | B f a b | T f a b c | P f mask a | R r0..r(NV-1) a
//                          | E asgn off a | X asgn off a }*
// output: V <values on all 3^NV assignments, one word per handle> EQ <n*n matrix of operator==, row major>
//         P <GetPaths per handle: asgn:value,...> W <leaf sets seen by VoidApply1 per handle, as masks over values>
//         W2 <value pairs seen by VoidApply2 on handles (i,i+1), hex-free list a*8+b joined by '.'>
//         WR <the same seen by ONE re-used VoidApply2 functor, each traversal preceded by one it cut short with stopProcessing()>
#include "mtbdd_common.hh"
using namespace vd;
using namespace vm;

template <class D> std::string runCase(Toks& t) {
	typedef OndriksMTBDD<typename D::T> M;
	unsigned nv = (unsigned) t.num();
	std::vector<std::unique_ptr<M>> hs;
	// the apply functors live as long as the case: their internal caches are re-used across applications
	std::map<unsigned, std::unique_ptr<F1<D>>> f1s; std::map<unsigned, std::unique_ptr<F2<D>>> f2s; std::map<unsigned, std::unique_ptr<F3<D>>> f3s;
	while (!t.done()) {
		std::string w = t.word();
		if (w == "K") { unsigned v = t.num(); hs.emplace_back(new M(D::dec(v))); }
		else if (w == "C") { std::string a = t.word(); unsigned v = t.num(), d = t.num(); hs.emplace_back(new M(mkAsgn(a), D::dec(v), D::dec(d))); }
		else if (w == "Y") { unsigned a = t.num(); hs.emplace_back(new M(*hs.at(a))); }
		else if (w == "A") { unsigned a = t.num(), b = t.num(); std::unique_ptr<M> x(new M(*hs.at(a))); *x = *hs.at(b); hs.push_back(std::move(x)); }     // copy of a, then copy-assigned from b
		else if (w == "U") { unsigned f = t.num(), a = t.num(); if (!f1s.count(f)) f1s[f].reset(new F1<D>(f)); F1<D>& fn = *f1s[f]; hs.emplace_back(new M(fn(*hs.at(a)))); }
		else if (w == "B") { unsigned f = t.num(), a = t.num(), b = t.num(); if (!f2s.count(f)) f2s[f].reset(new F2<D>(f)); F2<D>& fn = *f2s[f]; hs.emplace_back(new M(fn(*hs.at(a), *hs.at(b)))); }
		else if (w == "T") { unsigned f = t.num(), a = t.num(), b = t.num(), c = t.num(); if (!f3s.count(f)) f3s[f].reset(new F3<D>(f)); F3<D>& fn = *f3s[f]; hs.emplace_back(new M(fn(*hs.at(a), *hs.at(b), *hs.at(c)))); }
		else if (w == "P") { unsigned f = t.num(), mask = t.num(), a = t.num(); F2<D> fn(f);
			hs.emplace_back(new M(hs.at(a)->Project([mask](size_t var) { return ((mask >> var) & 1u) != 0; }, fn))); }
		else if (w == "R") { std::vector<size_t> r; for (unsigned i = 0; i < nv; ++i) r.push_back(t.num()); unsigned a = t.num();
			hs.emplace_back(new M(hs.at(a)->Rename([&r](size_t var) { return r.at(var); }))); }
		else if (w == "E") { std::string as = t.word(); size_t off = t.num(); unsigned a = t.num(); hs.emplace_back(new M(hs.at(a)->ExtendWith(mkAsgn(as), off))); }
		else if (w == "X") { std::string as = t.word(); size_t off = t.num(); unsigned a = t.num(); hs.emplace_back(new M(hs.at(a)->GetMtbddForPrefix(mkAsgn(as), off))); }
		else throw std::runtime_error("driver: unknown op " + w);
	}
	std::ostringstream os;
	os << "V";
	for (auto& h : hs) os << ' ' << valuesOf<D>(*h, nv, 3);
	os << " EQ ";
	for (auto& a : hs) for (auto& b : hs) os << ((*a == *b) ? '1' : '0');
	if (hs.empty()) os << '-';
	os << " P";
	for (auto& h : hs) {
		auto paths = h->GetPaths(); os << ' ';
		bool first = true;
		for (auto& p : paths) { std::string s = p.first.ToString(); os << (first ? "" : ",") << (s.empty() ? "-" : s) << ':' << D::enc(p.second); first = false; }
	}
	os << " W";
	for (auto& h : hs) { W1<D> w1; w1(*h); unsigned m = 0; for (unsigned v : w1.seen) m |= (1u << v); os << ' ' << m; }
	os << " W2";
	for (size_t i = 0; i + 1 < hs.size(); ++i) { W2<D> w2; w2(*hs[i], *hs[i + 1]); os << ' '; bool first = true; for (unsigned p : w2.seen) { os << (first ? "" : ".") << p; first = false; } }
	os << " WR";
	{	W2R<D> wr;
		for (size_t i = 0; i + 1 < hs.size(); ++i) {
			wr.seen.clear(); wr.calls = 0; wr.stopAt = (i + 1) % 4; wr(*hs[i], *hs[i + 1]);        // a traversal cut short after 1, 2, 3 leaf pairs (or not at all)
			wr.seen.clear(); wr.calls = 0; wr.stopAt = 0; wr(*hs[i], *hs[i + 1]);                   // the next traversal with the same object: complete
			os << ' '; bool first = true; for (unsigned p : wr.seen) { os << (first ? "" : ".") << p; first = false; }
			if (wr.seen.empty()) os << '-';
		}
	}
	return os.str();
}

int main() {
	return runIsolated([](const std::string& line) -> std::string {
		Toks t(line); t.expect("c17"); std::string dom = t.word();
		if (dom == "u") return runCase<DomU>(t);
		if (dom == "s") return runCase<DomS>(t);
		throw std::runtime_error("driver: unknown domain " + dom);
	});
}
