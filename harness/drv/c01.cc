// C01 driver: the 8 implemented inclusion selections of the explicit tree encoding, following the protocol
// of cli/operations.hh (sanitize; with simulation: UnionDisjointStates, ComputeSimulation(n), SetSimulation).
// case:   incl <T A> <T B>
// output: V v0..v7 S <T sanA> <T sanB> <n>      v = 0 | 1 | E<class>
//   order: up-nosim up-sim down-nonrec-nosim down-nonrec-sim down-rec-nosim down-rec-opt-nosim down-rec-sim down-rec-opt-sim
#include "common.hh"
#include <vata/incl_param.hh>
#include <vata/sim_param.hh>
using namespace vd;
typedef VATA::ExplicitTreeAut Aut;
typedef VATA::InclParam IP;

static std::string one(const Aut& a0, const Aut& b0, bool down, bool rec, bool opt, bool sim) {
	try {
		Aut smaller = a0, bigger = b0;
		IP ip;
		ip.SetAlgorithm(IP::e_algorithm::antichains);
		ip.SetDirection(down ? IP::e_direction::downward : IP::e_direction::upward);
		ip.SetUseRecursion(rec);
		ip.SetUseDownwardCacheImpl(opt);
		ip.SetUseSimulation(sim);
		VATA::AutBase::StateType states = VATA::AutBase::SanitizeAutsForInclusion(smaller, bigger);
		VATA::AutBase::StateDiscontBinaryRelation rel;
		if (sim) {
			Aut unionAut = Aut::UnionDisjointStates(smaller, bigger);
			VATA::SimParam sp;
			sp.SetRelation(down ? VATA::SimParam::e_sim_relation::TA_DOWNWARD : VATA::SimParam::e_sim_relation::TA_UPWARD);
			sp.SetNumStates(states);
			rel = unionAut.ComputeSimulation(sp);
			ip.SetSimulation(&rel);
		}
		return Aut::CheckInclusion(smaller, bigger, ip) ? "1" : "0";
	}
	catch (const VATA::NotImplementedException&) { return "ENotImplemented"; }
	catch (const std::exception&) { return "Estd"; }
	catch (...) { return "Enonstd"; }
}

static int LIMIT_MS = 2000;     // per-case limit; a selection that exceeds it is inconclusive ("T"), never a violation (speed is not a property)

int main() {
	if (const char* e = std::getenv("VERIF_CALL_LIMIT_MS")) LIMIT_MS = std::atoi(e);
	std::string line;
	while (std::getline(std::cin, line)) {
		guarded([&]() {
			Toks t(line); t.expect("incl"); TA a = readTA(t); TA b = readTA(t);
			Aut A = mkAut(a), B = mkAut(b);
			static const bool DOWN[8] = {0,0,1,1,1,1,1,1}, REC[8] = {0,0,0,0,1,1,1,1}, OPT[8] = {0,0,0,0,0,1,0,1}, SIM[8] = {0,1,0,1,0,0,1,1};
			std::ostringstream os; os << "V";
			std::string all = forked([&]() { std::ostringstream o; for (int s = 0; s < 8; ++s) o << ' ' << one(A, B, DOWN[s], REC[s], OPT[s], SIM[s]); return o.str(); }, LIMIT_MS);
			if (all == "@TIMEOUT" || all == "@CRASH" || all == "@EXC") {     // find out which selection it was
				for (int s = 0; s < 8; ++s) {
					std::string r = forked([&]() { return one(A, B, DOWN[s], REC[s], OPT[s], SIM[s]); }, LIMIT_MS);
					os << ' ' << (r == "@TIMEOUT" ? "T" : r == "@CRASH" ? "Ecrash" : r == "@EXC" ? "Enonstd" : r);
				}
			} else os << all;
			Aut sa = A, sb = B;
			VATA::AutBase::StateType n = VATA::AutBase::SanitizeAutsForInclusion(sa, sb);
			os << " S " << showTA(obsAut(sa)) << ' ' << showTA(obsAut(sb)) << ' ' << n;
			os << " I " << showTA(obsAut(A)) << ' ' << showTA(obsAut(B));
			return os.str();
		});
	}
	return 0;
}
