// C01 driver: the 8 implemented inclusion selections of the explicit tree encoding, following the protocol
// of cli/operations.hh (sanitize; with simulation: UnionDisjointStates, ComputeSimulation(n), SetSimulation).
// case:   incl <T A> <T B>
// output: V v0..v7 R r0 r2 r4 r5 Q q1 q3 q6 q7 S <T sanA> <T sanB> <n>      v = 0 | 1 | E<class>;  R = the selections without simulation called on the
//         operands as the caller has them (no preparation by the caller). Operands with the same rule list are built as two copies of one
//         automaton (shared transition table) with their own final states.
//   order: up-nosim up-sim down-nonrec-nosim down-nonrec-sim down-rec-nosim down-rec-opt-nosim down-rec-sim down-rec-opt-sim
#include "common.hh"
#include <vata/incl_param.hh>
#include <vata/sim_param.hh>
using namespace vd;
typedef VATA::ExplicitTreeAut Aut;
typedef VATA::InclParam IP;

// raw = the library is called on the caller's operands as they are (allowed without simulation: CheckInclusion prepares copies itself)
static std::string one(const Aut& a0, const Aut& b0, bool down, bool rec, bool opt, bool sim, bool raw = false) {
	try {
		Aut smaller = a0, bigger = b0;
		IP ip;
		ip.SetAlgorithm(IP::e_algorithm::antichains);
		ip.SetDirection(down ? IP::e_direction::downward : IP::e_direction::upward);
		ip.SetUseRecursion(rec);
		ip.SetUseDownwardCacheImpl(opt);
		ip.SetUseSimulation(sim);
		if (raw && !sim) return Aut::CheckInclusion(a0, b0, ip) ? "1" : "0";
		VATA::AutBase::StateType states = VATA::AutBase::SanitizeAutsForInclusion(smaller, bigger);
		VATA::AutBase::StateDiscontBinaryRelation rel;
		if (sim) {
			Aut unionAut = Aut::UnionDisjointStates(smaller, bigger);
			VATA::SimParam sp;
			sp.SetRelation(down ? VATA::SimParam::e_sim_relation::TA_DOWNWARD : VATA::SimParam::e_sim_relation::TA_UPWARD);
			sp.SetNumStates(states);
			rel = unionAut.ComputeSimulation(sp);
			ip.SetSimulation(&rel);
		}
		return Aut::CheckInclusion(smaller, bigger, ip) ? "1" : "0";
	}
	catch (const VATA::NotImplementedException&) { return "ENotImplemented"; }
	catch (const std::exception&) { return "Estd"; }
	catch (...) { return "Enonstd"; }
}

// the DOWNWARD selections with simulation on operands that are only renumbered disjointly (ReindexStates), NOT trimmed: useless and rule-less states
// reach the checkers. The verdicts are reported (drift); what matters is that nothing is read out of bounds (C20 runs this driver under the sanitizers).
static std::string oneUntrimmed(const Aut& a0, const Aut& b0, bool down, bool rec, bool opt) {
	try {
		VATA::AutBase::StateType cnt = 0;
		VATA::AutBase::StateToStateMap m1, m2;
		VATA::AutBase::StateToStateTranslWeak t1(m1, [&cnt](const VATA::AutBase::StateType&) { return cnt++; });
		Aut smaller = a0.ReindexStates(t1);
		VATA::AutBase::StateToStateTranslWeak t2(m2, [&cnt](const VATA::AutBase::StateType&) { return cnt++; });
		Aut bigger = b0.ReindexStates(t2);
		IP ip; ip.SetAlgorithm(IP::e_algorithm::antichains);
		ip.SetDirection(down ? IP::e_direction::downward : IP::e_direction::upward);
		ip.SetUseRecursion(rec); ip.SetUseDownwardCacheImpl(opt); ip.SetUseSimulation(true);
		Aut unionAut = Aut::UnionDisjointStates(smaller, bigger);
		VATA::SimParam sp;
		sp.SetRelation(down ? VATA::SimParam::e_sim_relation::TA_DOWNWARD : VATA::SimParam::e_sim_relation::TA_UPWARD);
		sp.SetNumStates(cnt);
		VATA::AutBase::StateDiscontBinaryRelation rel = unionAut.ComputeSimulation(sp);
		ip.SetSimulation(&rel);
		return Aut::CheckInclusion(smaller, bigger, ip) ? "1" : "0";
	}
	catch (const VATA::NotImplementedException&) { return "ENotImplemented"; }
	catch (const std::exception&) { return "Estd"; }
	catch (...) { return "Enonstd"; }
}

static int LIMIT_MS = 2000;     // per-case limit; a selection that exceeds it is inconclusive ("T"), never a violation (speed is not a property)

int main() {
	if (const char* e = std::getenv("VERIF_CALL_LIMIT_MS")) LIMIT_MS = std::atoi(e);
	std::string line;
	while (std::getline(std::cin, line)) {
		guarded([&]() {
			Toks t(line); t.expect("incl"); TA a = readTA(t); TA b = readTA(t);
			Aut A, B;
			if (!a.rules.empty() && !(a.rules < b.rules) && !(b.rules < a.rules)) {
				// same rule list: the operands are produced as an application would, as two copies of one automaton that differ in their
				// final states only (copies share the copy-on-write transition table)
				TA base; base.rules = a.rules; Aut M = mkAut(base);
				A = Aut(M, true, false); for (U f : a.finals) A.SetStateFinal(f);
				B = Aut(M, true, false); for (U f : b.finals) B.SetStateFinal(f);
			} else { A = mkAut(a); B = mkAut(b); }
			static const bool DOWN[8] = {0,0,1,1,1,1,1,1}, REC[8] = {0,0,0,0,1,1,1,1}, OPT[8] = {0,0,0,0,0,1,0,1}, SIM[8] = {0,1,0,1,0,0,1,1};
			std::ostringstream os; os << "V";
			static const int NOSIM[4] = {0, 2, 4, 5}, WSIM[4] = {1, 3, 6, 7};
			std::string all = forked([&]() { std::ostringstream o; for (int s = 0; s < 8; ++s) o << ' ' << one(A, B, DOWN[s], REC[s], OPT[s], SIM[s]);
				o << " R"; for (int k = 0; k < 4; ++k) { int s = NOSIM[k]; o << ' ' << one(A, B, DOWN[s], REC[s], OPT[s], false, true); }
				o << " Q -"; for (int k = 1; k < 4; ++k) { int s = WSIM[k]; o << ' ' << oneUntrimmed(A, B, DOWN[s], REC[s], OPT[s]); } return o.str(); }, LIMIT_MS);
			if (all == "@TIMEOUT" || all == "@CRASH" || all == "@EXC") {     // find out which selection it was
				for (int s = 0; s < 8; ++s) {
					std::string r = forked([&]() { return one(A, B, DOWN[s], REC[s], OPT[s], SIM[s]); }, LIMIT_MS);
					os << ' ' << (r == "@TIMEOUT" ? "T" : r == "@CRASH" ? "Ecrash" : r == "@EXC" ? "Enonstd" : r);
				}
				os << " R";
				for (int k = 0; k < 4; ++k) {
					int s = NOSIM[k];
					std::string r = forked([&]() { return one(A, B, DOWN[s], REC[s], OPT[s], false, true); }, LIMIT_MS);
					os << ' ' << (r == "@TIMEOUT" ? "T" : r == "@CRASH" ? "Ecrash" : r == "@EXC" ? "Enonstd" : r);
				}
				os << " Q -";
				for (int k = 1; k < 4; ++k) {       // downward selections only: the upward simulation is defined for trimmed automata only
					int s = WSIM[k];
					std::string r = forked([&]() { return oneUntrimmed(A, B, DOWN[s], REC[s], OPT[s]); }, LIMIT_MS);
					os << ' ' << (r == "@TIMEOUT" ? "T" : r == "@CRASH" ? "Ecrash" : r == "@EXC" ? "Enonstd" : r);
				}
			} else os << all;
			Aut sa = A, sb = B;
			VATA::AutBase::StateType n = VATA::AutBase::SanitizeAutsForInclusion(sa, sb);
			os << " S " << showTA(obsAut(sa)) << ' ' << showTA(obsAut(sb)) << ' ' << n;
			os << " I " << showTA(obsAut(A)) << ' ' << showTA(obsAut(B));
			return os.str();
		});
	}
	return 0;
}
