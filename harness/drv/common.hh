// Shared glue for the correspondence drivers: numeric case-line format, canonical printing,
// exception classification. No decisions are taken here.
//
// tree automaton   T <nf> f1..fnf <nr> { <sym> <par> <k> c1..ck }*
// word automaton   W <ns> s1.. <nf> f1.. <ne> { <src> <sym> <dst> }*
#ifndef VERIF_DRV_COMMON_HH
#define VERIF_DRV_COMMON_HH

#include <vata/explicit_tree_aut.hh>
#include <vata/notimpl_except.hh>

#include <algorithm>
#include <cstdio>
#include <cstdlib>
#include <iostream>
#include <set>
#include <sstream>
#include <string>
#include <vector>

namespace vd {

typedef unsigned long long U;

struct Toks {
	std::vector<std::string> v; size_t i = 0;
	explicit Toks(const std::string& line) { std::istringstream is(line); std::string t; while (is >> t) v.push_back(t); }
	bool done() const { return i >= v.size(); }
	std::string word() { if (done()) throw std::runtime_error("driver: case line too short"); return v[i++]; }
	U num() { return std::strtoull(word().c_str(), nullptr, 10); }
	void expect(const char* w) { std::string g = word(); if (g != w) throw std::runtime_error(std::string("driver: expected ") + w + " got " + g); }
};

struct Rule { U sym, par; std::vector<U> ch;
	bool operator<(const Rule& o) const { if (sym != o.sym) return sym < o.sym; if (par != o.par) return par < o.par; return ch < o.ch; } };
struct TA { std::vector<U> finals; std::vector<Rule> rules; };

inline TA readTA(Toks& t) {
	TA a; t.expect("T");
	U nf = t.num(); for (U i = 0; i < nf; ++i) a.finals.push_back(t.num());
	U nr = t.num(); for (U i = 0; i < nr; ++i) { Rule r; r.sym = t.num(); r.par = t.num(); U k = t.num(); for (U j = 0; j < k; ++j) r.ch.push_back(t.num()); a.rules.push_back(r); }
	return a;
}

inline std::string showTA(const TA& a0) {
	TA a = a0; std::sort(a.finals.begin(), a.finals.end()); a.finals.erase(std::unique(a.finals.begin(), a.finals.end()), a.finals.end());
	std::sort(a.rules.begin(), a.rules.end());
	std::ostringstream os; os << "T " << a.finals.size(); for (U f : a.finals) os << ' ' << f;
	os << ' ' << a.rules.size();
	for (const Rule& r : a.rules) { os << ' ' << r.sym << ' ' << r.par << ' ' << r.ch.size(); for (U c : r.ch) os << ' ' << c; }
	return os.str();
}

// rules are added in the order given (insertion order is part of the case)
inline VATA::ExplicitTreeAut mkAut(const TA& a) {
	VATA::ExplicitTreeAut aut;
	for (const Rule& r : a.rules) { VATA::ExplicitTreeAut::StateTuple tup(r.ch.begin(), r.ch.end()); aut.AddTransition(tup, r.sym, r.par); }
	for (U f : a.finals) aut.SetStateFinal(f);
	return aut;
}

// observation by iteration (symbol codes), never through the alphabet
inline TA obsAut(const VATA::ExplicitTreeAut& aut) {
	TA a;
	for (auto f : aut.GetFinalStates()) a.finals.push_back(f);
	for (auto tr : aut) { Rule r; r.sym = tr.GetSymbol(); r.par = tr.GetParent(); for (auto c : tr.GetChildren()) r.ch.push_back(c); a.rules.push_back(r); }
	return a;
}

// run one case; every outcome becomes exactly one output line
template <class F> void guarded(F f) {
	std::string out;
	try { out = f(); }
	catch (const VATA::NotImplementedException& e) { out = "EXC NotImplemented"; }
	catch (const std::out_of_range& e) { out = "EXC out_of_range"; }
	catch (const std::runtime_error& e) { out = "EXC runtime_error"; }
	catch (const std::exception& e) { out = "EXC std_exception"; }
	catch (...) { out = "EXC non_std"; }
	std::cout << out << "\n" << std::flush;
}

// run f in a forked child under a time limit; returns the child's string, or "@TIMEOUT" / "@CRASH"
} // namespace vd
#include <poll.h>
#include <signal.h>
#include <sys/wait.h>
#include <unistd.h>
namespace vd {
template <class F> std::string forked(F f, int limit_ms) {
	int fd[2]; if (pipe(fd) != 0) return "@CRASH";
	std::cout.flush();
	pid_t pid = fork();
	if (pid < 0) { close(fd[0]); close(fd[1]); return "@CRASH"; }
	if (pid == 0) {
		close(fd[0]); std::string out;
		try { out = f(); } catch (...) { out = "@EXC"; }
		size_t off = 0; while (off < out.size()) { ssize_t w = write(fd[1], out.data() + off, out.size() - off); if (w <= 0) break; off += (size_t)w; }
		_exit(0);
	}
	close(fd[1]);
	std::string res; bool timeout = false;
	for (;;) {
		struct pollfd p; p.fd = fd[0]; p.events = POLLIN;
		int r = poll(&p, 1, limit_ms);
		if (r <= 0) { timeout = true; break; }
		char buf[4096]; ssize_t k = read(fd[0], buf, sizeof buf);
		if (k <= 0) break;
		res.append(buf, (size_t)k);
	}
	if (timeout) kill(pid, SIGKILL);
	close(fd[0]); int st = 0; waitpid(pid, &st, 0);
	if (timeout) return "@TIMEOUT";
	if (!WIFEXITED(st) || WEXITSTATUS(st) != 0) return "@CRASH";
	return res;
}
} // namespace vd
#endif
