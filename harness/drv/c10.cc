// C10 driver: Union, UnionDisjointStates, Intersection, Reverse, RemoveUnreachableStates,
// RemoveUselessStates, GetCandidateTree of ExplicitFiniteAut on one pair of operands per case.
// case:   ops <L|F> <W A> <W B>
// output: U <W> MA <k> {x y}* MB <k> {x y}* dU <W|EXC>     Union(A,B) with both translation maps
//         D <W> dD <W|EXC>                                  UnionDisjointStates(A,B)
//         X <W> PM <k> {p q r}* dX <W|EXC>                  Intersection(A,B) with the product map
//         V <W> dV <W|EXC>                                  A.Reverse()
//         N <W> dN <W|EXC>                                  A.RemoveUnreachableStates()
//         L <W> dL <W|EXC>                                  A.RemoveUselessStates()
//         NM <W> LM <W> VM <W>                              RemoveUnreachableStates / RemoveUselessStates / Reverse with the optional translation map (one map re-used)
//         C <W> dC <W|EXC>                                  A.GetCandidateTree()
//         K <W>*10                                          composed operations (see below), read through the object
//         I <W> <W>                                         the operands re-read after all calls
// <W> after an operation letter is the result read through the object (start states: public
// GetStartStates; finals/edges: the core); d? is the same result as printed by the public
// DumpToString and parsed back.
#include "nfa_common.hh"
#include <unistd.h>
using namespace vd;

static void showMap(std::ostringstream& os, const char* tag, const VATA::AutBase::StateToStateMap& m) {
	std::vector<std::pair<U, U>> v(m.begin(), m.end()); std::sort(v.begin(), v.end());
	os << ' ' << tag << ' ' << v.size(); for (auto& p : v) os << ' ' << p.first << ' ' << p.second;
}

int main() {
	std::string line;
	while (std::getline(std::cin, line)) {
		alarm(20);   // watchdog: a case that does not return kills the driver (SIGALRM), reported as a hang of this case
		guarded([&]() {
			Toks t(line); t.expect("ops"); char mode = t.word()[0];
			NFA na = readW(t), nb = readW(t);
			FA a, b; mkPair(na, nb, mode, a, b);      // operands over one edge list: two copies of one automaton (shared table)
			std::ostringstream os;
			{
				VATA::AutBase::StateToStateMap ma, mb;
				FA u = FA::Union(a, b, &ma, &mb);
				os << "U " << showW(obsNfa(u)); showMap(os, "MA", ma); showMap(os, "MB", mb);
				os << " dU " << dumpObs(u);
			}
			{
				FA d = FA::UnionDisjointStates(a, b);
				os << " D " << showW(obsNfa(d)) << " dD " << dumpObs(d);
			}
			{
				VATA::AutBase::ProductTranslMap pm;
				FA x = FA::Intersection(a, b, &pm);
				os << " X " << showW(obsNfa(x));
				std::vector<std::vector<U>> v;
				for (auto& p : pm) v.push_back({(U)p.first.first, (U)p.first.second, (U)p.second});
				std::sort(v.begin(), v.end());
				os << " PM " << v.size(); for (auto& r : v) os << ' ' << r[0] << ' ' << r[1] << ' ' << r[2];
				os << " dX " << dumpObs(x);
			}
			FA v = a.Reverse(); os << " V " << showW(obsNfa(v)) << " dV " << dumpObs(v);
			{ FA n = a.RemoveUnreachableStates(); os << " N " << showW(obsNfa(n)) << " dN " << dumpObs(n); }
			FA l = a.RemoveUselessStates(); os << " L " << showW(obsNfa(l)) << " dL " << dumpObs(l);
			{	// the same operations with the optional translation map (one map handed to all three calls: a caller re-using its map)
				VATA::AutBase::StateToStateMap tm;
				FA nm = a.RemoveUnreachableStates(&tm); FA lm = a.RemoveUselessStates(&tm); FA vm = a.Reverse(&tm);
				os << " NM " << showW(obsNfa(nm)) << " LM " << showW(obsNfa(lm)) << " VM " << showW(obsNfa(vm));
			}
			FA c = a.GetCandidateTree(); os << " C " << showW(obsNfa(c)) << " dC " << dumpObs(c);
			{	// composed operations: results of one operation as operands of the next (multi-step sequences)
				FA x = FA::Intersection(a, b); FA vb = b.Reverse();
				os << " K " << showW(obsNfa(x)) << ' ' << showW(obsNfa(vb));
				os << ' ' << showW(obsNfa(FA::Union(v, b)));                 // Union(Reverse(A), B)
				os << ' ' << showW(obsNfa(FA::Union(b, l)));                 // Union(B, RemoveUselessStates(A))
				os << ' ' << showW(obsNfa(FA::Union(x, b)));                 // Union(Intersection(A,B), B)
				os << ' ' << showW(obsNfa(FA::Union(c, b)));                 // Union(GetCandidateTree(A), B)
				os << ' ' << showW(obsNfa(FA::Intersection(v, vb)));         // Intersection(Reverse(A), Reverse(B))
				os << ' ' << showW(obsNfa(v.Reverse()));                     // Reverse(Reverse(A))
				os << ' ' << showW(obsNfa(l.Reverse()));                     // Reverse(RemoveUselessStates(A))
				os << ' ' << showW(obsNfa(FA::Union(v, vb).RemoveUselessStates()));   // RemoveUselessStates(Union(Reverse(A), Reverse(B)))
			}
			os << " I " << showW(obsNfa(a)) << ' ' << showW(obsNfa(b));
			return os.str();
		});
	}
	return 0;
}
