// C15 driver: GetCandidateTree.   case: cand <T A>    output: R <T result> I <T operand afterwards>
#include "common.hh"
using namespace vd;
int main() {
	std::string line;
	while (std::getline(std::cin, line)) {
		guarded([&]() {
			Toks t(line); t.expect("cand"); TA a = readTA(t);
			VATA::ExplicitTreeAut aut = mkAut(a);
			VATA::ExplicitTreeAut r = aut.GetCandidateTree();
			std::ostringstream os;
			os << "R " << showTA(obsAut(r)) << " I " << showTA(obsAut(aut));
			return os.str();
		});
	}
	return 0;
}
