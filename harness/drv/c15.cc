// C15 driver: GetCandidateTree.   case: cand <T A>    output: R <T result> I <T operand afterwards>
// history: candh <T A> { <mode> ... }*   after the call on the first automaton every stage derives a further object and the call is repeated on it:
//          0 <nf> f..  selective copy (transitions, not final states) of the current object + the given final states
//          1 <nf> f..  the current object itself after EraseFinalStates + the given final states
//          2 <nf> f..  selective copy of the last RESULT + the given final states
//          5 <sym> <par> <k> c..   the current object itself after AddTransition
//          output per stage:  V <T value of the object as read before the call> R <T> I <T>
#include "common.hh"
using namespace vd;
typedef VATA::ExplicitTreeAut Aut;
int main() {
	std::string line;
	while (std::getline(std::cin, line)) {
		guarded([&]() {
			Toks t(line); std::string kind = t.word(); TA a = readTA(t);
			if (kind != "cand" && kind != "candh") throw std::runtime_error("driver: unknown case kind");
			std::unique_ptr<Aut> cur(new Aut(mkAut(a)));
			std::ostringstream os;
			Aut r = cur->GetCandidateTree();
			os << "R " << showTA(obsAut(r)) << " I " << showTA(obsAut(*cur));
			while (kind == "candh" && !t.done()) {
				U mode = t.num();
				if (mode == 5) {
					U sym = t.num(), par = t.num(), k = t.num(); Aut::StateTuple tup; for (U i = 0; i < k; ++i) tup.push_back(t.num());
					cur->AddTransition(tup, sym, par);
				} else {
					U nf = t.num(); std::vector<U> fin; for (U i = 0; i < nf; ++i) fin.push_back(t.num());
					if (mode == 0) { std::unique_ptr<Aut> n(new Aut(*cur, true, false)); for (U f : fin) n->SetStateFinal(f); cur = std::move(n); }
					else if (mode == 1) { cur->EraseFinalStates(); for (U f : fin) cur->SetStateFinal(f); }
					else if (mode == 2) { std::unique_ptr<Aut> n(new Aut(r, true, false)); for (U f : fin) n->SetStateFinal(f); cur = std::move(n); }
					else throw std::runtime_error("driver: unknown mode");
				}
				os << " V " << showTA(obsAut(*cur));
				r = cur->GetCandidateTree();
				os << " R " << showTA(obsAut(r)) << " I " << showTA(obsAut(*cur));
			}
			return os.str();
		});
	}
	return 0;
}
