// C04 driver: ExplicitTreeAut::ComputeSimulation (TA_DOWNWARD / TA_UPWARD) with SetNumStates(n).
// case:   sim <down|up> <n> <nv> { H p0..p(n-1) <T...> }*      nv variants of one automaton: variant i is the image of
//         variant 0 under the renumbering p (H of variant 0 is the identity), rules in the insertion order given
// output: for every variant   V <npairs> { q r }*              all pairs q,r < n with get(q,r)
#include "common.hh"
#include <vata/sim_param.hh>
using namespace vd;

int main() {
	std::string line;
	while (std::getline(std::cin, line)) {
		guarded([&]() {
			Toks t(line); t.expect("sim"); std::string dir = t.word();
			if (dir != "down" && dir != "up") throw std::runtime_error("driver: unknown direction " + dir);
			U n = t.num(); U nv = t.num();
			std::ostringstream os;
			for (U v = 0; v < nv; ++v) {
				t.expect("H"); for (U i = 0; i < n; ++i) t.num();
				TA a = readTA(t);
				VATA::ExplicitTreeAut aut = mkAut(a);
				VATA::SimParam sp;
				sp.SetRelation(dir == "down" ? VATA::SimParam::e_sim_relation::TA_DOWNWARD : VATA::SimParam::e_sim_relation::TA_UPWARD);
				sp.SetNumStates(n);
				VATA::AutBase::StateDiscontBinaryRelation sim = aut.ComputeSimulation(sp);
				std::vector<std::pair<U, U>> ps;
				for (U q = 0; q < n; ++q) for (U r = 0; r < n; ++r) if (sim.get(q, r)) ps.push_back(std::make_pair(q, r));
				os << (v ? " " : "") << "V " << ps.size();
				for (auto& p : ps) os << ' ' << p.first << ' ' << p.second;
			}
			return os.str();
		});
	}
	return 0;
}
