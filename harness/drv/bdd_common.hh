// Glue for the BDD-encoded automata (C07, C08): load a numeric TA through Timbuk text with state names q<n> mapped to
// state number n and symbols s<code>:<rank>; read an automaton back through DumpToString + the Timbuk parser.
#ifndef VERIF_DRV_BDD_COMMON_HH
#define VERIF_DRV_BDD_COMMON_HH
#include "common.hh"
#include <vata/bdd_bu_tree_aut.hh>
#include <vata/bdd_td_tree_aut.hh>
#include <vata/parsing/timbuk_parser.hh>
#include <vata/serialization/timbuk_serializer.hh>
#include <vata/util/aut_description.hh>
#include <map>

namespace vd {

// symbol names carry a salt: the process-wide symbolic alphabet assigns codes in registration order, so varying the names over the
// cases of a run makes the MTBDD symbol encodings use many different bit patterns (numOf reads back the code before the 'x')
static unsigned long long g_salt = 0;
inline std::string timbukText(const TA& a) {
	std::map<U, U> rank; std::set<U> states(a.finals.begin(), a.finals.end());
	for (auto& r : a.rules) { rank[r.sym] = r.ch.size(); states.insert(r.par); states.insert(r.ch.begin(), r.ch.end()); }
	std::ostringstream os; os << "Ops";
	for (auto& kv : rank) os << " s" << kv.first << "x" << g_salt << ":" << kv.second;
	os << "\nAutomaton A\nStates";
	for (U q : states) os << " q" << q;
	os << "\nFinal States";
	for (U q : a.finals) os << " q" << q;
	os << "\nTransitions\n";
	for (auto& r : a.rules) {
		os << "s" << r.sym << "x" << g_salt;
		if (!r.ch.empty()) { os << "("; for (size_t i = 0; i < r.ch.size(); ++i) os << (i ? "," : "") << "q" << r.ch[i]; os << ")"; }
		os << " -> q" << r.par << "\n";
	}
	return os.str();
}

inline U numOf(const std::string& s) { size_t i = 0; while (i < s.size() && !isdigit((unsigned char)s[i])) ++i; return std::strtoull(s.c_str() + i, nullptr, 10); }

template <class Aut> Aut loadBdd(const TA& a) {
	VATA::Parsing::TimbukParser parser;
	Aut aut;
	VATA::AutBase::StateDict m;
	VATA::AutBase::StringToStateTranslWeak tr(m, [](const std::string& s) { return (VATA::AutBase::StateType)numOf(s); });
	aut.LoadFromString(parser, timbukText(a), tr);
	return aut;
}

template <class Aut> TA dumpBdd(const Aut& aut) {
	VATA::Serialization::TimbukSerializer ser; VATA::Parsing::TimbukParser parser;
	std::string txt = aut.DumpToString(ser);
	VATA::Util::AutDescription d = parser.ParseString(txt);
	TA a;
	for (auto& f : d.finalStates) a.finals.push_back(numOf(f));
	for (auto& t : d.transitions) { Rule r; r.sym = numOf(t.second); r.par = numOf(t.third); for (auto& c : t.first) r.ch.push_back(numOf(c)); a.rules.push_back(r); }
	return a;
}

} // namespace vd
#endif
