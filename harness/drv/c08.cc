// C08 driver: histories over a pool of BDD-encoded automata (one encoding per case).
// case:   (bu|td) <nsteps> [SALT n] [MAPS] { ; <op> }*      (MAPS: Union / Intersection called with the optional maps)   ops:
//   N k            k := empty automaton            L k <T>       k := fresh automaton loaded from Timbuk text
//   LI k <T>       load into the existing (empty) automaton k      C k j   k := copy of j
//   LA k <T>       load further rules / finals into the existing automaton k (adds to what is there; same state names)
//   F k idx        SetStateFinal(k, idx-th state (sorted, cyclic) occurring in k)        D k    destroy k
//   U k i j  Union      UD k i j  UnionDisjointStates      X k i j  Intersection
//   UR k i   RemoveUnreachableStates      UL k i   RemoveUselessStates
// output: R { | S <nh> {k <T>}* [TD <nh> {k <T>}*] [FQ q] }*        after every step every live handle is dumped
//         (bottom-up encoding: additionally the dump of GetTopDownAut() of every handle)
#include "bdd_common.hh"
#include <memory>
using namespace vd;

template <class Aut> struct Conv { static void td(std::ostream&, const std::map<U, std::unique_ptr<Aut>>&) {} };
template <> struct Conv<VATA::BDDBottomUpTreeAut> {
	static void td(std::ostream& os, const std::map<U, std::unique_ptr<VATA::BDDBottomUpTreeAut>>& pool) {
		os << " TD " << pool.size();
		for (auto& kv : pool) { VATA::BDDTopDownTreeAut t = kv.second->GetTopDownAut(); os << ' ' << kv.first << ' ' << showTA(dumpBdd(t)); }
	}
};

template <class Aut> std::string run(Toks& t) {
	std::map<U, std::unique_ptr<Aut>> pool;
	U n = t.num();
	g_salt = 0;
	if (t.v[t.i] == "SALT") { t.word(); g_salt = t.num(); }
	bool maps = false;      // MAPS: Union / Intersection are called with the optional translation / product maps
	if (t.v[t.i] == "MAPS") { t.word(); maps = true; }
	std::ostringstream os; os << "R";
	for (U s = 0; s < n; ++s) {
		t.expect(";");
		std::string op = t.word();
		long fq = -1;
		if (op == "N") { U k = t.num(); pool[k].reset(new Aut()); }
		else if (op == "L") { U k = t.num(); TA a = readTA(t); pool[k].reset(new Aut(loadBdd<Aut>(a))); }
		else if (op == "LI") {
			U k = t.num(); TA a = readTA(t);
			VATA::Parsing::TimbukParser parser; VATA::AutBase::StateDict m;
			VATA::AutBase::StringToStateTranslWeak tr(m, [](const std::string& s) { return (VATA::AutBase::StateType)numOf(s); });
			pool.at(k)->LoadFromString(parser, timbukText(a), tr);
		}
		else if (op == "LA") {     // load further rules into the (possibly non-empty, possibly table-sharing) automaton k
			U k = t.num(); TA a = readTA(t);
			VATA::Parsing::TimbukParser parser; VATA::AutBase::StateDict m;
			VATA::AutBase::StringToStateTranslWeak tr(m, [](const std::string& s) { return (VATA::AutBase::StateType)numOf(s); });
			pool.at(k)->LoadFromString(parser, timbukText(a), tr);
		}
		else if (op == "C") { U k = t.num(); U j = t.num(); pool[k].reset(new Aut(*pool.at(j))); }
		else if (op == "F") {
			U k = t.num(); U idx = t.num();
			TA d = dumpBdd(*pool.at(k)); std::set<U> st(d.finals.begin(), d.finals.end());
			for (auto& r : d.rules) { st.insert(r.par); st.insert(r.ch.begin(), r.ch.end()); }
			U q = idx;
			if (!st.empty()) { auto it = st.begin(); std::advance(it, idx % st.size()); q = *it; }
			pool.at(k)->SetStateFinal(q); fq = (long)q;
		}
		else if (op == "D") { U k = t.num(); pool.erase(k); }
		else if (op == "U") { U k = t.num(); U i = t.num(); U j = t.num(); VATA::AutBase::StateToStateMap ml, mr; Aut r = maps ? Aut::Union(*pool.at(i), *pool.at(j), &ml, &mr) : Aut::Union(*pool.at(i), *pool.at(j)); pool[k].reset(new Aut(r)); }
		else if (op == "UD") { U k = t.num(); U i = t.num(); U j = t.num(); Aut r = Aut::UnionDisjointStates(*pool.at(i), *pool.at(j)); pool[k].reset(new Aut(r)); }
		else if (op == "X") { U k = t.num(); U i = t.num(); U j = t.num(); VATA::AutBase::ProductTranslMap pm; Aut r = maps ? Aut::Intersection(*pool.at(i), *pool.at(j), &pm) : Aut::Intersection(*pool.at(i), *pool.at(j)); pool[k].reset(new Aut(r)); }
		else if (op == "UR") { U k = t.num(); U i = t.num(); Aut r = pool.at(i)->RemoveUnreachableStates(); pool[k].reset(new Aut(r)); }
		else if (op == "UL") { U k = t.num(); U i = t.num(); Aut r = pool.at(i)->RemoveUselessStates(); pool[k].reset(new Aut(r)); }
		else throw std::runtime_error("driver: unknown op " + op);
		os << " | S " << pool.size();
		for (auto& kv : pool) os << ' ' << kv.first << ' ' << showTA(dumpBdd(*kv.second));
		Conv<Aut>::td(os, pool);
		if (fq >= 0) os << " FQ " << fq;
	}
	return os.str();
}

int main() {
	std::string line;
	while (std::getline(std::cin, line)) {
		guarded([&]() {
			Toks t(line); std::string enc = t.word();
			if (enc == "bu") return run<VATA::BDDBottomUpTreeAut>(t);
			if (enc == "td") return run<VATA::BDDTopDownTreeAut>(t);
			throw std::runtime_error("driver: unknown encoding");
		});
	}
	return 0;
}
