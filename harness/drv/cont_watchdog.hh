// Per-case watchdog for the container drivers (C11, C12, C14): a case that does not finish within a few
// seconds kills the driver process silently; harness/core.py then attributes a CRASH to exactly that case and
// resumes with the next one.  Loops over library iterators are additionally capped so that an iterator that
// never reaches end() becomes an ordinary wrong answer instead of a hang.
#ifndef VERIF_DRV_CONT_WATCHDOG_HH
#define VERIF_DRV_CONT_WATCHDOG_HH
#include <csignal>
#include <unistd.h>
namespace vd {
struct Watchdog {
	explicit Watchdog(unsigned secs = 5) { std::signal(SIGALRM, [](int) { _exit(97); }); alarm(secs); }
	~Watchdog() { alarm(0); }
};
static const size_t ITER_CAP = 20000;
}
#endif
