// C06 driver: Complement over a fresh on-the-fly alphabet.
// case:   comp <T A> S <n> {rank}*        symbol code i has rank_i (codes are assigned in registration order)
// output: C <T complement> I <T operand afterwards>
#include "common.hh"
using namespace vd;
typedef VATA::ExplicitTreeAut Aut;
int main() {
	std::string line;
	while (std::getline(std::cin, line)) {
		guarded([&]() {
			Toks t(line); t.expect("comp"); TA a = readTA(t); t.expect("S"); U n = t.num();
			std::shared_ptr<Aut::OnTheFlyAlphabet> otf(new Aut::OnTheFlyAlphabet());
			{
				auto tr = otf->GetSymbolTransl();
				for (U i = 0; i < n; ++i) {
					U rank = t.num();
					std::ostringstream nm; nm << "s" << i;
					Aut::SymbolType code = (*tr)(Aut::StringRank(nm.str(), rank));
					if (code != i) throw std::runtime_error("driver: unexpected symbol code");
				}
			}
			Aut::AlphabetType alpha = otf;
			Aut aut; aut.SetAlphabet(alpha);
			for (const Rule& r : a.rules) { Aut::StateTuple tup(r.ch.begin(), r.ch.end()); aut.AddTransition(tup, r.sym, r.par); }
			for (U f : a.finals) aut.SetStateFinal(f);
			Aut c = aut.Complement();
			std::ostringstream os;
			os << "C " << showTA(obsAut(c)) << " I " << showTA(obsAut(aut));
			return os.str();
		});
	}
	return 0;
}
