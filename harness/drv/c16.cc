// C16 driver: the LTS simulation engine driven directly (include/vata/explicit_lts.hh, src/explicit_lts_sim.cc).
// case:   lts  <n> <ne> { <src> <label> <dst> }* P <nb> { <k> q1..qk }* R <np> { <i> <j> }*
//         ltsd <n> <ne> { <src> <label> <dst> }*                       (no partition given)
// output: for every output size m = 0..n (n > 12: m in {0,1,2,n/2,n-1,n}) one group   O <m> S <size()> <npairs> { q r }*
//         (ltsd: additionally   F S <size()> <npairs> {q r}*   for computeSimulation() without arguments)
// A fresh ExplicitLTS is built for every output size (edges inserted in the order of the case line): in one go for even sizes, in two phases
// (half of the edges, init(), the other half, init()) for odd sizes and for F; the object asked for the full size has answered size 0 before.
#include "common.hh"
#include <vata/explicit_lts.hh>
using namespace vd;

struct Edge { U s, a, d; };

// phases = 1: all edges, then init().  phases = 2: the first half of the edges, init(), the second half, init() again (an LTS that is extended
// after it has been initialised once must behave like one built in one go)
static VATA::ExplicitLTS mkLTS(U n, const std::vector<Edge>& es, int phases = 1) {
	VATA::ExplicitLTS lts(n);
	size_t half = phases == 2 ? es.size() / 2 : es.size();
	if (phases == 2) {
		// only when the second phase brings no new label: init() sizes its per-state label sets by the number of labels known at the FIRST call
		// (a label that appears later is outside what init() supports on the unchanged sources)
		std::set<U> first; for (size_t i = 0; i < half; ++i) first.insert(es[i].a);
		for (size_t i = half; i < es.size(); ++i) if (!first.count(es[i].a)) { half = es.size(); phases = 1; break; }
	}
	for (size_t i = 0; i < half; ++i) lts.addTransition(es[i].s, es[i].a, es[i].d);
	lts.init();
	if (phases == 2) {
		for (size_t i = half; i < es.size(); ++i) lts.addTransition(es[i].s, es[i].a, es[i].d);
		lts.init();
	}
	return lts;
}

static void showRel(std::ostringstream& os, const VATA::Util::BinaryRelation& r) {
	size_t sz = r.size();
	std::vector<std::pair<size_t, size_t>> ps;
	for (size_t i = 0; i < sz; ++i) for (size_t j = 0; j < sz; ++j) if (r.get(i, j)) ps.push_back(std::make_pair(i, j));
	os << " S " << sz << ' ' << ps.size();
	for (auto& p : ps) os << ' ' << p.first << ' ' << p.second;
}

int main() {
	std::string line;
	while (std::getline(std::cin, line)) {
		guarded([&]() {
			Toks t(line); std::string kind = t.word();
			if (kind != "lts" && kind != "ltsd") throw std::runtime_error("driver: unknown case kind " + kind);
			U n = t.num(); U ne = t.num(); std::vector<Edge> es;
			for (U i = 0; i < ne; ++i) { Edge e; e.s = t.num(); e.a = t.num(); e.d = t.num(); es.push_back(e); }
			std::ostringstream os;
			if (kind == "lts") {
				t.expect("P"); U nb = t.num(); std::vector<std::vector<size_t>> part(nb);
				for (U b = 0; b < nb; ++b) { U k = t.num(); for (U j = 0; j < k; ++j) part[b].push_back(t.num()); }
				t.expect("R"); U np = t.num(); VATA::Util::BinaryRelation rel(nb, false);
				for (U i = 0; i < np; ++i) { U x = t.num(); U y = t.num(); rel.set(x, y, true); }
				for (U m = 0; m <= n; ++m) {
					if (n > 12 && !(m <= 2 || m == n / 2 || m + 1 >= n)) continue;      // larger systems: a sample of the output sizes
					VATA::ExplicitLTS lts = mkLTS(n, es, (m % 2) ? 2 : 1);
					if (m == n && n > 0) { VATA::Util::BinaryRelation r0 = lts.computeSimulation(part, rel, 0); (void)r0; }     // the object has been used before
					VATA::Util::BinaryRelation r = lts.computeSimulation(part, rel, m);
					os << (m ? " " : "") << "O " << m; showRel(os, r);
				}
			} else {
				for (U m = 0; m <= n; ++m) {
					if (n > 12 && !(m <= 2 || m == n / 2 || m + 1 >= n)) continue;      // larger systems: a sample of the output sizes
					VATA::ExplicitLTS lts = mkLTS(n, es, (m % 2) ? 2 : 1);
					if (m == n && n > 0) { VATA::Util::BinaryRelation r0 = lts.computeSimulation(0); (void)r0; }
					VATA::Util::BinaryRelation r = lts.computeSimulation(m);
					os << (m ? " " : "") << "O " << m; showRel(os, r);
				}
				VATA::ExplicitLTS lts = mkLTS(n, es, 2);
				VATA::Util::BinaryRelation r = lts.computeSimulation();
				os << " F"; showRel(os, r);
			}
			return os.str();
		});
	}
	return 0;
}
