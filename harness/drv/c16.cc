// C16 driver: the LTS simulation engine driven directly (include/vata/explicit_lts.hh, src/explicit_lts_sim.cc).
// case:   lts  <n> <ne> { <src> <label> <dst> }* P <nb> { <k> q1..qk }* R <np> { <i> <j> }*
//         ltsd <n> <ne> { <src> <label> <dst> }*                       (no partition given)
// output: for every output size m = 0..n (n > 12: m in {0,1,2,n/2,n-1,n}) one group   O <m> S <size()> <npairs> { q r }*
//         (ltsd: additionally   F S <size()> <npairs> {q r}*   for computeSimulation() without arguments)
// A fresh ExplicitLTS is built for every call (edges inserted in the order of the case line).
#include "common.hh"
#include <vata/explicit_lts.hh>
using namespace vd;

struct Edge { U s, a, d; };

static VATA::ExplicitLTS mkLTS(U n, const std::vector<Edge>& es) {
	VATA::ExplicitLTS lts(n);
	for (const Edge& e : es) lts.addTransition(e.s, e.a, e.d);
	lts.init();
	return lts;
}

static void showRel(std::ostringstream& os, const VATA::Util::BinaryRelation& r) {
	size_t sz = r.size();
	std::vector<std::pair<size_t, size_t>> ps;
	for (size_t i = 0; i < sz; ++i) for (size_t j = 0; j < sz; ++j) if (r.get(i, j)) ps.push_back(std::make_pair(i, j));
	os << " S " << sz << ' ' << ps.size();
	for (auto& p : ps) os << ' ' << p.first << ' ' << p.second;
}

int main() {
	std::string line;
	while (std::getline(std::cin, line)) {
		guarded([&]() {
			Toks t(line); std::string kind = t.word();
			if (kind != "lts" && kind != "ltsd") throw std::runtime_error("driver: unknown case kind " + kind);
			U n = t.num(); U ne = t.num(); std::vector<Edge> es;
			for (U i = 0; i < ne; ++i) { Edge e; e.s = t.num(); e.a = t.num(); e.d = t.num(); es.push_back(e); }
			std::ostringstream os;
			if (kind == "lts") {
				t.expect("P"); U nb = t.num(); std::vector<std::vector<size_t>> part(nb);
				for (U b = 0; b < nb; ++b) { U k = t.num(); for (U j = 0; j < k; ++j) part[b].push_back(t.num()); }
				t.expect("R"); U np = t.num(); VATA::Util::BinaryRelation rel(nb, false);
				for (U i = 0; i < np; ++i) { U x = t.num(); U y = t.num(); rel.set(x, y, true); }
				for (U m = 0; m <= n; ++m) {
					if (n > 12 && !(m <= 2 || m == n / 2 || m + 1 >= n)) continue;      // larger systems: a sample of the output sizes
					VATA::ExplicitLTS lts = mkLTS(n, es);
					VATA::Util::BinaryRelation r = lts.computeSimulation(part, rel, m);
					os << (m ? " " : "") << "O " << m; showRel(os, r);
				}
			} else {
				for (U m = 0; m <= n; ++m) {
					if (n > 12 && !(m <= 2 || m == n / 2 || m + 1 >= n)) continue;      // larger systems: a sample of the output sizes
					VATA::ExplicitLTS lts = mkLTS(n, es);
					VATA::Util::BinaryRelation r = lts.computeSimulation(m);
					os << (m ? " " : "") << "O " << m; showRel(os, r);
				}
				VATA::ExplicitLTS lts = mkLTS(n, es);
				VATA::Util::BinaryRelation r = lts.computeSimulation();
				os << " F"; showRel(os, r);
			}
			return os.str();
		});
	}
	return 0;
}
