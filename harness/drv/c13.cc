// C13 driver: Timbuk serializer / parser / loaders / dumpers of the four encodings on one case per line.
//
// case:   W <flags> D <desc>          a description object: Serialize it, then treat the text as below
//         C|V|X|M <flags> <hextext> [D <desc>]   a text (the description after D is only for the judge)
//         O <flags> <hextext> [D <desc>]   O1: explicit tree automaton with its own alphabet (SetAlphabet), loaded from the text,
//                                     RemoveUnreachableStates, the result dumped with the dictionary of the load
//   desc  = <name> <nsyms> {<name> <rank>}* <nstates> {<name>}* <nfinals> {<name>}* <nrules> {<sym> <parent> <k> <child>*}*
//   name  = 'x' followed by the bytes in hex ("x" = the empty name); hextext = bytes in hex, "-" = empty
//   flags = bit 0: the re-load uses the dictionary of the first load instead of a fresh one
//           bit 1: the BDD automata use the process-wide default alphabet instead of a fresh one
//           bit 2: the explicit tree automaton gets its own OnTheFlyAlphabet through SetAlphabet
//           bit 3: the re-loaded BDD automaton gets another fresh alphabet
// output: O cases: O1 (OK <hexdump> | EXC <class>); otherwise
//         [S <hextext>] P (OK <desc> | EXC <class>) { <ENC> (OK <hexdump1> <hexdump2> | EXC <stage> <class>) } for ENC = ET BU TD FA
//         stage: 1 load, 2 dump, 3 load of the dump, 4 dump again;  class: runtime_error | std_exception | non_std
// A crash or a time-out (SIGALRM after 10 s per case, 60 s under ASan) ends the process; harness/core.py reports it for the case.
#include <vata/explicit_tree_aut.hh>
#include <vata/explicit_finite_aut.hh>
#include <vata/bdd_bu_tree_aut.hh>
#include <vata/bdd_td_tree_aut.hh>
#include <vata/parsing/timbuk_parser.hh>
#include <vata/serialization/timbuk_serializer.hh>
#include <vata/util/aut_description.hh>

#include <unistd.h>
#include <cstdlib>
#include <iostream>
#include <sstream>
#include <stdexcept>
#include <string>
#include <vector>

using VATA::Util::AutDescription;
typedef VATA::AutBase::StateDict StateDict;

static std::string hexOf(const std::string& s) {
	if (s.empty()) return "-";
	static const char* dg = "0123456789abcdef";
	std::string r; r.reserve(2 * s.size());
	for (unsigned char c : s) { r.push_back(dg[c >> 4]); r.push_back(dg[c & 15]); }
	return r;
}
static int hv(char c) { return (c >= '0' && c <= '9') ? c - '0' : (c >= 'a' && c <= 'f') ? c - 'a' + 10 : (c >= 'A' && c <= 'F') ? c - 'A' + 10 : -1; }
static std::string unhex(const std::string& h) {
	if (h == "-") return std::string();
	std::string r; r.reserve(h.size() / 2);
	for (size_t i = 0; i + 1 < h.size(); i += 2) r.push_back(static_cast<char>(hv(h[i]) * 16 + hv(h[i + 1])));
	return r;
}

struct Toks {
	std::vector<std::string> v; size_t i = 0;
	explicit Toks(const std::string& line) { std::istringstream is(line); std::string t; while (is >> t) v.push_back(t); }
	std::string word() { if (i >= v.size()) throw std::logic_error("driver: case line too short"); return v[i++]; }
	long num() { return std::strtol(word().c_str(), nullptr, 10); }
	std::string name() { std::string w = word(); if (w.empty() || w[0] != 'x') throw std::logic_error("driver: name expected"); return unhex(w.substr(1).empty() ? "-" : w.substr(1)); }
};

static AutDescription readDesc(Toks& t) {
	AutDescription d;
	d.name = t.name();
	long n = t.num(); for (long i = 0; i < n; ++i) { std::string s = t.name(); int r = static_cast<int>(t.num()); d.symbols.insert(std::make_pair(s, r)); }
	n = t.num(); for (long i = 0; i < n; ++i) d.states.insert(t.name());
	n = t.num(); for (long i = 0; i < n; ++i) d.finalStates.insert(t.name());
	n = t.num();
	for (long i = 0; i < n; ++i) {
		std::string sym = t.name(); std::string par = t.name(); long k = t.num();
		std::vector<std::string> ch; for (long j = 0; j < k; ++j) ch.push_back(t.name());
		d.transitions.insert(AutDescription::Transition(ch, sym, par));
	}
	return d;
}

static std::string showDesc(const AutDescription& d) {
	std::ostringstream os;
	os << 'x' << (d.name.empty() ? "" : hexOf(d.name)) << ' ' << d.symbols.size();
	for (const auto& s : d.symbols) os << " x" << (s.first.empty() ? "" : hexOf(s.first)) << ' ' << s.second;
	os << ' ' << d.states.size();
	for (const auto& s : d.states) os << " x" << (s.empty() ? "" : hexOf(s));
	os << ' ' << d.finalStates.size();
	for (const auto& s : d.finalStates) os << " x" << (s.empty() ? "" : hexOf(s));
	os << ' ' << d.transitions.size();
	for (const auto& t : d.transitions) {
		os << " x" << (t.second.empty() ? "" : hexOf(t.second)) << " x" << (t.third.empty() ? "" : hexOf(t.third)) << ' ' << t.first.size();
		for (const auto& c : t.first) os << " x" << (c.empty() ? "" : hexOf(c));
	}
	return os.str();
}

// every outcome of a library call becomes a word; the process survives every C++ exception
template <class F> static std::string classify(F f) {
	try { return f(); }
	catch (const std::runtime_error&) { return "EXC runtime_error"; }
	catch (const std::exception&) { return "EXC std_exception"; }
	catch (...) { return "EXC non_std"; }
}
static bool verbose() { static int v = std::getenv("VERIF_C13_VERBOSE") ? 1 : 0; return v; }
template <class F> static std::string classifyStaged(int& stage, F f) {
	try { return f(); }
	catch (const std::runtime_error& e) { if (verbose()) std::cerr << "stage " << stage << ": " << e.what() << "\n"; return "EXC " + std::to_string(stage) + " runtime_error"; }
	catch (const std::exception& e) { if (verbose()) std::cerr << "stage " << stage << ": " << e.what() << "\n"; return "EXC " + std::to_string(stage) + " std_exception"; }
	catch (...) { return "EXC " + std::to_string(stage) + " non_std"; }
}

// load -> dump -> load -> dump through one encoding
template <class Aut, class PrepA, class PrepB>
static std::string roundTrip(const std::string& text, unsigned flags, PrepA prepA, PrepB prepB) {
	int stage = 1;
	return classifyStaged(stage, [&]() {
		VATA::Parsing::TimbukParser parser; VATA::Serialization::TimbukSerializer ser;
		Aut a; prepA(a);
		StateDict d1;
		a.LoadFromString(parser, text, d1);
		stage = 2; std::string t1 = a.DumpToString(ser, d1);
		stage = 3; Aut b; prepB(a, b);
		StateDict d2; StateDict& dd = (flags & 1) ? d1 : d2;
		b.LoadFromString(parser, t1, dd);
		stage = 4; std::string t2 = b.DumpToString(ser, dd);
		return "OK " + hexOf(t1) + " " + hexOf(t2);
	});
}

static std::string onText(const std::string& text, unsigned flags) {
	std::ostringstream os;
	os << "P " << classify([&]() { VATA::Parsing::TimbukParser parser; return "OK " + showDesc(parser.ParseString(text)); });
	typedef VATA::ExplicitTreeAut ET; typedef VATA::BDDBottomUpTreeAut BU; typedef VATA::BDDTopDownTreeAut TD; typedef VATA::ExplicitFiniteAut FA;
	os << " ET " << roundTrip<ET>(text, flags,
		[&](ET& a) { if (flags & 4) { ET::AlphabetType al(new ET::OnTheFlyAlphabet); a.SetAlphabet(al); } },
		[&](ET& a, ET& b) { if (flags & 4) { b.SetAlphabet(a.GetAlphabet()); } });
	os << " BU " << roundTrip<BU>(text, flags,
		[&](BU& a) { if (!(flags & 2)) a.GetAlphabet() = BU::AlphabetType(new BU::OnTheFlyAlphabet); },
		[&](BU& a, BU& b) { if (!(flags & 2)) { if (flags & 8) b.GetAlphabet() = BU::AlphabetType(new BU::OnTheFlyAlphabet); else b.GetAlphabet() = a.GetAlphabet(); } });
	os << " TD " << roundTrip<TD>(text, flags,
		[&](TD& a) { if (!(flags & 2)) a.GetAlphabet() = TD::AlphabetType(new TD::OnTheFlyAlphabet); },
		[&](TD& a, TD& b) { if (!(flags & 2)) { if (flags & 8) b.GetAlphabet() = TD::AlphabetType(new TD::OnTheFlyAlphabet); else b.GetAlphabet() = a.GetAlphabet(); } });
	os << " FA " << roundTrip<FA>(text, flags, [&](FA&) { }, [&](FA&, FA&) { });
	return os.str();
}

#if defined(__SANITIZE_ADDRESS__)
static const unsigned CASE_SECONDS = 60;
#else
static const unsigned CASE_SECONDS = 10;
#endif

int main() {
	std::ios::sync_with_stdio(false);
	std::string line;
	while (std::getline(std::cin, line)) {
		alarm(CASE_SECONDS);
		std::string out;
		try {
			Toks t(line);
			std::string kind = t.word(); unsigned flags = static_cast<unsigned>(t.num());
			if (kind == "W") {
				if (t.word() != "D") throw std::logic_error("driver: D expected");
				AutDescription d = readDesc(t);
				std::string s;
				std::string r = classify([&]() { VATA::Serialization::TimbukSerializer ser; s = ser.Serialize(d); return std::string("OK"); });
				if (r != "OK") out = "S " + r;
				else out = "S " + hexOf(s) + " " + onText(s, flags);
			} else if (kind == "O") {
				std::string text = unhex(t.word());
				typedef VATA::ExplicitTreeAut ET;
				out = "O1 " + classify([&]() {
					VATA::Parsing::TimbukParser parser; VATA::Serialization::TimbukSerializer ser;
					ET a; ET::AlphabetType al(new ET::OnTheFlyAlphabet); a.SetAlphabet(al);
					StateDict d1; a.LoadFromString(parser, text, d1);
					ET r = a.RemoveUnreachableStates();
					return "OK " + hexOf(r.DumpToString(ser, d1));
				});
			} else {
				out = onText(unhex(t.word()), flags);
			}
		}
		catch (const std::logic_error& e) { out = std::string("DRIVER-ERROR ") + e.what(); }
		alarm(0);
		std::cout << out << "\n" << std::flush;
	}
	return 0;
}
