// C02 driver: Union (with reported / pre-filled maps), UnionDisjointStates (only for disjoint operands),
// Intersection and IntersectionBU (with reported product maps), operands re-read afterwards.
// case:   bin <T A> <T B> PL <n> {k v}* PR <n> {k v}* [SHARE <k>]
// output: U <T> ML <n> {k v}* MR <n> {k v}* D (<T> | SKIP) X <T> PM <n> {p q s}* XB <T> PM <n> {p q s}* XR <T> PM .. XBR <T> PM .. UN <T> XN <T> XBN <T> I <T A> <T B>   (XR/XBR: same call again, map of the first call pre-filled; UN/XN/XBN: called without the optional maps)
#include "common.hh"
#include <map>
using namespace vd;
typedef VATA::ExplicitTreeAut Aut;

static void showMap(std::ostream& os, const char* tag, const VATA::AutBase::StateToStateMap& m) {
	std::map<U, U> s(m.begin(), m.end());
	os << ' ' << tag << ' ' << s.size(); for (auto& kv : s) os << ' ' << kv.first << ' ' << kv.second;
}
static void showPM(std::ostream& os, const VATA::AutBase::ProductTranslMap& m) {
	std::map<std::pair<U, U>, U> s; for (auto& kv : m) s[std::make_pair((U)kv.first.first, (U)kv.first.second)] = kv.second;
	os << " PM " << s.size(); for (auto& kv : s) os << ' ' << kv.first.first << ' ' << kv.first.second << ' ' << kv.second;
}
static std::set<U> statesOf(const TA& a) { std::set<U> s(a.finals.begin(), a.finals.end()); for (auto& r : a.rules) { s.insert(r.par); s.insert(r.ch.begin(), r.ch.end()); } return s; }

int main() {
	std::string line;
	while (std::getline(std::cin, line)) {
		guarded([&]() {
			Toks t(line); t.expect("bin"); TA a = readTA(t); TA b = readTA(t);
			VATA::AutBase::StateToStateMap ml, mr;
			t.expect("PL"); U n = t.num(); for (U i = 0; i < n; ++i) { U k = t.num(); U v = t.num(); ml[k] = v; }
			t.expect("PR"); n = t.num(); for (U i = 0; i < n; ++i) { U k = t.num(); U v = t.num(); mr[k] = v; }
			// optional "SHARE k": the first k rules of A and B are a common base; the operands are then built as copies of one
			// base automaton that are modified afterwards, so that they physically share rule storage (copy-on-write)
			U share = 0; if (!t.done() && t.word() == "SHARE") share = t.num();
			Aut A, B;
			if (share > 0 && share <= a.rules.size() && share <= b.rules.size()) {
				Aut base;
				for (U i = 0; i < share; ++i) { const Rule& r = a.rules[i]; Aut::StateTuple tup(r.ch.begin(), r.ch.end()); base.AddTransition(tup, r.sym, r.par); }
				A = base; B = base;
				for (U i = share; i < a.rules.size(); ++i) { const Rule& r = a.rules[i]; Aut::StateTuple tup(r.ch.begin(), r.ch.end()); A.AddTransition(tup, r.sym, r.par); }
				for (U i = share; i < b.rules.size(); ++i) { const Rule& r = b.rules[i]; Aut::StateTuple tup(r.ch.begin(), r.ch.end()); B.AddTransition(tup, r.sym, r.par); }
				for (U f : a.finals) A.SetStateFinal(f);
				for (U f : b.finals) B.SetStateFinal(f);
			} else { A = mkAut(a); B = mkAut(b); }
			std::ostringstream os;
			Aut u = Aut::Union(A, B, &ml, &mr);
			os << "U " << showTA(obsAut(u)); showMap(os, "ML", ml); showMap(os, "MR", mr);
			std::set<U> sa = statesOf(a), sb = statesOf(b); bool disj = true; for (U q : sa) if (sb.count(q)) disj = false;
			if (disj) { Aut d = Aut::UnionDisjointStates(A, B); os << " D " << showTA(obsAut(d)); } else os << " D SKIP";
			VATA::AutBase::ProductTranslMap pmT, pmB;
			{ Aut x = Aut::Intersection(A, B, &pmT); os << " X " << showTA(obsAut(x)); showPM(os, pmT); }
			{ Aut x = Aut::IntersectionBU(A, B, &pmB); os << " XB " << showTA(obsAut(x)); showPM(os, pmB); }
			// the same calls again with the maps of the first calls handed in (caller-supplied, pre-filled product maps)
			{ Aut x = Aut::Intersection(A, B, &pmT); os << " XR " << showTA(obsAut(x)); showPM(os, pmT); }
			{ Aut x = Aut::IntersectionBU(A, B, &pmB); os << " XBR " << showTA(obsAut(x)); showPM(os, pmB); }
			// the same operations without the optional map arguments
			{ Aut x = Aut::Union(A, B); os << " UN " << showTA(obsAut(x)); }
			{ Aut x = Aut::Intersection(A, B); os << " XN " << showTA(obsAut(x)); }
			{ Aut x = Aut::IntersectionBU(A, B); os << " XBN " << showTA(obsAut(x)); }
			os << " I " << showTA(obsAut(A)) << ' ' << showTA(obsAut(B));
			return os.str();
		});
	}
	return 0;
}
