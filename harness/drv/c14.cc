// C14 driver: ReindexStates (functor overloads, weak-translator overload), CollapseStates, TranslateSymbols
// through the public facade.
// case:   c14 RF <addf> <T src> M <n> {k v} <off>            ReindexStates(AbstractReindexF&, addFinalStates) -> new automaton
//         c14 RD <addf> <T src> <T dst> M <n> {k v} <off>     void ReindexStates(dst, AbstractReindexF&, addFinalStates), dst = copy of a pre-built donor (output: .. X <T donor afterwards>)
//         c14 RW <T src> M <n> {k v} <base>                   ReindexStates(StateToStateTranslWeak&): pre-filled map, allocator base, base+1, ..
//         c14 CS <T src> M <n> {k v}                          CollapseStates(const StateToStateMap&)
//         c14 TS <T src> M <n> {k v} <off>                    TranslateSymbols(AbstractSymbolTranslateF&)
//         functor semantics: table lookup, unlisted key x -> x + off
// output: R <T result> M <n> {k v} I <T src afterwards>      (M = final contents of the translator / map; functor variants: M 0)
#include "common.hh"
#include "cont_watchdog.hh"
#include <map>
#include <unordered_map>
using namespace vd;
typedef VATA::ExplicitTreeAut Aut;
typedef std::vector<std::pair<U, U>> Pairs;

static Pairs readMap(Toks& t) { t.expect("M"); U n = t.num(); Pairs m; for (U i = 0; i < n; ++i) { U k = t.num(); U v = t.num(); m.push_back(std::make_pair(k, v)); } return m; }
static std::string showMap(Pairs m) { std::sort(m.begin(), m.end()); std::ostringstream os; os << "M " << m.size(); for (auto& p : m) os << ' ' << p.first << ' ' << p.second; return os.str(); }

struct TabReindexF : public VATA::AbstractReindexF {
	std::map<U, U> tab; U off;
	Aut::StateType get(const Aut::StateType& s) const { auto it = tab.find(s); return it == tab.end() ? s + off : it->second; }
	virtual Aut::StateType operator[](const Aut::StateType& s) override { return get(s); }
	virtual Aut::StateType at(const Aut::StateType& s) const override { return get(s); }
};
struct TabSymbolF : public Aut::AbstractSymbolTranslateF {
	std::map<U, U> tab; U off;
	virtual Aut::SymbolType operator()(const Aut::SymbolType& s) override { auto it = tab.find(s); return it == tab.end() ? s + off : it->second; }
};

int main() {
	std::string line;
	while (std::getline(std::cin, line)) {
		guarded([&]() {
			Watchdog wd;
			Toks t(line); t.expect("c14"); std::string v = t.word();
			std::ostringstream os;
			if (v == "RF" || v == "RD") {
				bool addf = t.num() == 1; TA a = readTA(t); TA d; if (v == "RD") d = readTA(t);
				Pairs m = readMap(t); TabReindexF f; for (auto& p : m) f.tab[p.first] = p.second; f.off = t.num();
				Aut src = mkAut(a);
				if (v == "RF") { Aut res = src.ReindexStates(f, addf); os << "R " << showTA(obsAut(res)); }
				else {
					// the destination is a COPY of another live automaton (it shares the donor's copy-on-write transition table): the donor must
					// not change. When the destination text equals the source text the donor is the source itself.
					bool self = !(a.rules < d.rules) && !(d.rules < a.rules) && a.finals == d.finals;
					Aut donor = self ? src : mkAut(d);
					Aut dst(self ? src : donor);
					src.ReindexStates(dst, f, addf); os << "R " << showTA(obsAut(dst));
					os << " M 0 I " << showTA(obsAut(src)) << " X " << showTA(obsAut(donor));
					return os.str();
				}
				os << " M 0 I " << showTA(obsAut(src));
			} else if (v == "RW") {
				TA a = readTA(t); Pairs m = readMap(t); U base = t.num();
				Aut src = mkAut(a);
				VATA::AutBase::StateToStateMap stm; for (auto& p : m) stm.insert(std::make_pair((size_t)p.first, (size_t)p.second));
				size_t cnt = base;
				VATA::AutBase::StateToStateTranslWeak tr(stm, [&cnt](const VATA::AutBase::StateType&) { return cnt++; });
				Aut res = src.ReindexStates(tr);
				Pairs back; for (auto& kv : stm) back.push_back(std::make_pair((U)kv.first, (U)kv.second));
				os << "R " << showTA(obsAut(res)) << ' ' << showMap(back) << " I " << showTA(obsAut(src));
			} else if (v == "CS") {
				TA a = readTA(t); Pairs m = readMap(t);
				Aut src = mkAut(a);
				VATA::AutBase::StateToStateMap stm; for (auto& p : m) stm.insert(std::make_pair((size_t)p.first, (size_t)p.second));
				Aut res = src.CollapseStates(stm);
				Pairs back; for (auto& kv : stm) back.push_back(std::make_pair((U)kv.first, (U)kv.second));
				os << "R " << showTA(obsAut(res)) << ' ' << showMap(back) << " I " << showTA(obsAut(src));
			} else if (v == "TS") {
				TA a = readTA(t); Pairs m = readMap(t); TabSymbolF f; for (auto& p : m) f.tab[p.first] = p.second; f.off = t.num();
				Aut src = mkAut(a);
				Aut res = src.TranslateSymbols(f);
				os << "R " << showTA(obsAut(res)) << " M 0 I " << showTA(obsAut(src));
			} else throw std::runtime_error("driver: unknown variant " + v);
			return os.str();
		});
	}
	return 0;
}
