// C05 driver: Reduce.   case: red <T A>    output: R <T result> I <T operand afterwards>
//   history: red2 <T A> <T A2>  (A2 has A's rule list as a prefix and A's final states among its own): Reduce is called on an object holding A, the SAME
//            object is then modified in place (AddTransition / SetStateFinal) until it holds A2 and Reduce is called again;
//            output: R <T> I <T> R <T> I <T>
#include "common.hh"
using namespace vd;
int main() {
	std::string line;
	while (std::getline(std::cin, line)) {
		guarded([&]() {
			Toks t(line); std::string kind = t.word(); TA a = readTA(t);
			if (kind != "red" && kind != "red2") throw std::runtime_error("driver: unknown case kind");
			VATA::ExplicitTreeAut aut = mkAut(a);
			std::ostringstream os;
			{ VATA::ExplicitTreeAut r = aut.Reduce(); os << "R " << showTA(obsAut(r)) << " I " << showTA(obsAut(aut)); }
			if (kind == "red2") {
				TA a2 = readTA(t);
				if (a2.rules.size() < a.rules.size()) throw std::runtime_error("driver: red2 needs an extension");
				for (size_t i = a.rules.size(); i < a2.rules.size(); ++i) { const Rule& r = a2.rules[i]; VATA::ExplicitTreeAut::StateTuple tup(r.ch.begin(), r.ch.end()); aut.AddTransition(tup, r.sym, r.par); }
				for (U f : a2.finals) aut.SetStateFinal(f);
				VATA::ExplicitTreeAut r = aut.Reduce(); os << " R " << showTA(obsAut(r)) << " I " << showTA(obsAut(aut));
			}
			return os.str();
		});
	}
	return 0;
}
