// C20 protocol driver: the hash-consing cache + address-keyed memo (Util::Cache + CachedBinaryOp) and CachingAllocator,
// instantiated directly from /repo/src/util.
// case:   memo <n> { A <h> <k> e1..ek | R <h> | L <h1> <h2> }*
//           A: handle h := cache.lookup(sorted set)   R: drop handle h   L: memo.lookup(ptr(h1), ptr(h2), subset test)
//   output: M { a<addrId> | r | l<0|1> }*       addrId = first-seen numbering of the object addresses
// case:   pool <n> { A | R <k> }*            A: allocate   R k: reclaim the k-th (mod #live) live object
//   output: P { a<ptrId> | r<ptrId> }*
#include "common.hh"
#include "util/cache.hh"
#include "util/cached_binary_op.hh"
#include "util/caching_allocator.hh"
#include <map>
#include <memory>
using namespace vd;
typedef std::vector<size_t> Set;

int main() {
	std::string line;
	while (std::getline(std::cin, line)) {
		guarded([&]() {
			Toks t(line); std::string kind = t.word(); U n = t.num();
			std::ostringstream os;
			if (kind == "memo") {
				VATA::Util::CachedBinaryOp<const Set*, const Set*, bool> memo;
				std::map<U, std::shared_ptr<Set>> handles;
				std::map<const void*, U> ids;
				{
					VATA::Util::Cache<Set> cache([&memo](const Set* v) { memo.invalidateFirst(v); memo.invalidateSecond(v); });
					os << "M";
					for (U i = 0; i < n; ++i) {
						std::string op = t.word();
						if (op == "A") {
							U h = t.num(); U k = t.num(); Set s; for (U j = 0; j < k; ++j) s.push_back(t.num());
							std::sort(s.begin(), s.end()); s.erase(std::unique(s.begin(), s.end()), s.end());
							handles[h] = cache.lookup(s);
							const void* p = handles[h].get();
							// an address may be recycled for a different object: number (address, generation) by first sight after each death
							if (!ids.count(p)) { U id = ids.size(); ids[p] = id; }
							os << " a" << ids[p];
						} else if (op == "R") { U h = t.num(); handles.erase(h); os << " r"; }
						else if (op == "L") {
							U h1 = t.num(), h2 = t.num();
							const Set* x = handles.at(h1).get(); const Set* y = handles.at(h2).get();
							bool r = memo.lookup(x, y, [](const Set* a, const Set* b) { return std::includes(b->begin(), b->end(), a->begin(), a->end()); });
							os << " l" << (r ? 1 : 0);
						} else throw std::runtime_error("driver: memo op");
					}
					handles.clear();
				}
			} else if (kind == "pool") {
				VATA::Util::CachingAllocator<long> alloc;
				std::vector<long*> livePtrs; std::map<const void*, U> ids;
				os << "P";
				for (U i = 0; i < n; ++i) {
					std::string op = t.word();
					if (op == "A") { long* p = alloc(); *p = (long)i; if (!ids.count(p)) { U id = ids.size(); ids[p] = id; } livePtrs.push_back(p); os << " a" << ids[p]; }
					else if (op == "R") {
						U k = t.num(); if (livePtrs.empty()) { os << " r-"; continue; }
						size_t j = k % livePtrs.size(); long* p = livePtrs[j]; livePtrs.erase(livePtrs.begin() + j); alloc.reclaim(p); os << " r" << ids[p];
					} else throw std::runtime_error("driver: pool op");
				}
				for (long* p : livePtrs) alloc.reclaim(p);
			} else throw std::runtime_error("driver: kind");
			return os.str();
		});
	}
	return 0;
}
