// C09 driver: NFA inclusion verdicts of the three selections (antichains, congruence depth-first,
// congruence breadth-first) through the public API, on the operands as built (overlapping state
// numbers) and on operands sanitized first as the CLI does (cli/operations.hh: CheckInclusion).
// case:   incl <L|F> <W smaller> <W bigger>
// output: R <a> <d> <b>  S <a> <d> <b>  I <W> <W>
//         (a = antichains, d = congr depth, b = congr breadth; each 0 | 1 | EXC:<class>;
//          I = the operands re-read after all calls)
#include "nfa_common.hh"
#include <unistd.h>
using namespace vd;

static std::string verdict(const FA& a, const FA& b, int sel) {
	try {
		VATA::InclParam ip;
		if (sel == 0) ip.SetAlgorithm(VATA::InclParam::e_algorithm::antichains);
		else {
			ip.SetAlgorithm(VATA::InclParam::e_algorithm::congruences);
			ip.SetSearchOrder(sel == 1 ? VATA::InclParam::e_search_order::depth : VATA::InclParam::e_search_order::breadth);
		}
		ip.SetUseSimulation(false);
		return FA::CheckInclusion(a, b, ip) ? "1" : "0";
	}
	catch (const VATA::NotImplementedException&) { return "EXC:NotImplemented"; }
	catch (const std::out_of_range&) { return "EXC:out_of_range"; }
	catch (const std::runtime_error&) { return "EXC:runtime_error"; }
	catch (const std::exception&) { return "EXC:std_exception"; }
	catch (...) { return "EXC:non_std"; }
}

int main() {
	std::string line;
	while (std::getline(std::cin, line)) {
		alarm(20);   // watchdog: a case that does not return kills the driver (SIGALRM), reported as a hang of this case
		guarded([&]() {
			Toks t(line); t.expect("incl"); char mode = t.word()[0];
			NFA na = readW(t), nb = readW(t);
			FA a, b; mkPair(na, nb, mode, a, b);      // same edge list: two copies of one automaton with their own start / final states (nfa_common.hh)
			std::ostringstream os;
			os << "R";
			for (int sel = 0; sel < 3; ++sel) os << ' ' << verdict(a, b, sel);
			// as the CLI: sanitize copies of the operands, then call the library (which sanitizes again)
			FA sa(a), sb(b);
			VATA::AutBase::SanitizeAutsForInclusion(sa, sb);
			os << " S";
			for (int sel = 0; sel < 3; ++sel) os << ' ' << verdict(sa, sb, sel);
			os << " I " << showW(obsNfa(a)) << ' ' << showW(obsNfa(b));
			return os.str();
		});
	}
	return 0;
}
