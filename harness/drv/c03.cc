// C03 driver: RemoveUnreachableStates, RemoveUselessStates, IsLangEmpty on one automaton per case.
// case:   trim <T...>
// output: U <T...> L <T...> E <0|1> I <T...>      (I = the operand re-read after the calls)
#include "common.hh"
using namespace vd;
int main() {
	std::string line;
	while (std::getline(std::cin, line)) {
		guarded([&]() {
			Toks t(line); t.expect("trim"); TA a = readTA(t);
			VATA::ExplicitTreeAut aut = mkAut(a);
			VATA::ExplicitTreeAut u = aut.RemoveUnreachableStates();
			VATA::ExplicitTreeAut l = aut.RemoveUselessStates();
			bool e = aut.IsLangEmpty();
			std::ostringstream os;
			os << "U " << showTA(obsAut(u)) << " L " << showTA(obsAut(l)) << " E " << (e ? 1 : 0) << " I " << showTA(obsAut(aut));
			return os.str();
		});
	}
	return 0;
}
