// C03 driver: RemoveUnreachableStates, RemoveUselessStates, IsLangEmpty on one automaton per case.
// case:   trim <T...>
// output: U <T...> L <T...> E <0|1> UM <T...> LM <T...> I <T...>      (UM / LM = the same calls with the optional translation map, one map
//         per case handed to every call of the case; I = the operand re-read after the calls)
// history: trimh <T...> { <mode> <nf> f1..fnf }*   after the calls on the first automaton, every stage derives a further object and the three
//          calls are repeated on it:  mode 0 = selective copy (transitions, not final states) of the current object, then the given final states;
//          1 = the current object itself after EraseFinalStates + the given final states; 2 / 3 = selective copy of the last result of
//          RemoveUnreachableStates / RemoveUselessStates + the given final states; 4 = the last result of RemoveUselessStates as it is.
//          output per stage:  V <T value of the object as read before the calls> U <T> L <T> E <0|1> I <T>
#include "common.hh"
using namespace vd;
typedef VATA::ExplicitTreeAut Aut;
// mu / ml: the optional translation-map arguments; ONE map per case is handed to every call of the case (a caller re-using its map)
static void calls(std::ostream& os, Aut& aut, Aut& u, Aut& l, VATA::AutBase::StateToStateMap& mu, VATA::AutBase::StateToStateMap& ml) {
	u = aut.RemoveUnreachableStates();
	l = aut.RemoveUselessStates();
	bool e = aut.IsLangEmpty();
	Aut um = aut.RemoveUnreachableStates(&mu);
	Aut lm = aut.RemoveUselessStates(&ml);
	os << "U " << showTA(obsAut(u)) << " L " << showTA(obsAut(l)) << " E " << (e ? 1 : 0) << " UM " << showTA(obsAut(um)) << " LM " << showTA(obsAut(lm)) << " I " << showTA(obsAut(aut));
}
int main() {
	std::string line;
	while (std::getline(std::cin, line)) {
		guarded([&]() {
			Toks t(line); std::string kind = t.word(); TA a = readTA(t);
			if (kind != "trim" && kind != "trimh") throw std::runtime_error("driver: unknown case kind");
			std::ostringstream os;
			std::unique_ptr<Aut> cur(new Aut(mkAut(a))); Aut u, l;
			VATA::AutBase::StateToStateMap mu, ml;
			calls(os, *cur, u, l, mu, ml);
			while (kind == "trimh" && !t.done()) {
				U mode = t.num(), nf = t.num(); std::vector<U> fin; for (U i = 0; i < nf; ++i) fin.push_back(t.num());
				if (mode == 0) { std::unique_ptr<Aut> n(new Aut(*cur, true, false)); for (U f : fin) n->SetStateFinal(f); cur = std::move(n); }
				else if (mode == 1) { cur->EraseFinalStates(); for (U f : fin) cur->SetStateFinal(f); }
				else if (mode == 2) { std::unique_ptr<Aut> n(new Aut(u, true, false)); for (U f : fin) n->SetStateFinal(f); cur = std::move(n); }
				else if (mode == 3) { std::unique_ptr<Aut> n(new Aut(l, true, false)); for (U f : fin) n->SetStateFinal(f); cur = std::move(n); }
				else if (mode == 4) { cur.reset(new Aut(l)); }
				else throw std::runtime_error("driver: unknown mode");
				os << " V " << showTA(obsAut(*cur)) << ' ';
				calls(os, *cur, u, l, mu, ml);
			}
			return os.str();
		});
	}
	return 0;
}
