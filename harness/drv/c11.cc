// C11 driver: histories over up to 6 ExplicitTreeAut and 6 ExplicitFiniteAut objects.  After EVERY step EVERY live
// object is read (tree: iteration + final states through the facade; word automaton: start states with their
// symbols, final states, transitions — the facade has no read access, so the core is read with the access
// specifiers opened, read-only).  Library operations are additionally re-run on fresh automata built from the
// operands' observed values ("depends only on the operands"), immediately and in later replay steps.
//
// case:   c11 <n> step*
//   tree:  tN h | tC h s | tK h s ct cf | tA h s | tM h s | tV h s | tD h | tR h sym par k c.. | tF h q | tE h | tX h | tQ h
//          tU h s | tL h s | tY h s1 s2 | tI h s M n {k v} off | tT h s M n {k v} off | tJ h s1 s2 | tP k
//   word:  wN h | wC h s | wA h s | wM h s | wV h s | wD h | wR h src sym dst | wF h q | wS h q sym
//          wU h s | wL h s | wY h s1 s2 | wI h s M n {k v} base | wJ h s1 s2 | wP k
//   N new, C copy-construct, K selective copy-construct, A copy-assign, M move-construct (source destroyed), V move-assign
//   (source destroyed), D destroy, R add transition, F final, E EraseFinalStates, X Clear, Q AreTransitionsEmpty, S start,
//   U RemoveUnreachableStates, L RemoveUselessStates, Y Union (maps reported), I ReindexStates, J UnionDisjointStates,
//   T TranslateSymbols (symbol map: table, unlisted symbol x -> x + off),
//   P k = replay of the k-th library operation of the history on fresh operands built from the values recorded then
// output: per step:  S [extras] L <nlive> { t<i> <T> | w<i> <W> }*
//   extras:  U/L/J: X <result of the re-run> Z <result in a pristine process>;  Y: MA <map> MB <map> X <result> MA <map> MB <map> Z <same>;
//            tI: X <result> Z <result>;  wI: M <read-back map> X <result> M <map> Z <result> M <map>;  P: P <result> [maps as for the op]
#include <algorithm>
#include <cstdio>
#include <cstdlib>
#include <functional>
#include <iostream>
#include <list>
#include <map>
#include <memory>
#include <set>
#include <sstream>
#include <stdexcept>
#include <string>
#include <unordered_map>
#include <unordered_set>
#include <vector>
#include <boost/functional/hash.hpp>
#define private public
#define protected public
#include "common.hh"
#include <vata/explicit_finite_aut.hh>
#include "explicit_tree_aut_core.hh"
#include "explicit_finite_aut_core.hh"
#include "loadable_aut.hh"
#undef private
#undef protected
#include "cont_watchdog.hh"
#include <sys/types.h>
#include <sys/wait.h>
using namespace vd;
typedef VATA::ExplicitTreeAut Aut;
typedef VATA::ExplicitFiniteAut FA;
typedef std::vector<std::pair<U, U>> Pairs;

// word automaton value: W <nstart> s.. <npairs> {s sym}.. <nf> f.. <ne> {src sym dst}..   (pairs = the whole startStateToSymbols_ map)
struct WV { std::vector<U> startset; std::vector<std::pair<U, U>> syms; std::vector<U> finals; std::vector<std::vector<U>> edges; };

static std::string showW(WV w) {
	std::sort(w.startset.begin(), w.startset.end()); std::sort(w.syms.begin(), w.syms.end()); std::sort(w.finals.begin(), w.finals.end()); std::sort(w.edges.begin(), w.edges.end());
	std::ostringstream os; os << "W " << w.startset.size(); for (U x : w.startset) os << ' ' << x;
	os << ' ' << w.syms.size(); for (auto& p : w.syms) os << ' ' << p.first << ' ' << p.second;
	os << ' ' << w.finals.size(); for (U f : w.finals) os << ' ' << f;
	os << ' ' << w.edges.size(); for (auto& e : w.edges) os << ' ' << e[0] << ' ' << e[1] << ' ' << e[2];
	return os.str();
}
static WV obsFA(const FA& a) {
	WV w; const VATA::ExplicitFiniteAutCore& core = *a.core_;
	for (auto s : core.startStates_) w.startset.push_back(s);
	for (auto& kv : core.startStateToSymbols_) for (auto sym : kv.second) w.syms.push_back(std::make_pair((U)kv.first, (U)sym));
	for (auto f : core.finalStates_) w.finals.push_back(f);
	for (auto& sc : *core.transitions_) for (auto& ss : *sc.second) for (auto r : ss.second) { std::vector<U> e; e.push_back(sc.first); e.push_back(ss.first); e.push_back(r); w.edges.push_back(e); }
	return w;
}
// rebuild through the public interface: only start states can get start symbols
static void mkFA(FA& a, const WV& w) {
	for (auto& e : w.edges) a.AddTransition(e[0], e[1], e[2]);
	for (U f : w.finals) a.SetStateFinal(f);
	for (U s : w.startset) {
		bool any = false;
		for (auto& p : w.syms) if (p.first == s) { a.SetStateStart(s, p.second); any = true; }
		if (!any) a.SetExistingStateStart(s, FA::SymbolSet());
	}
}
static Pairs readMap(Toks& t) { t.expect("M"); U n = t.num(); Pairs m; for (U i = 0; i < n; ++i) { U k = t.num(); U v = t.num(); m.push_back(std::make_pair(k, v)); } return m; }
static std::string showMap(const char* tag, Pairs m) { std::sort(m.begin(), m.end()); std::ostringstream os; os << tag << ' ' << m.size(); for (auto& p : m) os << ' ' << p.first << ' ' << p.second; return os.str(); }
static Pairs ofStm(const VATA::AutBase::StateToStateMap& m) { Pairs p; for (auto& kv : m) p.push_back(std::make_pair((U)kv.first, (U)kv.second)); return p; }

struct TabReindexF : public VATA::AbstractReindexF {
	std::map<U, U> tab; U off;
	Aut::StateType get(const Aut::StateType& s) const { auto it = tab.find(s); return it == tab.end() ? s + off : it->second; }
	virtual Aut::StateType operator[](const Aut::StateType& s) override { return get(s); }
	virtual Aut::StateType at(const Aut::StateType& s) const override { return get(s); }
};

struct TabSymbolF : public Aut::AbstractSymbolTranslateF {
	std::map<U, U> tab; U off;
	virtual Aut::SymbolType operator()(const Aut::SymbolType& sy) override { auto it = tab.find(sy); return it == tab.end() ? sy + off : it->second; }
};

// one library operation on given operands; returns "<result> [maps]" and optionally hands out the result object
struct LibRec { std::string kind; TA ta, tb; WV wa, wb; Pairs m; U off; };

static std::string runTreeLib(const LibRec& r, Aut& a, Aut& b, std::unique_ptr<Aut>* out, bool resultFirst) {
	std::ostringstream os; std::unique_ptr<Aut> res; std::string maps;
	if (r.kind == "tU") res.reset(new Aut(a.RemoveUnreachableStates()));
	else if (r.kind == "tL") res.reset(new Aut(a.RemoveUselessStates()));
	else if (r.kind == "tJ") res.reset(new Aut(Aut::UnionDisjointStates(a, b)));
	else if (r.kind == "tY") { VATA::AutBase::StateToStateMap ma, mb; res.reset(new Aut(Aut::Union(a, b, &ma, &mb))); maps = showMap("MA", ofStm(ma)) + " " + showMap("MB", ofStm(mb)); }
	else if (r.kind == "tI") { TabReindexF f; for (auto& p : r.m) f.tab[p.first] = p.second; f.off = r.off; res.reset(new Aut(a.ReindexStates(f))); }
	else if (r.kind == "tT") { TabSymbolF f; for (auto& p : r.m) f.tab[p.first] = p.second; f.off = r.off; res.reset(new Aut(a.TranslateSymbols(f))); }
	else throw std::runtime_error("driver: unknown tree op " + r.kind);
	std::string rs = showTA(obsAut(*res));
	if (resultFirst) os << rs << (maps.empty() ? "" : " " + maps); else os << maps;
	if (out) *out = std::move(res);
	return os.str();
}
static std::string runWordLib(const LibRec& r, FA& a, FA& b, std::unique_ptr<FA>* out, bool resultFirst) {
	std::ostringstream os; std::unique_ptr<FA> res; std::string maps;
	if (r.kind == "wU") res.reset(new FA(a.RemoveUnreachableStates()));
	else if (r.kind == "wL") res.reset(new FA(a.RemoveUselessStates()));
	else if (r.kind == "wJ") res.reset(new FA(FA::UnionDisjointStates(a, b)));
	else if (r.kind == "wY") { VATA::AutBase::StateToStateMap ma, mb; res.reset(new FA(FA::Union(a, b, &ma, &mb))); maps = showMap("MA", ofStm(ma)) + " " + showMap("MB", ofStm(mb)); }
	else if (r.kind == "wI") {
		VATA::AutBase::StateToStateMap stm; for (auto& p : r.m) stm.insert(std::make_pair((size_t)p.first, (size_t)p.second));
		size_t cnt = r.off; VATA::AutBase::StateToStateTranslWeak tr(stm, [&cnt](const VATA::AutBase::StateType&) { return cnt++; });
		res.reset(new FA(a.ReindexStates(tr))); maps = showMap("M", ofStm(stm));
	}
	else throw std::runtime_error("driver: unknown word op " + r.kind);
	std::string rs = showW(obsFA(*res));
	if (resultFirst) os << rs << (maps.empty() ? "" : " " + maps); else os << maps;
	if (out) *out = std::move(res);
	return os.str();
}
// the same operation on fresh operands built from recorded values
static std::string rerun(const LibRec& r) {
	if (r.kind[0] == 't') { Aut a = mkAut(r.ta); Aut b = mkAut(r.tb); return runTreeLib(r, a, b, nullptr, true); }
	FA a, b; mkFA(a, r.wa); mkFA(b, r.wb); return runWordLib(r, a, b, nullptr, true);
}

// ---- a pristine process: forked before the first case, it has created no automaton at all.  Each request is served by a
// grandchild forked from it (so the server itself stays pristine): the operation is run there on operands rebuilt from the
// recorded values.  Comparing its answer with the in-history answer checks "does not depend on which other automata were
// created, modified or destroyed earlier in the same process".
static WV readW(Toks& t) {
	WV w; t.expect("W");
	U n = t.num(); for (U i = 0; i < n; ++i) w.startset.push_back(t.num());
	n = t.num(); for (U i = 0; i < n; ++i) { U s = t.num(); U a = t.num(); w.syms.push_back(std::make_pair(s, a)); }
	n = t.num(); for (U i = 0; i < n; ++i) w.finals.push_back(t.num());
	n = t.num(); for (U i = 0; i < n; ++i) { std::vector<U> e; e.push_back(t.num()); e.push_back(t.num()); e.push_back(t.num()); w.edges.push_back(e); }
	return w;
}
static std::string showRec(const LibRec& r) {
	std::ostringstream os; os << r.kind << ' ';
	if (r.kind[0] == 't') os << showTA(r.ta) << ' ' << showTA(r.tb); else os << showW(r.wa) << ' ' << showW(r.wb);
	os << ' ' << showMap("M", r.m) << ' ' << r.off;
	return os.str();
}
static LibRec readRec(const std::string& line) {
	Toks t(line); LibRec r; r.kind = t.word();
	if (r.kind[0] == 't') { r.ta = readTA(t); r.tb = readTA(t); } else { r.wa = readW(t); r.wb = readW(t); }
	r.m = readMap(t); r.off = t.num();
	return r;
}
struct Pristine {
	FILE* to = nullptr; FILE* from = nullptr; pid_t pid = -1;
	void start() {
		int a[2], b[2];
		if (pipe(a) != 0 || pipe(b) != 0) return;
		pid = fork();
		if (pid == 0) {
			close(a[1]); close(b[0]);
			FILE* in = fdopen(a[0], "r"); FILE* out = fdopen(b[1], "w");
			char* buf = nullptr; size_t cap = 0; ssize_t len;
			while ((len = getline(&buf, &cap, in)) > 0) {
				std::string req(buf, (size_t)len); while (!req.empty() && (req.back() == '\n' || req.back() == '\r')) req.pop_back();
				fflush(out);
				pid_t g = fork();
				if (g == 0) {
					alarm(10);
					std::string ans;
					try { ans = rerun(readRec(req)); } catch (const std::exception& e) { ans = std::string("EXC ") + e.what(); } catch (...) { ans = "EXC non_std"; }
					fprintf(out, "%s\n", ans.c_str()); fflush(out); _exit(0);
				}
				int st = 0; if (g > 0) waitpid(g, &st, 0);
				if (g < 0 || !WIFEXITED(st) || WEXITSTATUS(st) != 0) { fprintf(out, "EXC pristine_process_died\n"); fflush(out); }
			}
			_exit(0);
		}
		close(a[0]); close(b[1]);
		to = fdopen(a[1], "w"); from = fdopen(b[0], "r");
	}
	std::string ask(const LibRec& r) {
		if (!to || !from) return "EXC no_pristine_process";
		fprintf(to, "%s\n", showRec(r).c_str()); fflush(to);
		char* buf = nullptr; size_t cap = 0; ssize_t len = getline(&buf, &cap, from);
		if (len <= 0) { free(buf); return "EXC pristine_process_gone"; }
		std::string ans(buf, (size_t)len); free(buf);
		while (!ans.empty() && (ans.back() == '\n' || ans.back() == '\r')) ans.pop_back();
		return ans;
	}
};

int main() {
	Pristine pristine; pristine.start();
	std::string line;
	while (std::getline(std::cin, line)) {
		guarded([&]() {
			Watchdog wd(10);
			Toks t(line); t.expect("c11"); U n = t.num();
			std::unique_ptr<Aut> T[6]; std::unique_ptr<FA> W[6];
			std::vector<LibRec> log;
			std::ostringstream os;
			auto tl = [&](U h) -> Aut& { if (h >= 6 || !T[h]) throw std::runtime_error("driver: dead tree handle"); return *T[h]; };
			auto wl = [&](U h) -> FA& { if (h >= 6 || !W[h]) throw std::runtime_error("driver: dead word handle"); return *W[h]; };
			auto tfree = [&](U h) { if (h >= 6 || T[h]) throw std::runtime_error("driver: tree slot in use"); };
			auto wfree = [&](U h) { if (h >= 6 || W[h]) throw std::runtime_error("driver: word slot in use"); };
			for (U i = 0; i < n; ++i) {
				std::string k = t.word();
				if (i) os << ' ';
				os << "S";
				if (k == "tN") { U h = t.num(); tfree(h); T[h].reset(new Aut()); }
				else if (k == "tC") { U h = t.num(); U s = t.num(); tfree(h); T[h].reset(new Aut(tl(s))); }
				else if (k == "tK") { U h = t.num(); U s = t.num(); bool ct = t.num() == 1; bool cf = t.num() == 1; tfree(h); T[h].reset(new Aut(tl(s), ct, cf)); }
				else if (k == "tA") { U h = t.num(); U s = t.num(); tl(h) = tl(s); }
				else if (k == "tM") { U h = t.num(); U s = t.num(); tfree(h); T[h].reset(new Aut(std::move(tl(s)))); T[s].reset(); }
				else if (k == "tV") { U h = t.num(); U s = t.num(); if (h == s) throw std::runtime_error("driver: self move"); tl(h) = std::move(tl(s)); T[s].reset(); }
				else if (k == "tD") { U h = t.num(); tl(h); T[h].reset(); }
				else if (k == "tR") { U h = t.num(); U sym = t.num(); U par = t.num(); U ar = t.num(); Aut::StateTuple tup; for (U j = 0; j < ar; ++j) tup.push_back(t.num()); tl(h).AddTransition(tup, sym, par); }
				else if (k == "tF") { U h = t.num(); tl(h).SetStateFinal(t.num()); }
				else if (k == "tE") { U h = t.num(); tl(h).EraseFinalStates(); }
				else if (k == "tX") { U h = t.num(); tl(h).Clear(); }
				else if (k == "tQ") { U h = t.num(); (void)tl(h).AreTransitionsEmpty(); }
				else if (k == "tU" || k == "tL" || k == "tY" || k == "tI" || k == "tT" || k == "tJ") {
					LibRec r; r.kind = k; r.off = 0; U h = t.num(); U s1 = t.num(); U s2 = s1;
					if (k == "tY" || k == "tJ") s2 = t.num();
					if (k == "tI" || k == "tT") { r.m = readMap(t); r.off = t.num(); }
					tfree(h); r.ta = obsAut(tl(s1)); r.tb = obsAut(tl(s2));
					std::string maps = runTreeLib(r, tl(s1), tl(s2), &T[h], false);
					if (!maps.empty()) os << ' ' << maps;
					os << " X " << rerun(r) << " Z " << pristine.ask(r);
					log.push_back(r);
				}
				else if (k == "tP" || k == "wP") { U j = t.num(); if (j >= log.size() || log[j].kind[0] != k[0]) throw std::runtime_error("driver: bad replay index"); os << " P " << rerun(log[j]); }
				else if (k == "wN") { U h = t.num(); wfree(h); W[h].reset(new FA()); }
				else if (k == "wC") { U h = t.num(); U s = t.num(); wfree(h); W[h].reset(new FA(wl(s))); }
				else if (k == "wA") { U h = t.num(); U s = t.num(); wl(h) = wl(s); }
				else if (k == "wM") { U h = t.num(); U s = t.num(); wfree(h); W[h].reset(new FA(std::move(wl(s)))); W[s].reset(); }
				else if (k == "wV") { U h = t.num(); U s = t.num(); if (h == s) throw std::runtime_error("driver: self move"); wl(h) = std::move(wl(s)); W[s].reset(); }
				else if (k == "wD") { U h = t.num(); wl(h); W[h].reset(); }
				else if (k == "wR") { U h = t.num(); U a = t.num(); U b = t.num(); U c = t.num(); wl(h).AddTransition(a, b, c); }
				else if (k == "wF") { U h = t.num(); wl(h).SetStateFinal(t.num()); }
				else if (k == "wS") { U h = t.num(); U q = t.num(); U sym = t.num(); wl(h).SetStateStart(q, sym); }
				else if (k == "wU" || k == "wL" || k == "wY" || k == "wI" || k == "wJ") {
					LibRec r; r.kind = k; r.off = 0; U h = t.num(); U s1 = t.num(); U s2 = s1;
					if (k == "wY" || k == "wJ") s2 = t.num();
					if (k == "wI") { r.m = readMap(t); r.off = t.num(); }
					wfree(h); r.wa = obsFA(wl(s1)); r.wb = obsFA(wl(s2));
					std::string maps = runWordLib(r, wl(s1), wl(s2), &W[h], false);
					if (!maps.empty()) os << ' ' << maps;
					os << " X " << rerun(r) << " Z " << pristine.ask(r);
					log.push_back(r);
				}
				else throw std::runtime_error("driver: unknown step " + k);
				U nl = 0; for (U h = 0; h < 6; ++h) { if (T[h]) ++nl; if (W[h]) ++nl; }
				os << " L " << nl;
				for (U h = 0; h < 6; ++h) if (T[h]) os << " t" << h << ' ' << showTA(obsAut(*T[h]));
				for (U h = 0; h < 6; ++h) if (W[h]) os << " w" << h << ' ' << showW(obsFA(*W[h]));
			}
			return os.str();
		});
	}
	return 0;
}
