// C18 driver: runs a history of creating / copying / assigning / combining / destroying MTBDD objects in the
// process-wide node store and reports, after EVERY step, the sizes of the two unique tables (relative to the
// sizes at the start of the case) and the value of every live object on all 2^NV total assignments.
// case:   c18 <u|s> <NV> { C h asgn v d | K h v | Y h g | A h g | U h f a | B h f a b | T h f a b c
//                          | E h asgn off a | X h asgn off a | D h | Z h n }*     (Z: n temporary copies of h made and destroyed)
// output: one word per step  <dLeaf>:<dInternal>:<h>=<values>,<h>=<values>...   ("-" when no object is live)
//         then  END <dLeaf>:<dInternal>   after all remaining objects have been destroyed (ascending h)
// Every case starts after the previous case destroyed all its objects; a case that leaks shows it in END.
#include "mtbdd_common.hh"
using namespace vd;
using namespace vm;

template <class D> std::string runCase(Toks& t) {
	typedef OndriksMTBDD<typename D::T> M;
	unsigned nv = (unsigned) t.num();
	const long l0 = leafTableSize<D>(), i0 = intTableSize<D>();
	std::map<unsigned, std::unique_ptr<M>> hs;
	// the apply functors live as long as the case (as functor members do in the library): their internal caches are re-used across applications
	std::map<unsigned, std::unique_ptr<F1<D>>> f1s; std::map<unsigned, std::unique_ptr<F2<D>>> f2s; std::map<unsigned, std::unique_ptr<F3<D>>> f3s;
	std::ostringstream os;
	auto live = [&](unsigned h) -> M& { auto it = hs.find(h); if (it == hs.end()) throw std::runtime_error("driver: dead handle"); return *it->second; };
	auto fresh = [&](unsigned h) { if (hs.count(h)) throw std::runtime_error("driver: handle already live"); };
	bool firstw = true;
	while (!t.done()) {
		std::string w = t.word();
		unsigned h = t.num();
		if (w == "C") { std::string a = t.word(); unsigned v = t.num(), d = t.num(); fresh(h); hs[h].reset(new M(mkAsgn(a), D::dec(v), D::dec(d))); }
		else if (w == "K") { unsigned v = t.num(); fresh(h); hs[h].reset(new M(D::dec(v))); }
		else if (w == "Y") { unsigned g = t.num(); fresh(h); M& src = live(g); hs[h].reset(new M(src)); }
		else if (w == "A") { unsigned g = t.num(); M& dst = live(h); M& src = live(g); dst = src; }
		else if (w == "U") { unsigned f = t.num(), a = t.num(); fresh(h); if (!f1s.count(f)) f1s[f].reset(new F1<D>(f)); F1<D>& fn = *f1s[f]; M& x = live(a); hs[h].reset(new M(fn(x))); }
		else if (w == "B") { unsigned f = t.num(), a = t.num(), b = t.num(); fresh(h); if (!f2s.count(f)) f2s[f].reset(new F2<D>(f)); F2<D>& fn = *f2s[f]; M& x = live(a); M& y = live(b); hs[h].reset(new M(fn(x, y))); }
		else if (w == "T") { unsigned f = t.num(), a = t.num(), b = t.num(), c = t.num(); fresh(h); if (!f3s.count(f)) f3s[f].reset(new F3<D>(f)); F3<D>& fn = *f3s[f]; M& x = live(a); M& y = live(b); M& z = live(c); hs[h].reset(new M(fn(x, y, z))); }
		else if (w == "E") { std::string as = t.word(); size_t off = t.num(); unsigned a = t.num(); fresh(h); M& x = live(a); hs[h].reset(new M(x.ExtendWith(mkAsgn(as), off))); }
		else if (w == "X") { std::string as = t.word(); size_t off = t.num(); unsigned a = t.num(); fresh(h); M& x = live(a); hs[h].reset(new M(x.GetMtbddForPrefix(mkAsgn(as), off))); }
		else if (w == "D") { live(h); hs.erase(h); }
		else if (w == "Z") {     // h = a live handle: n temporary copies of it are made and destroyed again (in creation order); no lasting effect
			unsigned long n = t.num(); M& src = live(h);
			std::vector<std::unique_ptr<M>> tmp; tmp.reserve(n);
			for (unsigned long i = 0; i < n; ++i) tmp.emplace_back(new M(src));
			for (unsigned long i = 0; i < n; ++i) tmp[i].reset();
		}
		else throw std::runtime_error("driver: unknown op " + w);
		os << (firstw ? "" : " ") << (leafTableSize<D>() - l0) << ':' << (intTableSize<D>() - i0) << ':';
		firstw = false;
		if (hs.empty()) os << '-';
		bool first = true;
		for (auto& p : hs) { os << (first ? "" : ",") << p.first << '=' << valuesOf<D>(*p.second, nv, 2); first = false; }
	}
	while (!hs.empty()) hs.erase(hs.begin());
	os << (firstw ? "" : " ") << "END " << (leafTableSize<D>() - l0) << ':' << (intTableSize<D>() - i0);
	return os.str();
}

int main() {
	return runIsolated([](const std::string& line) -> std::string {
		Toks t(line); t.expect("c18"); std::string dom = t.word();
		if (dom == "u") return runCase<DomU>(t);
		if (dom == "s") return runCase<DomS>(t);
		throw std::runtime_error("driver: unknown domain " + dom);
	});
}
