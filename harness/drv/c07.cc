// C07 driver: inclusion on the two BDD encodings.
// case:   incl <T A> <T B>
// output: V td_rec_nosim td_rec_opt_nosim td_rec_sim td_rec_opt_sim bu_up_nosim bu_down_rec_sim  F <outcomes of the flag sweep: td then bu, 'ok' | 'ni' | 'bad:<word>:<what>'>
//   the simulation for the top-down selections is obtained as the bottom-up class does it itself: sanitize, UnionDisjointStates,
//   ComputeSimulation(TA_DOWNWARD, n), GetTopDownAut of both operands.
#include "bdd_common.hh"
#include <vata/incl_param.hh>
#include <vata/sim_param.hh>
using namespace vd;
typedef VATA::BDDBottomUpTreeAut BU;
typedef VATA::BDDTopDownTreeAut TD;
typedef VATA::InclParam IP;

static IP mkParam(unsigned w) {
	IP ip;
	ip.SetAlgorithm((w & 1) ? IP::e_algorithm::congruences : IP::e_algorithm::antichains);
	ip.SetDirection((w & 2) ? IP::e_direction::downward : IP::e_direction::upward);
	ip.SetUseDownwardCacheImpl((w & 4) != 0);
	ip.SetUseRecursion((w & 8) != 0);
	ip.SetUseSimulation((w & 16) != 0);
	ip.SetSearchOrder((w & 32) ? IP::e_search_order::breadth : IP::e_search_order::depth);
	ip.SetEquivalence((w & 64) != 0);
	return ip;
}
template <class F> static std::string verdict(F f) {
	try { return f() ? "1" : "0"; }
	catch (const VATA::NotImplementedException&) { return "N"; }
	catch (const std::exception&) { return "Estd"; }
	catch (...) { return "Enonstd"; }
}
struct Prepared { TD s, b; VATA::AutBase::StateDiscontBinaryRelation sim; };
static Prepared prepare(const BU& A, const BU& B) {
	BU s = A, b = B;
	VATA::AutBase::StateType n = VATA::AutBase::SanitizeAutsForInclusion(s, b);
	BU u = BU::UnionDisjointStates(s, b);
	VATA::SimParam sp; sp.SetRelation(VATA::SimParam::e_sim_relation::TA_DOWNWARD); sp.SetNumStates(n);
	Prepared p; p.sim = u.ComputeSimulation(sp); p.s = s.GetTopDownAut(); p.b = b.GetTopDownAut();
	return p;
}

int main() {
	std::string line;
	while (std::getline(std::cin, line)) {
		guarded([&]() {
			Toks t(line); t.expect("incl"); TA a = readTA(t); TA b = readTA(t);
			bool sweep = false;
			g_salt = 0;
			while (!t.done()) { std::string w = t.word(); if (w == "SWEEP") sweep = true; else if (w == "SALT") g_salt = t.num(); }
			BU Abu = loadBdd<BU>(a), Bbu = loadBdd<BU>(b);
			TD Atd = loadBdd<TD>(a), Btd = loadBdd<TD>(b);
			std::ostringstream os; os << "V";
			os << ' ' << verdict([&]() { return TD::CheckInclusion(Atd, Btd, mkParam(2 | 8)); });
			os << ' ' << verdict([&]() { return TD::CheckInclusion(Atd, Btd, mkParam(2 | 8 | 4)); });
			os << ' ' << verdict([&]() { Prepared p = prepare(Abu, Bbu); IP ip = mkParam(2 | 8 | 16); ip.SetSimulation(&p.sim); return TD::CheckInclusion(p.s, p.b, ip); });
			os << ' ' << verdict([&]() { Prepared p = prepare(Abu, Bbu); IP ip = mkParam(2 | 8 | 16 | 4); ip.SetSimulation(&p.sim); return TD::CheckInclusion(p.s, p.b, ip); });
			os << ' ' << verdict([&]() { return BU::CheckInclusion(Abu, Bbu, mkParam(0)); });
			os << ' ' << verdict([&]() { return BU::CheckInclusion(Abu, Bbu, mkParam(2 | 8 | 16)); });
			os << " F";
			if (sweep) {
				for (int enc = 0; enc < 2; ++enc) for (unsigned w = 0; w < 128; ++w) {
					bool sim = (w & 16) != 0, down = (w & 2) != 0;
					if (sim && !down) { os << " skip"; continue; }      // no valid upward preorder is available to hand in
					std::string v = verdict([&]() {
						IP ip = mkParam(w);
						if (enc == 0) {
							if (sim) { Prepared p = prepare(Abu, Bbu); ip.SetSimulation(&p.sim); return TD::CheckInclusion(p.s, p.b, ip); }
							return TD::CheckInclusion(Atd, Btd, ip);
						} else {
							if (sim) { Prepared p = prepare(Abu, Bbu); ip.SetSimulation(&p.sim); BU s = Abu, b = Bbu; VATA::AutBase::SanitizeAutsForInclusion(s, b); return BU::CheckInclusion(s, b, ip); }
							return BU::CheckInclusion(Abu, Bbu, ip);
						}
					});
					os << ' ' << v;
				}
			}
			os << " I " << showTA(dumpBdd(Abu)) << ' ' << showTA(dumpBdd(Bbu)) << ' ' << showTA(dumpBdd(Atd)) << ' ' << showTA(dumpBdd(Btd));
			return os.str();
		});
	}
	return 0;
}
