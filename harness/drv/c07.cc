// C07 driver: inclusion on the two BDD encodings.
// case:   incl <T A> <T B>
// output: V td_rec_nosim td_rec_opt_nosim td_rec_sim td_rec_opt_sim bu_up_nosim bu_down_rec_sim bu_up_sim(3 characters: A<=B, A<=A after b = a, B<=A after a = B)  F <outcomes of the flag sweep: td then bu, 'ok' | 'ni' | 'bad:<word>:<what>'>
//   the simulation for the top-down selections is obtained as the bottom-up class does it itself: sanitize, UnionDisjointStates,
//   ComputeSimulation(TA_DOWNWARD, n), GetTopDownAut of both operands.
#include "bdd_common.hh"
#include <vata/incl_param.hh>
#include <vata/sim_param.hh>
using namespace vd;
typedef VATA::BDDBottomUpTreeAut BU;
typedef VATA::BDDTopDownTreeAut TD;
typedef VATA::InclParam IP;

static IP mkParam(unsigned w) {
	IP ip;
	ip.SetAlgorithm((w & 1) ? IP::e_algorithm::congruences : IP::e_algorithm::antichains);
	ip.SetDirection((w & 2) ? IP::e_direction::downward : IP::e_direction::upward);
	ip.SetUseDownwardCacheImpl((w & 4) != 0);
	ip.SetUseRecursion((w & 8) != 0);
	ip.SetUseSimulation((w & 16) != 0);
	ip.SetSearchOrder((w & 32) ? IP::e_search_order::breadth : IP::e_search_order::depth);
	ip.SetEquivalence((w & 64) != 0);
	return ip;
}
template <class F> static std::string verdict(F f) {
	try { return f() ? "1" : "0"; }
	catch (const VATA::NotImplementedException&) { return "N"; }
	catch (const std::exception&) { return "Estd"; }
	catch (...) { return "Enonstd"; }
}
struct Prepared { TD s, b; VATA::AutBase::StateDiscontBinaryRelation sim; };
static Prepared prepare(const BU& A, const BU& B) {
	BU s = A, b = B;
	VATA::AutBase::StateType n = VATA::AutBase::SanitizeAutsForInclusion(s, b);
	BU u = BU::UnionDisjointStates(s, b);
	VATA::SimParam sp; sp.SetRelation(VATA::SimParam::e_sim_relation::TA_DOWNWARD); sp.SetNumStates(n);
	Prepared p; p.sim = u.ComputeSimulation(sp); p.s = s.GetTopDownAut(); p.b = b.GetTopDownAut();
	return p;
}

static int LIMIT_MS = 2000;
int main() {
	if (const char* e = std::getenv("VERIF_CALL_LIMIT_MS")) LIMIT_MS = std::atoi(e);
	std::string line;
	while (std::getline(std::cin, line)) {
		guarded([&]() {
			Toks t(line); t.expect("incl"); TA a = readTA(t); TA b = readTA(t);
			bool sweep = false;
			g_salt = 0;
			while (!t.done()) { std::string w = t.word(); if (w == "SWEEP") sweep = true; else if (w == "SALT") g_salt = t.num(); }
			BU Abu, Bbu; TD Atd, Btd;
			if (!a.rules.empty() && !(a.rules < b.rules) && !(b.rules < a.rules)) {
				// same rule list: the operands are two copies of one loaded automaton (shared transition table) that got their final states afterwards
				TA base; base.rules = a.rules;
				BU Mbu = loadBdd<BU>(base); TD Mtd = loadBdd<TD>(base);
				Abu = Mbu; Bbu = Mbu; Atd = Mtd; Btd = Mtd;
				for (U f : a.finals) { Abu.SetStateFinal(f); Atd.SetStateFinal(f); }
				for (U f : b.finals) { Bbu.SetStateFinal(f); Btd.SetStateFinal(f); }
			} else { Abu = loadBdd<BU>(a); Bbu = loadBdd<BU>(b); Atd = loadBdd<TD>(a); Btd = loadBdd<TD>(b); }
			std::ostringstream os; os << "V";
			auto sel = [&](int k) -> std::string {
				switch (k) {
				case 0: return verdict([&]() { return TD::CheckInclusion(Atd, Btd, mkParam(2 | 8)); });
				case 1: return verdict([&]() { return TD::CheckInclusion(Atd, Btd, mkParam(2 | 8 | 4)); });
				case 2: return verdict([&]() { Prepared p = prepare(Abu, Bbu); IP ip = mkParam(2 | 8 | 16); ip.SetSimulation(&p.sim); return TD::CheckInclusion(p.s, p.b, ip); });
				case 3: return verdict([&]() { Prepared p = prepare(Abu, Bbu); IP ip = mkParam(2 | 8 | 16 | 4); ip.SetSimulation(&p.sim); return TD::CheckInclusion(p.s, p.b, ip); });
				case 4: return verdict([&]() { return BU::CheckInclusion(Abu, Bbu, mkParam(0)); });
				case 5: return verdict([&]() { return BU::CheckInclusion(Abu, Bbu, mkParam(2 | 8 | 16)); });
				default: {
					// bottom-up, upward, "with simulation": the library runs on the caller's own objects (prepared by the caller, as for every selection with
					// simulation); the generic upward checker does not read the relation. History on the SAME objects: A <= B, then b = a (copy assignment)
					// and A <= A, then a = (saved B) and B <= A.   three characters
					std::string out;
					BU s = Abu, b = Bbu; VATA::AutBase::SanitizeAutsForInclusion(s, b);
					VATA::AutBase::StateDiscontBinaryRelation rel; IP ip = mkParam(16); ip.SetSimulation(&rel);
					BU savedB = b;
					out += verdict([&]() { return BU::CheckInclusion(s, b, ip); });
					b = s;
					out += verdict([&]() { return BU::CheckInclusion(s, b, ip); });
					s = savedB;
					out += verdict([&]() { return BU::CheckInclusion(s, b, ip); });
					return out;
				}
				}
			};
			// the selections run in a forked child under a time limit: one that exceeds it is inconclusive ("T"), never a violation
			std::string all = forked([&]() { std::ostringstream o; for (int k = 0; k < 7; ++k) o << ' ' << sel(k); return o.str(); }, LIMIT_MS);
			if (all == "@TIMEOUT" || all == "@CRASH" || all == "@EXC") {
				for (int k = 0; k < 7; ++k) {
					std::string r = forked([&]() { return sel(k); }, LIMIT_MS);
					os << ' ' << (r == "@TIMEOUT" ? "T" : r == "@CRASH" ? "Ecrash" : r == "@EXC" ? "Enonstd" : r);
				}
			} else os << all;
			os << " F";
			if (sweep) {
				for (int enc = 0; enc < 2; ++enc) for (unsigned w = 0; w < 128; ++w) {
					bool sim = (w & 16) != 0, down = (w & 2) != 0;
					if (sim && !down) { os << " skip"; continue; }      // no valid upward preorder is available to hand in
					std::string v = verdict([&]() {
						IP ip = mkParam(w);
						if (enc == 0) {
							if (sim) { Prepared p = prepare(Abu, Bbu); ip.SetSimulation(&p.sim); return TD::CheckInclusion(p.s, p.b, ip); }
							return TD::CheckInclusion(Atd, Btd, ip);
						} else {
							if (sim) { Prepared p = prepare(Abu, Bbu); ip.SetSimulation(&p.sim); BU s = Abu, b = Bbu; VATA::AutBase::SanitizeAutsForInclusion(s, b); return BU::CheckInclusion(s, b, ip); }
							return BU::CheckInclusion(Abu, Bbu, ip);
						}
					});
					os << ' ' << v;
				}
			}
			os << " I " << showTA(dumpBdd(Abu)) << ' ' << showTA(dumpBdd(Bbu)) << ' ' << showTA(dumpBdd(Atd)) << ' ' << showTA(dumpBdd(Btd));
			return os.str();
		});
	}
	return 0;
}
