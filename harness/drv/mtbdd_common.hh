// Shared glue of the C17 / C18 drivers: instantiates the header-only MTBDD templates of /repo/src/mtbdd for
// two leaf domains, defines the leaf operations by code (the same tables as coq/MtbddOps.v) and the
// canonical printing.  No decisions are taken here.
//
// leaf domains   u : unsigned, values 0..3          s : std::set<unsigned> over {0,1,2}, printed as bit mask 0..7
// assignments    strings over 0 1 X, position i = variable i; "-" = empty
#ifndef VERIF_DRV_MTBDD_COMMON_HH
#define VERIF_DRV_MTBDD_COMMON_HH

#include "common.hh"

#include <vata/vata.hh>
#include <vata/sym_var_asgn.hh>
#include <vata/util/triple.hh>
#include <vata/util/convert.hh>
#include <vata/notimpl_except.hh>

#include <cassert>
#include <stdint.h>
#include <poll.h>
#include <signal.h>
#include <sys/types.h>
#include <sys/wait.h>
#include <unistd.h>
#include <functional>
#include <map>
#include <memory>
#include <set>
#include <stdexcept>
#include <unordered_map>
#include <unordered_set>
#include <vector>
#include <boost/functional/hash.hpp>

// read-only access to the two process-wide unique tables (DESIGN.md section 6): every standard, boost and
// vata header the package needs is already included above, so only the package's own classes are affected
#define private public
#include "mtbdd/ondriks_mtbdd.hh"
#include "mtbdd/apply1func.hh"
#include "mtbdd/apply2func.hh"
#include "mtbdd/apply3func.hh"
#include "mtbdd/void_apply1func.hh"
#include "mtbdd/void_apply2func.hh"
#undef private

namespace vm {

using VATA::SymbolicVarAsgn;
using VATA::MTBDDPkg::OndriksMTBDD;

// ---- leaf operations by code, on the printed representation (unsigned 0..3 / mask 0..7) -----------------
inline unsigned u_op1(unsigned f, unsigned a) {
	switch (f) { case 0: return (a + 1) % 4; case 1: return a % 2; case 2: return 1; case 3: return a; default: return 3 - a; } }
inline unsigned u_op2(unsigned f, unsigned a, unsigned b) {
	switch (f) { case 0: return (a + b) % 4; case 1: return a > b ? a : b; case 2: return a < b ? a : b; case 3: return (a * b) % 4;
	             case 4: return a; case 5: return b; default: return a == b ? 1 : 0; } }
inline unsigned u_op3(unsigned f, unsigned a, unsigned b, unsigned c) {
	switch (f) { case 0: return (a + b + c) % 4; case 1: return a != 0 ? b : c; default: { unsigned m = b < c ? b : c; return a > m ? a : m; } } }
inline unsigned s_op1(unsigned f, unsigned a) {
	switch (f) { case 0: return 7u ^ a; case 1: return a; case 2: return 0; default: return a & 1u; } }
inline unsigned s_op2(unsigned f, unsigned a, unsigned b) {
	switch (f) { case 0: return a | b; case 1: return a & b; case 2: return a & ~b & 7u; default: return a ^ b; } }
inline unsigned s_op3(unsigned f, unsigned a, unsigned b, unsigned c) {
	switch (f) { case 0: return a | b | c; case 1: return (a & b) | c; default: return a & ~b & ~c & 7u; } }

struct DomU {
	typedef unsigned T;
	static T dec(unsigned m) { return m; }
	static unsigned enc(const T& v) { return v; }
	static unsigned op1(unsigned f, unsigned a) { return u_op1(f, a); }
	static unsigned op2(unsigned f, unsigned a, unsigned b) { return u_op2(f, a, b); }
	static unsigned op3(unsigned f, unsigned a, unsigned b, unsigned c) { return u_op3(f, a, b, c); }
};
struct DomS {
	typedef std::set<unsigned> T;
	static T dec(unsigned m) { T s; for (unsigned i = 0; i < 3; ++i) if (m & (1u << i)) s.insert(i); return s; }
	static unsigned enc(const T& v) { unsigned m = 0; for (unsigned e : v) m |= (1u << e); return m; }
	static unsigned op1(unsigned f, unsigned a) { return s_op1(f, a); }
	static unsigned op2(unsigned f, unsigned a, unsigned b) { return s_op2(f, a, b); }
	static unsigned op3(unsigned f, unsigned a, unsigned b, unsigned c) { return s_op3(f, a, b, c); }
};

template <class D> struct F1 : public VATA::MTBDDPkg::Apply1Functor<F1<D>, typename D::T, typename D::T> {
	unsigned code; explicit F1(unsigned c) : code(c) {}
	typename D::T ApplyOperation(const typename D::T& a) { return D::dec(D::op1(code, D::enc(a))); } };
template <class D> struct F2 : public VATA::MTBDDPkg::Apply2Functor<F2<D>, typename D::T, typename D::T, typename D::T> {
	unsigned code; explicit F2(unsigned c) : code(c) {}
	typename D::T ApplyOperation(const typename D::T& a, const typename D::T& b) { return D::dec(D::op2(code, D::enc(a), D::enc(b))); } };
template <class D> struct F3 : public VATA::MTBDDPkg::Apply3Functor<F3<D>, typename D::T, typename D::T, typename D::T, typename D::T> {
	unsigned code; explicit F3(unsigned c) : code(c) {}
	typename D::T ApplyOperation(const typename D::T& a, const typename D::T& b, const typename D::T& c) {
		return D::dec(D::op3(code, D::enc(a), D::enc(b), D::enc(c))); } };
// the traversing functors: collect what they are shown
template <class D> struct W1 : public VATA::MTBDDPkg::VoidApply1Functor<W1<D>, typename D::T> {
	std::set<unsigned> seen;
	void ApplyOperation(const typename D::T& a) { seen.insert(D::enc(a)); } };
template <class D> struct W2 : public VATA::MTBDDPkg::VoidApply2Functor<W2<D>, typename D::T, typename D::T> {
	std::set<unsigned> seen;
	void ApplyOperation(const typename D::T& a, const typename D::T& b) { seen.insert(D::enc(a) * 8 + D::enc(b)); } };

// the same, as an application uses it: ONE functor object for many traversals, some of which it cuts short with stopProcessing()
// (after the stopAt-th leaf pair; 0 = never). Every new traversal must start afresh, whatever the previous one did.
template <class D> struct W2R : public VATA::MTBDDPkg::VoidApply2Functor<W2R<D>, typename D::T, typename D::T> {
	std::set<unsigned> seen; unsigned long calls = 0, stopAt = 0;
	void ApplyOperation(const typename D::T& a, const typename D::T& b) {
		seen.insert(D::enc(a) * 8 + D::enc(b)); if (stopAt && ++calls >= stopAt) this->stopProcessing(); } };

// an assignment is built from its text; every second one that ends in don't-cares is instead built from the text without them and then
// widened in place with AddVariablesUpTo (the two ways must denote the same assignment)
inline SymbolicVarAsgn mkAsgn(const std::string& w) {
	static unsigned long calls = 0; ++calls;
	std::string s = (w == "-" ? std::string() : w);
	size_t k = s.size(); while (k > 0 && s[k - 1] == 'X') --k;
	if (k < s.size() && k > 0 && (calls % 2 == 0)) { SymbolicVarAsgn a(s.substr(0, k)); a.AddVariablesUpTo(s.size() - 1); return a; }
	return SymbolicVarAsgn(s);
}

// the t-th assignment over n variables in base `base` (2: total assignments, 3: with don't-care), variable i = digit i
inline std::string nthAsgn(unsigned long t, unsigned n, unsigned base) {
	std::string s; for (unsigned i = 0; i < n; ++i) { unsigned d = t % base; t /= base; s += (d == 0 ? '0' : d == 1 ? '1' : 'X'); } return s; }
inline unsigned long ipow(unsigned b, unsigned n) { unsigned long r = 1; while (n--) r *= b; return r; }

template <class D> std::string valuesOf(const OndriksMTBDD<typename D::T>& m, unsigned n, unsigned base) {
	std::string out; unsigned long cnt = ipow(base, n);
	for (unsigned long t = 0; t < cnt; ++t) { SymbolicVarAsgn a(nthAsgn(t, n, base)); out += char('0' + D::enc(m.GetValue(a))); }
	return out; }

template <class D> long leafTableSize() { return (long) OndriksMTBDD<typename D::T>::leafCache_.size(); }
template <class D> long intTableSize() { return (long) OndriksMTBDD<typename D::T>::internalCache_.size(); }

// ---- crash isolation ---------------------------------------------------------------------------------------
// A reference-counting error shows as a crash, a hang or heap corruption.  The cases are therefore run in a forked
// worker; when the worker dies (or is silent for 3 s) the case it was working on gets the result line
// "CRASH signal <n>" / "HANG" and a fresh worker continues with the next case, so one output line per case is
// always produced and a broken library cannot stall the check (after 40 deaths the remaining cases are answered
// "CRASH skipped ..." without being run).
template <class F> std::string guardedStr(F f) {
	try { return f(); }
	catch (const VATA::NotImplementedException& e) { return "EXC NotImplemented"; }
	catch (const std::out_of_range& e) { return "EXC out_of_range"; }
	catch (const std::runtime_error& e) { return std::string("EXC runtime_error ") + e.what(); }
	catch (const std::exception& e) { return "EXC std_exception"; }
	catch (...) { return "EXC non_std"; }
}

template <class H> int runIsolated(H handleLine) {
	std::vector<std::string> lines; std::string line;
	while (std::getline(std::cin, line)) lines.push_back(line);
	size_t i = 0, deaths = 0;
	while (i < lines.size()) {
		if (deaths >= 40) {	// the library is broken beyond doubt: do not spend the time budget on it
			for (; i < lines.size(); ++i) std::cout << "CRASH skipped after 40 crashes or hangs in this run\n";
			break;
		}
		int fd[2]; if (pipe(fd) != 0) return 3;
		std::cout.flush(); fflush(stdout);
		pid_t pid = fork();
		if (pid < 0) return 3;
		if (pid == 0) {
			close(fd[0]);
			for (size_t k = i; k < lines.size(); ++k) {
				const std::string& l = lines[k];
				std::string out = guardedStr([&]() { return handleLine(l); });
				for (char& c : out) if (c == '\n') c = ' ';
				out += "\n";
				size_t off = 0; while (off < out.size()) { ssize_t w = write(fd[1], out.data() + off, out.size() - off); if (w <= 0) _exit(4); off += (size_t) w; }
			}
			_exit(0);
		}
		close(fd[1]);
		std::string buf; size_t got = 0; bool hang = false; char tmp[65536];
		for (;;) {
			struct pollfd p; p.fd = fd[0]; p.events = POLLIN; p.revents = 0;
			int r = poll(&p, 1, 3000);
			if (r == 0) { hang = true; kill(pid, SIGKILL); break; }
			if (r < 0) break;
			ssize_t n = read(fd[0], tmp, sizeof tmp);
			if (n <= 0) break;
			buf.append(tmp, (size_t) n);
			size_t pos;
			while ((pos = buf.find('\n')) != std::string::npos) { std::cout << buf.substr(0, pos) << "\n"; buf.erase(0, pos + 1); ++got; }
		}
		close(fd[0]);
		int st = 0; waitpid(pid, &st, 0);
		i += got;
		if (i < lines.size()) {
			if (hang) std::cout << "HANG no output for 3 s\n";
			else if (WIFSIGNALED(st)) std::cout << "CRASH signal " << WTERMSIG(st) << "\n";
			else std::cout << "CRASH exit " << (WIFEXITED(st) ? WEXITSTATUS(st) : -1) << "\n";
			++i; ++deaths;
		}
		std::cout.flush();
	}
	return 0;
}

} // namespace vm
#endif
