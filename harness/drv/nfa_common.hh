// Shared glue for the word-automata drivers (C09, C10): case format, construction of
// ExplicitFiniteAut either through the Timbuk loader or through the facade setters,
// observation, parsing of dumps. No decisions are taken here.
//
// word automaton   W <ns> s1.. <nf> f1.. <ne> { <src> <sym> <dst> }*
// The facade has no iteration and no GetFinalStates; final states and edges are read from the
// core object (read-only) behind the facade, start states through the public GetStartStates().
#ifndef VERIF_DRV_NFA_COMMON_HH
#define VERIF_DRV_NFA_COMMON_HH

#include <algorithm>
#include <cstdio>
#include <cstdlib>
#include <functional>
#include <iostream>
#include <list>
#include <map>
#include <memory>
#include <set>
#include <sstream>
#include <string>
#include <unordered_map>
#include <unordered_set>
#include <vector>

#define private public
#define protected public
#include <vata/explicit_finite_aut.hh>
#include "explicit_finite_aut_core.hh"
#include "loadable_aut.hh"
#undef private
#undef protected
#include <vata/parsing/timbuk_parser.hh>
#include <vata/serialization/timbuk_serializer.hh>
#include <vata/incl_param.hh>

#include "common.hh"

namespace vd {

typedef VATA::ExplicitFiniteAut FA;

struct Edge { U src, sym, dst;
	bool operator<(const Edge& o) const { if (src != o.src) return src < o.src; if (sym != o.sym) return sym < o.sym; return dst < o.dst; }
	bool operator==(const Edge& o) const { return src == o.src && sym == o.sym && dst == o.dst; } };
struct NFA { std::vector<U> starts, finals; std::vector<Edge> edges; };

inline NFA readW(Toks& t) {
	NFA a; t.expect("W");
	U ns = t.num(); for (U i = 0; i < ns; ++i) a.starts.push_back(t.num());
	U nf = t.num(); for (U i = 0; i < nf; ++i) a.finals.push_back(t.num());
	U ne = t.num(); for (U i = 0; i < ne; ++i) { Edge e; e.src = t.num(); e.sym = t.num(); e.dst = t.num(); a.edges.push_back(e); }
	return a;
}

inline std::string showW(const NFA& a0) {
	NFA a = a0;
	std::sort(a.starts.begin(), a.starts.end()); a.starts.erase(std::unique(a.starts.begin(), a.starts.end()), a.starts.end());
	std::sort(a.finals.begin(), a.finals.end()); a.finals.erase(std::unique(a.finals.begin(), a.finals.end()), a.finals.end());
	std::sort(a.edges.begin(), a.edges.end()); a.edges.erase(std::unique(a.edges.begin(), a.edges.end()), a.edges.end());
	std::ostringstream os;
	os << "W " << a.starts.size(); for (U s : a.starts) os << ' ' << s;
	os << ' ' << a.finals.size(); for (U f : a.finals) os << ' ' << f;
	os << ' ' << a.edges.size(); for (const Edge& e : a.edges) os << ' ' << e.src << ' ' << e.sym << ' ' << e.dst;
	return os.str();
}

// symbols of the case format are numbers k, named "a<k>" in the (process-wide) alphabet; "x" starts
inline std::string symName(U k) { std::ostringstream os; os << 'a' << k; return os.str(); }
inline U symNumber(const std::string& n) {
	if (n.size() < 2 || n[0] != 'a') throw std::runtime_error("driver: unexpected symbol name " + n);
	return std::strtoull(n.c_str() + 1, nullptr, 10);
}

inline std::string timbukText(const NFA& a) {
	std::set<U> syms, states;
	for (const Edge& e : a.edges) { syms.insert(e.sym); states.insert(e.src); states.insert(e.dst); }
	for (U s : a.starts) states.insert(s);
	for (U f : a.finals) states.insert(f);
	std::ostringstream os;
	os << "Ops";
	for (U k : syms) os << ' ' << symName(k) << ":1";
	os << " x:0\n\nAutomaton A\nStates";
	for (U s : states) os << " q" << s;
	os << "\nFinal States";
	for (U f : a.finals) os << " q" << f;
	os << "\nTransitions\n";
	for (U s : a.starts) os << "x -> q" << s << "\n";
	for (const Edge& e : a.edges) os << symName(e.sym) << "(q" << e.src << ") -> q" << e.dst << "\n";
	return os.str();
}

// mode 'L': through the Timbuk loader with a state translator keeping the numbers ("q7" -> 7);
// mode 'F': through the facade's SetStateStart / SetStateFinal / AddTransition
inline FA mkNfa(const NFA& a, char mode) {
	FA aut;
	if (mode == 'L') {
		VATA::Parsing::TimbukParser parser;
		VATA::AutBase::StateDict dict;
		VATA::AutBase::StringToStateTranslWeak transl(dict,
			[](const std::string& s) -> VATA::AutBase::StateType { return std::strtoull(s.c_str() + 1, nullptr, 10); });
		aut.LoadFromString(parser, timbukText(a), transl);
	} else {
		auto fwd = aut.GetAlphabet()->GetSymbolTransl();
		FA::SymbolType x = (*fwd)("x");
		for (U s : a.starts) aut.SetStateStart(s, x);
		for (U f : a.finals) aut.SetStateFinal(f);
		for (const Edge& e : a.edges) aut.AddTransition(e.src, (*fwd)(symName(e.sym)), e.dst);
	}
	return aut;
}

// two operands; when they have the same (non-empty) edge list and are built through the facade they are produced as an application would:
// as two copies of one automaton that got their own start and final states afterwards (the copies share the copy-on-write transition table)
inline void mkPair(const NFA& na, const NFA& nb, char mode, FA& a, FA& b) {
	if (mode == 'F' && !na.edges.empty() && na.edges == nb.edges) {
		NFA base; base.edges = na.edges; FA m = mkNfa(base, 'F');
		auto fwd = m.GetAlphabet()->GetSymbolTransl(); FA::SymbolType x = (*fwd)("x");
		a = m; for (U s : na.starts) a.SetStateStart(s, x); for (U f : na.finals) a.SetStateFinal(f);
		b = m; for (U s : nb.starts) b.SetStateStart(s, x); for (U f : nb.finals) b.SetStateFinal(f);
	} else { a = mkNfa(na, mode); b = mkNfa(nb, mode); }
}

// observation: start states through the public API, final states and edges from the core
inline NFA obsNfa(const FA& aut) {
	NFA a;
	auto bwd = aut.GetAlphabet()->GetSymbolBackTransl();
	for (auto s : aut.GetStartStates()) a.starts.push_back(s);
	for (auto f : aut.core_->finalStates_) a.finals.push_back(f);
	for (auto& sc : *aut.core_->transitions_)
		for (auto& symset : *sc.second)
			for (auto& dst : symset.second) { Edge e; e.src = sc.first; e.sym = symNumber((*bwd)(symset.first)); e.dst = dst; a.edges.push_back(e); }
	return a;
}

// parse the text produced by the Timbuk serializer (states are dumped as their numbers)
inline NFA parseDump(const std::string& text) {
	NFA a; std::istringstream is(text); std::string line; bool trans = false;
	while (std::getline(is, line)) {
		if (!trans) {
			if (line.compare(0, 12, "Final States") == 0) { std::istringstream ls(line.substr(12)); std::string w; while (ls >> w) a.finals.push_back(std::strtoull(w.c_str(), nullptr, 10)); }
			else if (line.compare(0, 11, "Transitions") == 0) trans = true;
			continue;
		}
		if (line.empty()) continue;
		size_t arrow = line.find(" -> ");
		if (arrow == std::string::npos) throw std::runtime_error("driver: dump line without arrow: " + line);
		std::string lhs = line.substr(0, arrow), rhs = line.substr(arrow + 4);
		U dst = std::strtoull(rhs.c_str(), nullptr, 10);
		size_t par = lhs.find('(');
		if (par == std::string::npos) a.starts.push_back(dst);
		else { Edge e; e.sym = symNumber(lhs.substr(0, par)); e.src = std::strtoull(lhs.c_str() + par + 1, nullptr, 10); e.dst = dst; a.edges.push_back(e); }
	}
	return a;
}

// DumpToString through the public API; every outcome becomes a token sequence
inline std::string dumpObs(const FA& aut) {
	try {
		VATA::Serialization::TimbukSerializer ser;
		std::string text = aut.DumpToString(ser);
		return showW(parseDump(text));
	}
	catch (const std::exception& e) { return "EXC"; }
	catch (...) { return "EXC"; }
}

} // namespace vd
#endif
