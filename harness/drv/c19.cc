// C19 driver: invariance under renaming / re-ordering and the laws of language inclusion on automata read from files
// (the large shipped automata, where no brute-force reference exists: expected values come from theorems).
// case:   laws <fileA> <fileB> <seed> <limit_ms>     or     laws <T A> <T B> <seed> <limit_ms>   (generated automata)
//         inv <T A> <T B> <seed> <limit_ms> <k>      output: INV=<8>:<8>:...  (the pair and k twins, 8 selections each) N=..
// output: AB=<8> AA=<8> TW=<8> E=<eA><eA'> LAWS=<26> SZ=<redA>:<redA'>:<trimA>:<trimA'> SIMD=<ok|diff:q,r|skip> SIMU=<...> N=<statesA>:<rulesA>:<statesB>:<rulesB>
//   verdict characters: 0 1 T(time limit) E(exception) N(not implemented)
//   selections in order: up_nosim up_sim down_nonrec_nosim down_nonrec_sim down_rec_nosim down_rec_opt_nosim down_rec_sim down_rec_opt_sim
#include "common.hh"
#include <vata/incl_param.hh>
#include <vata/sim_param.hh>
#include <vata/parsing/timbuk_parser.hh>
#include <vata/serialization/timbuk_serializer.hh>
#include <fstream>
#include <map>
#include <random>
#include <poll.h>
#include <signal.h>
#include <sys/wait.h>
#include <unistd.h>
using namespace vd;
typedef VATA::ExplicitTreeAut Aut;
typedef VATA::InclParam IP;
typedef VATA::AutBase::StateType St;

static int LIMIT_MS = 10000;

static std::string slurp(const std::string& p) { std::ifstream f(p); if (!f) throw std::runtime_error("driver: cannot read " + p); std::stringstream ss; ss << f.rdbuf(); return ss.str(); }
static Aut loadFile(const std::string& p) { VATA::Parsing::TimbukParser parser; Aut a; VATA::AutBase::StateDict d; a.LoadFromString(parser, slurp(p), d); return a; }

// raw = the library is called on the caller's objects as they are (allowed without simulation: CheckInclusion prepares copies itself)
static bool inclSel(const Aut& a0, const Aut& b0, int sel, bool raw = false) {
	static const bool DOWN[8] = {0,0,1,1,1,1,1,1}, REC[8] = {0,0,0,0,1,1,1,1}, OPT[8] = {0,0,0,0,0,1,0,1}, SIM[8] = {0,1,0,1,0,0,1,1};
	Aut smaller = a0, bigger = b0;
	IP ip; ip.SetAlgorithm(IP::e_algorithm::antichains);
	ip.SetDirection(DOWN[sel] ? IP::e_direction::downward : IP::e_direction::upward);
	ip.SetUseRecursion(REC[sel]); ip.SetUseDownwardCacheImpl(OPT[sel]); ip.SetUseSimulation(SIM[sel]);
	if (raw && !SIM[sel]) return Aut::CheckInclusion(a0, b0, ip);
	St states = VATA::AutBase::SanitizeAutsForInclusion(smaller, bigger);
	VATA::AutBase::StateDiscontBinaryRelation rel;
	if (SIM[sel]) {
		Aut u = Aut::UnionDisjointStates(smaller, bigger);
		VATA::SimParam sp; sp.SetRelation(DOWN[sel] ? VATA::SimParam::e_sim_relation::TA_DOWNWARD : VATA::SimParam::e_sim_relation::TA_UPWARD); sp.SetNumStates(states);
		rel = u.ComputeSimulation(sp); ip.SetSimulation(&rel);
	}
	return Aut::CheckInclusion(smaller, bigger, ip);
}

// run f in a forked child under the time limit; one character result
template <class F> static char timed(F f) {
	int fd[2]; if (pipe(fd) != 0) return 'E';
	std::cout.flush();
	pid_t pid = fork();
	if (pid < 0) return 'E';
	if (pid == 0) {
		close(fd[0]); char c = 'E';
		try { c = f() ? '1' : '0'; }
		catch (const VATA::NotImplementedException&) { c = 'N'; }
		catch (...) { c = 'E'; }
		ssize_t w = write(fd[1], &c, 1); (void)w; _exit(0);
	}
	close(fd[1]);
	struct pollfd p; p.fd = fd[0]; p.events = POLLIN;
	char c = 'T';
	int r = poll(&p, 1, LIMIT_MS);
	if (r > 0) { if (read(fd[0], &c, 1) != 1) c = 'E'; }
	else { kill(pid, SIGKILL); c = 'T'; }
	close(fd[0]); int st; waitpid(pid, &st, 0);
	return c;
}

// the 8 selections in one forked child under the time limit; 8 characters ('T' x 8 when the limit is exceeded)
template <class F> static std::string timed8(F f) {
	int fd[2]; if (pipe(fd) != 0) return "EEEEEEEE";
	std::cout.flush();
	pid_t pid = fork();
	if (pid < 0) return "EEEEEEEE";
	if (pid == 0) {
		close(fd[0]); std::string out;
		for (int s = 0; s < 8; ++s) { char c = 'E'; try { c = f(s) ? '1' : '0'; } catch (const VATA::NotImplementedException&) { c = 'N'; } catch (...) { c = 'E'; } out += c; }
		ssize_t w = write(fd[1], out.data(), out.size()); (void)w; _exit(0);
	}
	close(fd[1]);
	struct pollfd p; p.fd = fd[0]; p.events = POLLIN;
	std::string res = "TTTTTTTT";
	if (poll(&p, 1, LIMIT_MS) > 0) { char buf[16]; ssize_t k = read(fd[0], buf, 8); res = k == 8 ? std::string(buf, 8) : "EEEEEEEE"; }
	else kill(pid, SIGKILL);
	close(fd[0]); int st; waitpid(pid, &st, 0);
	return res;
}

struct Flat { std::vector<St> finals; std::vector<Rule> rules; std::set<St> states; };
static Flat flat(const Aut& a) {
	Flat f; for (auto q : a.GetFinalStates()) { f.finals.push_back(q); f.states.insert(q); }
	for (auto tr : a) { Rule r; r.sym = tr.GetSymbol(); r.par = tr.GetParent(); f.states.insert(r.par); for (auto c : tr.GetChildren()) { r.ch.push_back(c); f.states.insert(c); } f.rules.push_back(r); }
	return f;
}
// twin: states renamed by a random bijection onto 0..n-1, rules inserted in shuffled order, symbols re-registered in symmap order
static Aut twin(const Flat& f, std::mt19937& rng, const std::map<U, U>& symmap, Aut::AlphabetType* alpha, std::map<St, St>& h) {
	std::vector<St> st(f.states.begin(), f.states.end()), tgt(st.size());
	for (size_t i = 0; i < tgt.size(); ++i) tgt[i] = i;
	std::shuffle(tgt.begin(), tgt.end(), rng);
	for (size_t i = 0; i < st.size(); ++i) h[st[i]] = tgt[i];
	std::vector<Rule> rs = f.rules; std::shuffle(rs.begin(), rs.end(), rng);
	Aut t; if (alpha) t.SetAlphabet(*alpha);
	for (auto& r : rs) { Aut::StateTuple tup; for (U c : r.ch) tup.push_back(h[c]); t.AddTransition(tup, symmap.empty() ? r.sym : symmap.at(r.sym), h[r.par]); }
	std::vector<St> fs = f.finals; std::shuffle(fs.begin(), fs.end(), rng);
	for (St q : fs) t.SetStateFinal(h[q]);
	return t;
}
static Aut dense(const Aut& a, St& n) {
	VATA::AutBase::StateToStateMap m; n = 0;
	VATA::AutBase::StateToStateTranslWeak tr(m, [&n](const St&) { return n++; });
	return a.ReindexStates(tr);
}
static std::string simCompare(const Aut& d0, St n, bool down, std::mt19937& rng) {
	// relation on d0 (dense 0..n-1) against the relation on a twin, renamed back
	if (n == 0) return "skip";
	int fd[2]; if (pipe(fd) != 0) return "E"; std::cout.flush();
	pid_t pid = fork();
	if (pid == 0) {
		close(fd[0]); std::string out = "E";
		try {
			VATA::SimParam sp; sp.SetRelation(down ? VATA::SimParam::e_sim_relation::TA_DOWNWARD : VATA::SimParam::e_sim_relation::TA_UPWARD); sp.SetNumStates(n);
			VATA::AutBase::StateDiscontBinaryRelation r0 = d0.ComputeSimulation(sp);
			Flat f = flat(d0); std::map<St, St> h; std::map<U, U> nosym;
			for (St q = 0; q < n; ++q) f.states.insert(q);
			Aut t = twin(f, rng, nosym, nullptr, h);
			VATA::AutBase::StateDiscontBinaryRelation r1 = t.ComputeSimulation(sp);
			out = "ok";
			for (St q = 0; q < n && out == "ok"; ++q) for (St r = 0; r < n; ++r)
				if (r0.get(q, r) != r1.get(h[q], h[r])) { std::ostringstream os; os << "diff:" << q << "," << r; out = os.str(); break; }
			// reflexivity of the result (a preorder)
			for (St q = 0; q < n && out == "ok"; ++q) if (!r0.get(q, q)) { std::ostringstream os; os << "diff:" << q << "," << q; out = os.str(); }
		} catch (...) { out = "E"; }
		ssize_t w = write(fd[1], out.c_str(), out.size()); (void)w; _exit(0);
	}
	close(fd[1]); struct pollfd p; p.fd = fd[0]; p.events = POLLIN; std::string res = "T";
	if (poll(&p, 1, LIMIT_MS) > 0) { char buf[128]; ssize_t k = read(fd[0], buf, sizeof buf); res = k > 0 ? std::string(buf, k) : "E"; }
	else kill(pid, SIGKILL);
	close(fd[0]); int st; waitpid(pid, &st, 0); return res;
}

int main() {
	std::string line;
	while (std::getline(std::cin, line)) {
		guarded([&]() {
			Toks t(line); std::string kind = t.word();
			if (kind != "laws" && kind != "inv") throw std::runtime_error("driver: unknown case kind");
			Aut A, B;
			if (t.v[t.i] == "T") {     // generated automata, inline: symbols s<code>:<rank> registered in a fresh alphabet so that code = registration index
				TA a = readTA(t); TA b = readTA(t);
				std::map<U, U> rank; for (auto& r : a.rules) rank[r.sym] = r.ch.size(); for (auto& r : b.rules) rank[r.sym] = r.ch.size();
				std::shared_ptr<Aut::OnTheFlyAlphabet> otf0(new Aut::OnTheFlyAlphabet());
				{
					auto ft = otf0->GetSymbolTransl(); U mx = rank.empty() ? 0 : rank.rbegin()->first;
					for (U c = 0; c <= mx; ++c) { std::ostringstream nm; nm << "s" << c; if ((*ft)(Aut::StringRank(nm.str(), rank.count(c) ? rank[c] : 0)) != c) throw std::runtime_error("driver: symbol code"); }
				}
				Aut::AlphabetType al0 = otf0;
				A.SetAlphabet(al0); B.SetAlphabet(al0);
				for (const Rule& r : a.rules) { Aut::StateTuple tup(r.ch.begin(), r.ch.end()); A.AddTransition(tup, r.sym, r.par); }
				for (U f : a.finals) A.SetStateFinal(f);
				for (const Rule& r : b.rules) { Aut::StateTuple tup(r.ch.begin(), r.ch.end()); B.AddTransition(tup, r.sym, r.par); }
				for (U f : b.finals) B.SetStateFinal(f);
			}
			else { std::string fa = t.word(), fb = t.word(); A = loadFile(fa); B = loadFile(fb); }
			U seed = t.num(); LIMIT_MS = (int)t.num();
			std::mt19937 rng((unsigned)seed);
			Flat FA = flat(A), FB = flat(B);
			std::ostringstream os;
			if (kind == "inv") {
				// inv <T A> <T B> <seed> <limit> <k>: the 8 selections on the pair and on k twins (states renamed by random bijections, rules and
				// final states inserted in shuffled order, symbols registered in shuffled order in a fresh alphabet)
				U k = t.num();
				os << "INV=" << timed8([&](int s) { return inclSel(A, B, s); });
				std::set<U> syms; for (auto& r : FA.rules) syms.insert(r.sym); for (auto& r : FB.rules) syms.insert(r.sym);
				for (U i = 0; i < k; ++i) {
					std::vector<U> order(syms.begin(), syms.end()); std::shuffle(order.begin(), order.end(), rng);
					std::shared_ptr<Aut::OnTheFlyAlphabet> otf(new Aut::OnTheFlyAlphabet());
					std::map<U, U> symmap;
					{ auto bt = A.GetAlphabet()->GetSymbolBackTransl(); auto ft = otf->GetSymbolTransl(); for (U sy : order) symmap[sy] = (*ft)((*bt)(sy)); }
					Aut::AlphabetType alpha = otf;
					std::map<St, St> hA, hB;
					Aut A2 = twin(FA, rng, symmap, &alpha, hA), B2 = twin(FB, rng, symmap, &alpha, hB);
					os << ':' << timed8([&](int s) { return inclSel(A2, B2, s); });
				}
				os << " N=" << FA.states.size() << ':' << FA.rules.size() << ':' << FB.states.size() << ':' << FB.rules.size();
				return os.str();
			}
			os << "AB="; for (int s = 0; s < 8; ++s) os << timed([&]() { return inclSel(A, B, s); });
			os << " AA="; for (int s = 0; s < 8; ++s) os << timed([&]() { return inclSel(A, A, s); });
			// twins under a fresh alphabet with shuffled symbol registration
			std::set<U> syms; for (auto& r : FA.rules) syms.insert(r.sym); for (auto& r : FB.rules) syms.insert(r.sym);
			std::vector<U> order(syms.begin(), syms.end()); std::shuffle(order.begin(), order.end(), rng);
			std::shared_ptr<Aut::OnTheFlyAlphabet> otf(new Aut::OnTheFlyAlphabet());
			std::map<U, U> symmap;
			{
				auto bt = A.GetAlphabet()->GetSymbolBackTransl(); auto ft = otf->GetSymbolTransl();
				for (U s : order) symmap[s] = (*ft)((*bt)(s));
			}
			Aut::AlphabetType alpha = otf;
			std::map<St, St> hA, hB;
			Aut A2 = twin(FA, rng, symmap, &alpha, hA), B2 = twin(FB, rng, symmap, &alpha, hB);
			os << " TW="; for (int s = 0; s < 8; ++s) os << timed([&]() { return inclSel(A2, B2, s); });
			os << " E=" << (A.IsLangEmpty() ? 1 : 0) << (A2.IsLangEmpty() ? 1 : 0);
			// laws, each with two fast selections (upward without simulation, called on the objects as they are - results of library operations may share
			// storage with their operands -, and downward recursive with cache and simulation, following the CLI protocol)
			Aut U_ = Aut::Union(A, B), X = Aut::Intersection(A, B), R = A.Reduce(), T = A.RemoveUselessStates();
			St nd; Aut D = dense(A, nd);
			VATA::Serialization::TimbukSerializer ser; VATA::Parsing::TimbukParser parser;
			Aut L; { Aut::AlphabetType alA = A.GetAlphabet(); L.SetAlphabet(alA); VATA::AutBase::StateDict sd; std::string txt = A.DumpToString(ser); L.LoadFromString(parser, txt, sd); }
			std::vector<std::pair<const Aut*, const Aut*>> laws = {
				{&A, &U_}, {&B, &U_}, {&X, &A}, {&X, &B}, {&X, &U_}, {&A, &R}, {&R, &A}, {&A, &T}, {&T, &A}, {&A, &D}, {&D, &A}, {&A, &L}, {&L, &A} };
			os << " LAWS=";
			for (auto& l : laws) { os << timed([&]() { return inclSel(*l.first, *l.second, 0, true); }) << timed([&]() { return inclSel(*l.first, *l.second, 7); }); }
			Aut R2 = A2.Reduce(), T2 = A2.RemoveUselessStates();
			os << " SZ=" << flat(R).states.size() << ':' << flat(R2).states.size() << ':' << flat(T).states.size() << ':' << flat(T2).states.size();
			St n0; Aut D0 = dense(A, n0);
			os << " SIMD=" << simCompare(D0, n0, true, rng);
			St n1; Aut T0 = dense(T, n1);
			os << " SIMU=" << simCompare(T0, n1, false, rng);
			os << " N=" << FA.states.size() << ':' << FA.rules.size() << ':' << FB.states.size() << ':' << FB.rules.size();
			return os.str();
		});
	}
	return 0;
}
