(* templates: common *)
(* C13: evaluates the extracted, verified gates (TimbukDefs: parse, serialize, desc_same, text_denotes,
   fa_same) on (case, implementation output).  Glue only: decoding of the hex fields, calling the
   extracted functions, printing.
   input line:  <case> ||| <driver output>      (formats: harness/drv/c13.cc)
   output line: OK | FAIL <gate>[,<gate>]  [DRIFT <what>[,<what>]]  free flags *)
open Ex_c13
open Common_c13

let byte_tab : n array = Array.init 256 n_of_int
let hexval c = match c with
  | '0'..'9' -> Char.code c - 48 | 'a'..'f' -> Char.code c - 87 | 'A'..'F' -> Char.code c - 55
  | _ -> failwith "model: bad hex digit"
let bytes_of_hex (h : string) : n list =
  if h = "-" || h = "" then [] else begin
    let len = String.length h / 2 in
    let r = ref [] in
    for i = len - 1 downto 0 do
      r := byte_tab.(hexval h.[2 * i] * 16 + hexval h.[2 * i + 1]) :: !r
    done; !r end
let name_of_tok (w : string) : n list =
  if String.length w = 0 || w.[0] <> 'x' then failwith ("model: name expected, got " ^ w)
  else bytes_of_hex (String.sub w 1 (String.length w - 1))
let z_of_int (i : int) : z = if i = 0 then Z0 else if i > 0 then Zpos (pos_of_int i) else Zneg (pos_of_int (- i))

let read_desc (t : toks) : desc =
  let name = name_of_tok (word t) in
  let ns = num t in
  let syms = times ns (fun () -> let s = name_of_tok (word t) in let r = num t in (s, z_of_int r)) in
  let nq = num t in let states = times nq (fun () -> name_of_tok (word t)) in
  let nf = num t in let finals = times nf (fun () -> name_of_tok (word t)) in
  let nr = num t in
  let trs = times nr (fun () ->
    let sy = name_of_tok (word t) in let pa = name_of_tok (word t) in let k = num t in
    let ch = times k (fun () -> name_of_tok (word t)) in
    { t_ch = ch; t_sym = sy; t_par = pa }) in
  { d_name = name; d_syms = syms; d_states = states; d_finals = finals; d_trans = trs }

(* one encoding's result in the driver output *)
type enc = EncOk of n list * n list | EncExc of int * string
type pres = POk of desc | PExc of string

let read_enc (t : toks) (tag : string) : enc =
  expect t tag;
  match word t with
  | "OK" -> let a = bytes_of_hex (word t) in let b = bytes_of_hex (word t) in EncOk (a, b)
  | "EXC" -> let st = num t in let c = word t in EncExc (st, c)
  | w -> failwith ("model: OK/EXC expected, got " ^ w)

let max_arity (d : desc) = List.fold_left (fun m tr -> max m (List.length tr.t_ch)) 0 d.d_trans

let () = each_line (fun l ->
  let (c, o) = split_bar l in
  let ct = toks_of_line c in
  let kind = word ct in
  let _flags = num ct in
  let fails = ref [] and drift = ref [] and notes = ref [] in
  let fail g = if not (List.mem g !fails) then fails := g :: !fails in
  let dr g = if not (List.mem g !drift) then drift := g :: !drift in
  let note g = notes := g :: !notes in
  let finish () =
    (if !fails = [] then "OK" else "FAIL " ^ String.concat "," (List.rev !fails))
    ^ (if !drift = [] then "" else " DRIFT " ^ String.concat "," (List.rev !drift))
    ^ " kind=" ^ kind ^ String.concat "" (List.map (fun s -> " " ^ s) (List.rev !notes)) in
  (* robustness first: a crash, a hang or a non-standard exception is a violation for every kind of case *)
  let starts p = String.length o >= String.length p && String.sub o 0 (String.length p) = p in
  if starts "CRASH rc=-14" || starts "HANG" then (fail "hang"; finish ())
  else if starts "CRASH" then (fail "crash"; finish ())
  else if starts "DRIVER-ERROR" then "ERR " ^ o
  else begin
    let ot = toks_of_line o in
    if List.mem "non_std" ot.rest then fail "nonstd";
    if kind = "O" then begin
      (* O1: an explicit tree automaton with its own alphabet (SetAlphabet) is trimmed; the result must be
         dumpable with the names it was loaded with: its rules are rules of d, its finals are d's finals, and
         every nullary rule of d into a final state is still there *)
      let _tx = word ct in
      expect ct "D"; let d = read_desc ct in
      expect ot "O1";
      (match word ot with
       | "OK" ->
           (match parse (bytes_of_hex (word ot)) with
            | Some e ->
                let keeps = List.for_all (fun t -> if t.t_ch = [] && mem_b t.t_par d.d_finals then mem_t t e.d_trans else true) d.d_trans in
                if sub_t e.d_trans d.d_trans && same_b e.d_finals d.d_finals && keeps then note "o1=dumped-right-names"
                else (note "o1=dumped-wrong-names"; fail "o1_result_alphabet")
            | None -> note "o1=dumped-unreadable"; fail "o1_result_alphabet")
       | _ -> note "o1=dump-throws"; fail "o1_result_alphabet");
      finish ()
    end else begin
      let text, dopt =
        if kind = "W" then begin
          expect ct "D"; let d = read_desc ct in
          expect ot "S";
          let s = word ot in
          if s = "EXC" then (ignore (word ot); fail "serialize_throws"; ([], Some d))
          else (bytes_of_hex s, Some d)
        end else begin
          let tx = bytes_of_hex (word ct) in
          match peek ct with
          | Some "D" -> expect ct "D"; (tx, Some (read_desc ct))
          | _ -> (tx, None)
        end in
      if List.mem "serialize_throws" !fails then finish () else begin
      expect ot "P";
      let p = match word ot with
        | "OK" -> POk (read_desc ot)
        | _ -> PExc (word ot) in
      let et = read_enc ot "ET" in let bu = read_enc ot "BU" in
      let td = read_enc ot "TD" in let fa = read_enc ot "FA" in
      let pm = parse text in
      (* drift: the two parsers agree on the outcome class and, strictly, on the description *)
      (match p, pm with
       | POk e, Some e' -> note "cls=ok"; if not (desc_strict e e') then dr "parse_result"
       | PExc _, None -> note "cls=rej"
       | POk _, None -> note "cls=ok"; dr "parse_class_cpp_accepts"
       | PExc _, Some _ -> note "cls=rej"; dr "parse_class_cpp_rejects");
      (* drift: when the text does not parse no loader may succeed; when it parses the tree loaders succeed *)
      (match p with
       | PExc _ -> List.iter (fun (nm, e) -> match e with EncOk _ -> dr ("loads_unparsable_" ^ nm) | _ -> ())
                     ["ET", et; "BU", bu; "TD", td; "FA", fa]
       | POk _ -> ());
      (* the gates of the well-formed stream *)
      let gated = match kind, dopt with
        | "W", Some d -> if wf_desc d then Some d else (note "nonwf"; None)
        | "C", Some d ->
            if not (wf_desc d) then failwith "generator: C case with a description that is not well-formed"
            else if serialize d <> text then failwith "generator: C case whose text is not the model's serialisation"
            else Some d
        | "V", Some d ->
            if not (text_denotes text d) then failwith "generator: V case whose text does not denote the description (formal parser)"
            else Some d
        | _ -> None in
      (match kind, dopt with
       | "W", Some d ->
           (* drift: byte equality of the two serialisations (the case lists the sets in std::set order) *)
           if serialize d <> text then dr "serialize_bytes"
       | _ -> ());
      (match gated with
       | None -> ()
       | Some d ->
           note (Printf.sprintf "rules=%d maxar=%d" (List.length d.d_trans) (max_arity d));
           if List.length d.d_trans >= 2 && max_arity d >= 1 then note "nt";
           (* the property in the implementation: parse_cpp(text) has the finals and rules of d *)
           (match p with
            | POk e -> if not (desc_same e d) then fail (match kind with "W" -> "rt_cpp" | "C" -> "cpp_reads_canonical" | _ -> "variant")
            | PExc _ -> fail (match kind with "W" -> "rt_cpp" | "C" -> "cpp_reads_canonical" | _ -> "variant"));
           (* what libvata wrote denotes d according to the formal parser *)
           if kind = "W" && not (text_denotes text d) then fail "model_reads_cpp_text";
           (* dump -> load -> dump through the encodings *)
           let tree nm e =
             match e with
             | EncOk (t1, t2) ->
                 if not (text_denotes t1 d) then fail ("enc_" ^ nm ^ "_dump")
                 else if not (text_denotes t2 d) then fail ("enc_" ^ nm ^ "_redump")
             | EncExc (st, _) -> fail (Printf.sprintf "enc_%s_throws_stage%d" nm st) in
           (* the dumps list names in other roles (the BDD dumps write a States line): the encodings are gated
              under the property's uniform side condition only *)
           if not (wf_desc_uniform d) then note "role_exotic" else begin
           tree "ET" et;
           if max_arity d <= 63 then (tree "BU" bu; tree "TD" td) else note "bdd_arity_guard";
           (match fa with
            | EncOk (t1, t2) ->
                if not (is_fa d) then fail "enc_FA_accepts_tree_rules"
                else if not (text_denotes_fa t1 d) then fail "enc_FA_dump"
                else (match parse t1, parse t2 with
                      | Some e1, Some e2 -> if not (desc_same e1 e2) then fail "enc_FA_redump"
                      | _ -> fail "enc_FA_redump");
                (match parse t1 with
                 | Some e1 -> if is_fa d && not (desc_same e1 d) then note "fa_start_symbols_dropped"
                 | None -> ())
            | EncExc (st, _) -> if is_fa d then fail (Printf.sprintf "enc_FA_throws_stage%d" st) else note "fa_rejects_tree") end);
      finish () end
    end
  end)
