(* templates: common *)
(* C17: replays the operation tree on the extracted functional model (coq/MtbddDefs.v) and compares with what
   the driver observed on libvata.
   input line:  c17 <u|s> <NV> <ops> ||| V <values per handle> EQ <matrix> P <paths per handle> W <..> W2 <..> WR <..>
   output line: OK | FAIL <gates> ; then [DRIFT <what>] and flags
   gates:  value    GetValue on every total assignment = value of the model diagram (construct_ev, apply*_ev, ...)
           dcvalue  GetValue on an assignment with don't-care positions is the value of some total refinement (dc_gate)
           eq       operator== = structural equality of the model diagrams (= equality of the functions, dd_eqb_spec)
           void1/2  the traversing functors are shown exactly the leaves (leaf pairs) of the diagram(s)
   drift:  dclow    a don't-care position follows the low child (what the code does today)
           paths    GetPaths lists exactly the model's paths *)
open Ex_c17
open Common_c17

let veq = N.eq_dec
let tri_of_char = function '0' -> T0 | '1' -> T1 | 'X' -> TX | _ -> failwith "model: bad assignment"
let asgn_of_word (w : string) : tri list = if w = "-" then [] else List.map tri_of_char (List.init (String.length w) (String.get w))
let char_of_tri = function T0 -> '0' | T1 -> '1' | TX -> 'X'
let word_of_asgn (a : tri list) : string = if a = [] then "-" else String.concat "" (List.map (fun t -> String.make 1 (char_of_tri t)) a)
let rec pow b n = if n = 0 then 1 else b * pow b (n - 1)
let nth_asgn (t : int) (n : int) (base : int) : tri list =
  let rec go t i = if i = n then [] else (match t mod base with 0 -> T0 | 1 -> T1 | _ -> TX) :: go (t / base) (i + 1) in go t 0
let is_total (a : tri list) = not (List.mem TX a)

let () = each_line (fun l ->
  let (c, o) = split_bar l in
  let t = toks_of_line c in
  expect t "c17";
  let dom = (match word t with "u" -> false | "s" -> true | _ -> failwith "model: domain") in
  let nv = num t in
  let hs : (n dd * n) list ref = ref [] in        (* reversed: diagram, default value *)
  let get i = List.nth (List.rev !hs) i in
  let push x = hs := x :: !hs in
  let nops = ref 0 and kinds = ref [] in
  while peek t <> None do
    let w = word t in
    incr nops; if not (List.mem w !kinds) then kinds := w :: !kinds;
    (match w with
     | "K" -> let v = n_of_int (num t) in push (Leaf v, v)
     | "C" -> let a = asgn_of_word (word t) in let v = n_of_int (num t) in let d = n_of_int (num t) in push (construct veq a v d, d)
     | "Y" -> push (get (num t))
     | "A" -> let _ = get (num t) in push (get (num t))          (* a copy of the first handle, then copy-assigned from the second: value and default of the second *)
     | "U" -> let f = n_of_int (num t) in let (a, da) = get (num t) in push (apply1 veq (op1 dom f) a, op1 dom f da)
     | "B" -> let f = n_of_int (num t) in let (a, da) = get (num t) in let (b, db) = get (num t) in
              push (apply2 veq (op2 dom f) a b, op2 dom f da db)
     | "T" -> let f = n_of_int (num t) in let (a, da) = get (num t) in let (b, db) = get (num t) in let (c, dc) = get (num t) in
              push (apply3 veq (op3 dom f) a b c, op3 dom f da db dc)
     | "P" -> let f = n_of_int (num t) in let mask = num t in let (a, da) = get (num t) in
              push (project veq (fun x -> (mask lsr (int_of_nat x)) land 1 = 1) (op2 dom f) a, da)
     | "R" -> let r = Array.of_list (times nv (fun () -> num t)) in let (a, da) = get (num t) in
              push (rename (fun x -> nat_of_int r.(int_of_nat x)) a, da)
     | "E" -> let a = asgn_of_word (word t) in let off = num t in let (d, dd) = get (num t) in push (extend veq a (nat_of_int off) d dd, dd)
     | "X" -> let a = asgn_of_word (word t) in let off = num t in let (d, dd) = get (num t) in push (prefix a (nat_of_int off) d, dd)
     | _ -> failwith ("model: unknown op " ^ w))
  done;
  let ds = List.map fst (List.rev !hs) in
  let n = List.length ds in
  let t = toks_of_line o in
  match peek t with
  | Some "EXC" | Some "CRASH" | Some "HANG" -> "FAIL exception " ^ o
  | _ ->
    let fails = ref [] and drift = ref [] in
    let fail g = if not (List.mem g !fails) then fails := g :: !fails in
    let drf g = if not (List.mem g !drift) then drift := g :: !drift in
    expect t "V";
    let cnt = pow 3 nv in
    let asgns = List.init cnt (fun k -> nth_asgn k nv 3) in
    List.iter (fun d ->
      let w = word t in
      if String.length w <> cnt then fail "value" else
      List.iteri (fun k a ->
        let v = n_of_int (Char.code w.[k] - 48) in
        if is_total a then (if not (veq (get_value d a) v) then fail "value")
        else begin
          if not (dc_gate veq d a v) then fail "dcvalue";
          if not (veq (get_value d a) v) then drf "dclow"
        end) asgns) ds;
    expect t "EQ";
    let m = word t in
    if n > 0 then begin
      if String.length m <> n * n then fail "eq" else
      List.iteri (fun i a -> List.iteri (fun j b ->
        if (m.[i * n + j] = '1') <> dd_eqb veq a b then fail "eq") ds) ds
    end;
    expect t "P";
    List.iter (fun d ->
      let w = word t in
      let mine = String.concat "," (List.map (fun (a, v) -> word_of_asgn a ^ ":" ^ string_of_int (int_of_n v)) (paths d)) in
      if w <> mine then drf "paths") ds;
    expect t "W";
    List.iter (fun d ->
      let mask = num t in
      let seen = List.filter_map (fun v -> if (mask lsr v) land 1 = 1 then Some (n_of_int v) else None) (List.init 8 (fun v -> v)) in
      if not (same_set veq seen (leaves d)) then fail "void1") ds;
    expect t "W2";
    let rec pairs = function a :: (b :: _ as r) -> (a, b) :: pairs r | _ -> [] in
    List.iter (fun (a, b) ->
      let w = word t in
      let seen = List.map (fun s -> n_of_int (int_of_string s)) (String.split_on_char '.' w) in
      let both = apply2 veq (fun x y -> N.add (N.mul x (n_of_int 8)) y) a b in
      if not (same_set veq seen (leaves both)) then fail "void2") (pairs ds);
    expect t "WR";
    List.iter (fun (a, b) ->
      let w = word t in
      let seen = if w = "-" then [] else List.map (fun s -> n_of_int (int_of_string s)) (String.split_on_char '.' w) in
      let both = apply2 veq (fun x y -> N.add (N.mul x (n_of_int 8)) y) a b in
      if not (same_set veq seen (leaves both)) then fail "void2_reuse") (pairs ds);
    (* measured flags for the evidence *)
    let maxsize = List.fold_left (fun acc d -> max acc (int_of_nat (size_dd d))) 0 ds in
    let eqpairs = ref 0 in
    List.iteri (fun i a -> List.iteri (fun j b -> if i < j && dd_eqb veq a b then incr eqpairs) ds) ds;
    (if !fails = [] then "OK" else "FAIL " ^ String.concat "," (List.rev !fails))
    ^ (if !drift = [] then "" else " DRIFT " ^ String.concat "," (List.rev !drift))
    ^ Printf.sprintf " handles=%d maxnodes=%d eqpairs=%d kinds=%d" n maxsize !eqpairs (List.length !kinds))
