(* templates: common ta_io *)
(* C08: input  (bu|td) n { ; op }* ||| R { | S nh {k T}* [TD nh {k T}*] [FQ q] }*
   The model pool is stepped with the extracted pool_step; after every step the gate pool_gate compares every live handle
   (language equivalence); on success the model is re-based on the observed values (sound: C08_*_congr). *)
open Ex_c08
open Common_c08
open Ta_io_c08

type step = { obs : (n * ta) list; tds : (n * ta) list option; fq : int option }

let read_pool t = let nh = num t in times nh (fun () -> let k = num t in let a = read_ta t in (n_of_int k, a))

let () = each_line (fun l ->
  let (c, o) = split_bar l in
  let t = toks_of_line c in
  let enc = word t in let n = num t in
  (match peek t with Some "SALT" -> ignore (word t); ignore (num t) | _ -> ());
  let with_maps = (match peek t with Some "MAPS" -> ignore (word t); true | _ -> false) in
  let ops = times n (fun () ->
    expect t ";";
    let op = word t in
    match op with
    | "N" -> let k = num t in ("N", [k], None)
    | "L" | "LI" | "LA" -> let k = num t in let a = read_ta t in (op, [k], Some a)
    | "C" -> let k = num t in let j = num t in ("C", [k; j], None)
    | "F" -> let k = num t in let i = num t in ("F", [k; i], None)
    | "D" -> let k = num t in ("D", [k], None)
    | "U" | "UD" | "X" -> let k = num t in let i = num t in let j = num t in (op, [k; i; j], None)
    | "UR" | "UL" -> let k = num t in let i = num t in (op, [k; i], None)
    | _ -> failwith ("model: unknown op " ^ op)) in
  let t = toks_of_line o in
  match peek t with
  | Some "R" ->
    expect t "R";
    let steps = times n (fun () ->
      expect t "|"; expect t "S"; let obs = read_pool t in
      let tds = (match peek t with Some "TD" -> ignore (word t); Some (read_pool t) | _ -> None) in
      let fq = (match peek t with Some "FQ" -> ignore (word t); Some (num t) | _ -> None) in
      { obs; tds; fq }) in
    let empty = { rules = []; finals = [] } in
    let fails = ref [] and flags = ref [] in
    let model = ref [] in
    let stepno = ref 0 in
    List.iter2 (fun (op, args, a) st ->
      incr stepno;
      if !fails = [] then begin
        let nn = n_of_int in
        let cop = (match op, args with
          | "N", [k] -> OLoad (nn k, empty)
          | ("L" | "LI"), [k] -> (match a with Some a -> OLoad (nn k, a) | None -> failwith "model: missing automaton")
          | "LA", [k] -> (match a with Some a -> OAdd (nn k, a) | None -> failwith "model: missing automaton")
          | "C", [k; j] -> OCopy (nn k, nn j)
          | "F", [k; _] -> (match st.fq with Some q -> OFinal (nn k, nn q) | None -> failwith "model: FQ missing")
          | "D", [k] -> ODestroy (nn k)
          | ("U" | "UD"), [k; i; j] -> OUnion (nn k, nn i, nn j)
          | "X", [k; i; j] -> OIsect (nn k, nn i, nn j)
          | ("UR" | "UL"), [k; i] -> OKeep (nn k, nn i)
          | _ -> failwith "model: bad op") in
        let m' = pool_step !model cop in
        (* the verified equivalence decider is a subset construction: histories whose automata outgrow it are judged up to this step only *)
        let nstates (a : ta) = List.length (List.sort_uniq compare (List.concat (List.map (fun r -> r.par :: r.ch) a.rules) @ a.finals)) in
        let too_big = List.exists (fun (_, a) -> nstates a > 12) st.obs || List.exists (fun (_, a) -> nstates a > 12) m' in
        if too_big then begin flags := "truncated_large" :: !flags; fails := "@@stop" :: !fails end
        else if not (pool_gate m' st.obs) then fails := (Printf.sprintf "%s@step%d" op !stepno) :: !fails
        else begin
          (match st.tds with
           | Some tds -> if not (pool_gate m' tds) then fails := (Printf.sprintf "%s_topdown@step%d" op !stepno) :: !fails
           | None -> ());
          (if op = "UL" then match args with
            | [k; _] -> (match plookup st.obs (nn k) with
                         | Some r -> if not (no_useless r) then fails := (Printf.sprintf "UL_useless_left@step%d" !stepno) :: !fails
                         | None -> ())
            | _ -> ());
          (* the F step fixes the automaton structurally: SetStateFinal must add exactly that final state *)
          (if op = "F" then match args with
            | [k; _] -> (match plookup st.obs (nn k), plookup m' (nn k) with
                         | Some r, Some e -> if not (ta_same r e) then fails := (Printf.sprintf "F_struct@step%d" !stepno) :: !fails
                         | _ -> ())
            | _ -> ());
          (match op with "X" -> (match args with [k; _; _] -> (match plookup st.obs (nn k) with Some r -> if not (is_empty r) then flags := "isect_nonempty" :: !flags | None -> ()) | _ -> ()) | _ -> ());
          model := st.obs
        end
      end) ops steps;
    let fails = ref (List.filter (fun f -> f <> "@@stop") !fails) in
    (if !fails = [] then "OK" else
       let labs = List.map (fun f -> List.hd (String.split_on_char '@' f)) (List.rev !fails) in
       "FAIL " ^ String.concat "," labs ^ " at " ^ String.concat "," (List.rev !fails))
    ^ " " ^ enc ^ (if List.mem "isect_nonempty" !flags then " isect_nonempty" else "") ^ (if List.mem "truncated_large" !flags then " truncated_large" else "") ^ (if with_maps then " with_maps" else "")
  | _ -> "FAIL exception " ^ o)
