(* templates: common ta_io *)
(* C05: input  red <T A> ||| R <T> I <T> *)
open Ex_c05
open Common_c05
open Ta_io_c05
let () = each_line (fun l ->
  let (c, o) = split_bar l in
  let t = toks_of_line c in expect t "red"; let a = read_ta t in
  let t = toks_of_line o in
  match peek t with
  | Some "R" ->
    expect t "R"; let r = read_ta t in expect t "I"; let i = read_ta t in
    let fails = ref [] and drift = ref [] in
    if not (equiv_dec r a) then fails := "lang" :: !fails;
    if int_of_nat (nstates r) > int_of_nat (nstates a) then fails := "states_grow" :: !fails;
    if int_of_nat (nrules r) > int_of_nat (nrules a) then fails := "rules_grow" :: !fails;
    if not (onto_gate a r) then fails := "onto" :: !fails;
    if not (ta_same a i) then fails := "operand_changed" :: !fails;
    let d = down_sim_rel a in
    let rep = recover_rep d r in
    if not (is_down_simb a d && valid_repb a d rep) then drift := "rep" :: !drift
    else if not (ta_same r (reduce_with rep a)) then drift := "struct" :: !drift;
    (if !fails = [] then "OK" else "FAIL " ^ String.concat "," (List.rev !fails))
    ^ (if !drift = [] then "" else " DRIFT " ^ String.concat "," (List.rev !drift))
    ^ (if is_empty a then " empty" else " nonempty")
    ^ (if int_of_nat (nstates r) < int_of_nat (nstates a) then " shrunk" else " same")
  | _ -> "FAIL exception " ^ o)
