(* templates: common ta_io *)
(* C05: input  red <T A> ||| R <T> I <T>      or  red2 <T A> <T A2> ||| R <T> I <T> R <T> I <T>  (second Reduce on the same object after in-place extension to A2) *)
open Ex_c05
open Common_c05
open Ta_io_c05
let judge pre a r i fails drift =
  let fail g = fails := (pre ^ g) :: !fails in
  if not (equiv_dec r a) then fail "lang";
  if int_of_nat (nstates r) > int_of_nat (nstates a) then fail "states_grow";
  if int_of_nat (nrules r) > int_of_nat (nrules a) then fail "rules_grow";
  if not (onto_gate a r) then fail "onto";
  if not (ta_same a i) then fail "operand_changed";
  let d = down_sim_rel a in
  let rep = recover_rep d r in
  if not (is_down_simb a d && valid_repb a d rep) then drift := (pre ^ "rep") :: !drift
  else if not (ta_same r (reduce_with rep a)) then drift := (pre ^ "struct") :: !drift

let () = each_line (fun l ->
  let (c, o) = split_bar l in
  let t = toks_of_line c in let kind = word t in let a = read_ta t in
  let a2 = if kind = "red2" then Some (read_ta t) else None in
  let t = toks_of_line o in
  match peek t with
  | Some "R" ->
    expect t "R"; let r = read_ta t in expect t "I"; let i = read_ta t in
    let fails = ref [] and drift = ref [] in
    judge "" a r i fails drift;
    (match a2 with
     | None -> ()
     | Some a2 -> expect t "R"; let r2 = read_ta t in expect t "I"; let i2 = read_ta t in judge "again_" a2 r2 i2 fails drift);
    (if !fails = [] then "OK" else "FAIL " ^ String.concat "," (List.rev !fails))
    ^ (if !drift = [] then "" else " DRIFT " ^ String.concat "," (List.rev !drift))
    ^ (if is_empty a then " empty" else " nonempty")
    ^ (if int_of_nat (nstates r) < int_of_nat (nstates a) then " shrunk" else " same")
    ^ (if a2 <> None then " history" else "")
  | _ -> "FAIL exception " ^ o)
