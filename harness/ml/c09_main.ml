(* templates: common nfa_io *)
(* C09: evaluates the verified gate on (input, implementation output).
   input line:  incl <L|F> <W A> <W B> ||| R <a> <d> <b> S <a> <d> <b> I <W> <W>
   output line: OK | FAIL <gates> ; then flags: incl/notincl, drift, sizes
   gate: every reported verdict equals wincl_dec A B (proved: = true <-> L(A) included in L(B)) *)
open Ex_c09
open Common_c09
open Nfa_io_c09

let names = [| "antichains"; "congr_depth"; "congr_breadth" |]

let () = each_line (fun l ->
  let (c, o) = split_bar l in
  let t = toks_of_line c in expect t "incl"; let _mode = word t in
  let a = read_w t in let b = read_w t in
  let t = toks_of_line o in
  match peek t with
  | Some "EXC" -> "FAIL exception " ^ o
  | Some "CRASH" -> (if String.length o >= 12 && String.sub o 0 12 = "CRASH rc=-14" then "FAIL hang " else "FAIL crash ") ^ o
  | Some "HANG" -> "FAIL hang " ^ o
  | _ ->
    let truth = wincl_dec a b in
    let fails = ref [] in
    let read_three tag pre =
      expect t tag;
      for i = 0 to 2 do
        let w = word t in
        let ok = (match w with "1" -> gate_verdict a b true | "0" -> gate_verdict a b false | _ -> false) in
        if not ok then fails := (pre ^ names.(i) ^ (if w = "0" || w = "1" then "" else "_exc")) :: !fails
      done in
    read_three "R" "raw_"; read_three "S" "san_";
    expect t "I"; let ia = read_w t in let ib = read_w t in
    if not (nfa_same a ia && nfa_same b ib) then fails := "operand_changed" :: !fails;
    (* drift: the functional model of the three selections (sanitize, then decide) *)
    (* the models are executed on small operands only (the congruence model is exponential); the gate above is evaluated on every case *)
    let small = nstate_count a <= 10 && nstate_count b <= 10 in
    let drift = if small then List.filter (fun v -> wincl_model v a b <> truth) [Antichains; CongrDepth; CongrBreadth] else [] in
    (* drift: the algorithmic model of the antichain selection (worklist, antichain, memo tables) *)
    let acm = if small then ac_incl_model a b else truth in
    (* drift: the algorithmic model of the congruence selections (bisimulation up to congruence, depth-first and breadth-first) *)
    let hk = (not small) || List.for_all (fun bfs -> match hkc_model bfs (nat_of_int 4000) a b with Some v -> v = truth | None -> true) [false; true] in
    let fails = List.rev !fails in
    (if fails = [] then "OK" else "FAIL " ^ String.concat "," fails)
    ^ (if drift = [] && acm = truth && hk then "" else " DRIFT model")
    ^ (if truth then " incl" else " notincl")
    ^ (if wis_empty a then " Aempty" else " Anonempty")
    ^ (if nfa_same a (nuseless a) && nfa_same b (nuseless b) then "" else " dead")
    ^ Printf.sprintf " sa=%d sb=%d" (nstate_count a) (nstate_count b))
