(* templates: common ta_io *)
(* C06: input  comp <T A> S n {rank} ||| C <T> I <T> *)
open Ex_c06
open Common_c06
open Ta_io_c06
let () = each_line (fun l ->
  let (c, o) = split_bar l in
  let t = toks_of_line c in expect t "comp"; let a = read_ta t in expect t "S";
  let n = num t in let sg = List.mapi (fun i r -> (n_of_int i, nat_of_int r)) (times n (fun () -> num t)) in
  let t = toks_of_line o in
  match peek t with
  | Some "C" ->
    expect t "C"; let cm = read_ta t in expect t "I"; let i = read_ta t in
    if not (ranked sg a) then "FAIL generator_unranked" else begin
    let fails = ref [] and drift = ref [] in
    if not (compl_gate sg a cm) then fails := "complement" :: !fails;
    if not (ta_same a i) then fails := "operand_changed" :: !fails;
    if not (no_useless cm) then drift := "not_trimmed" :: !drift;
    (if !fails = [] then "OK" else "FAIL " ^ String.concat "," (List.rev !fails))
    ^ (if !drift = [] then "" else " DRIFT " ^ String.concat "," (List.rev !drift))
    ^ (if is_empty a then " Aempty" else " Anonempty") ^ (if is_empty cm then " Cempty" else " Cnonempty") end
  | _ -> "FAIL exception " ^ o)
