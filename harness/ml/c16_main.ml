(* templates: common *)
(* C16: compares the relation returned by the LTS simulation engine with the extracted model for every output size.
   input line:  lts  <n> <ne> {s a d}* P <nb> {<k> q..}* R <np> {i j}*  ||| O 0 S <sz> <np> {q r}* ... O n S ...
                ltsd <n> <ne> {s a d}*                                 ||| O 0 ... O n ... F S <sz> <np> {q r}*
   output line: OK | FAIL <gate>[,<gate>] ; then flags (refined, nonid, n=.., labels=..)
   gates: exact = reported pairs are exactly the model's pairs below the output size (verified rel_same);
          size  = size() of the returned relation equals the requested output size;
          badcase = the generated input violates the engine's documented preconditions (generator error);
   drift (algo=DRIFT): the extracted models of the refinement algorithm (hhk_sim, hhkc_sim) disagree with the functional model *)
open Ex_c16
open Common_c16

let read_pairs t k = times k (fun () -> let a = num t in let b = num t in (n_of_int a, n_of_int b))

let () = each_line (fun l ->
  let (c, o) = split_bar l in
  let t = toks_of_line c in
  let kind = word t in
  let n = num t in
  let ne = num t in
  let es = times ne (fun () -> let s = num t in let a = num t in let d = num t in ((n_of_int s, n_of_int a), n_of_int d)) in
  let nn = nat_of_int n in
  let (part, brel) =
    if kind = "lts" then begin
      expect t "P"; let nb = num t in
      let part = times nb (fun () -> let k = num t in times k (fun () -> n_of_int (num t))) in
      expect t "R"; let np = num t in
      let brel = read_pairs t np in (part, brel)
    end else ([List.init n n_of_int], [(N0, N0)]) in
  let valid = if kind = "lts" then input_ok es nn part brel else lts_wf es nn in
  let tr = toks_of_line o in
  match peek tr with
  | Some "EXC" | Some "CRASH" | Some "HANG" -> "FAIL exception " ^ o
  | _ ->
    let model = if kind = "lts" then lts_sim es nn part brel else lts_sim_default es nn in
    let init = if kind = "lts" then init_rel nn part brel else init_rel nn part brel in
    let fails = ref [] in
    let add g = if not (List.mem g !fails) then fails := !fails @ [g] in
    if not valid then add "badcase";
    let group m =
      expect tr "S"; let sz = num tr in let np = num tr in
      let impl = read_pairs tr np in
      if sz <> m then add "size";
      if not (rel_same impl (output (n_of_int m) model)) then add "exact" in
    let last = ref (-1) in
    while peek tr = Some "O" do
      expect tr "O"; let m = num tr in
      if m <= !last || m > n then failwith "model: output groups out of order";
      last := m; group m
    done;
    if !last <> n then failwith "model: the group for the full output size is missing";
    if kind = "ltsd" then begin expect tr "F"; group n end;
    (* (A) models of the refinement algorithm (remove sets + queue, and the same with counters), small systems only: drift *)
    let algo =
      if n > 9 || ne > 24 then "na" else begin
        let fuel = nat_of_int 3000 in
        let same r = match r with Some r' -> rel_same r' model | None -> false in
        if same (hhk_sim es true fuel nn part brel) && same (hhkc_sim es true fuel nn part brel) && same (hhkc_sim es false fuel nn part brel)
        then "ok" else "DRIFT" end in
    let labels = List.length (List.sort_uniq compare (List.map (fun ((_, a), _) -> int_of_n a) es)) in
    let offdiag = List.exists (fun (a, b) -> a <> b) model in
    (if !fails = [] then "OK" else "FAIL " ^ String.concat "," !fails)
    ^ (if List.length model < List.length init then " refined" else " unrefined")
    ^ (if offdiag then " nonid" else " id")
    ^ Printf.sprintf " n=%d labels=%d edges=%d blocks=%d kind=%s algo=%s" n labels ne (List.length part) kind algo)
