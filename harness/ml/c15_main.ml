(* templates: common ta_io *)
(* C15: input  cand <T A> ||| R <T> I <T> *)
open Ex_c15
open Common_c15
open Ta_io_c15
let () = each_line (fun l ->
  let (c, o) = split_bar l in
  let t = toks_of_line c in expect t "cand"; let a = read_ta t in
  let t = toks_of_line o in
  match peek t with
  | Some "R" ->
    expect t "R"; let r = read_ta t in expect t "I"; let i = read_ta t in
    let fails = ref [] and drift = ref [] in
    (* fast path: sub-automaton + non-emptiness (C15_candidate_ok_sound); otherwise the property itself (C15_gate) *)
    if not (candidate_ok a r) then begin
      drift := "not_subautomaton" :: !drift;
      if not (cand_gate a r) then fails := "witness" :: !fails end;
    if not (ta_same a i) then fails := "operand_changed" :: !fails;
    (if !fails = [] then "OK" else "FAIL " ^ String.concat "," (List.rev !fails))
    ^ (if !drift = [] then "" else " DRIFT " ^ String.concat "," (List.rev !drift))
    ^ (if is_empty a then " empty" else " nonempty")
    ^ (if ta_same a r then " whole" else " proper")
    ^ (if ta_same r (cand_model a) then " as_model" else " other_witness")
  | _ -> "FAIL exception " ^ o)
