(* templates: common ta_io *)
(* C15: input  cand <T A> ||| R <T> I <T>
         or    candh <T A> { mode .. }* ||| R <T> I <T> { V <T> R <T> I <T> }*   (see harness/drv/c15.cc): every stage is judged like a single
               case on the value V the derived object shows before the call (gates prefixed again_); history_value = V is not the value the
               stage must produce *)
open Ex_c15
open Common_c15
open Ta_io_c15
let judge pre a r i fails drift =
  (* fast path: sub-automaton + non-emptiness (C15_candidate_ok_sound); otherwise the property itself (C15_gate) *)
  if not (candidate_ok a r) then begin
    drift := (pre ^ "not_subautomaton") :: !drift;
    if not (cand_gate a r) then fails := (pre ^ "witness") :: !fails end;
  if not (ta_same a i) then fails := (pre ^ "operand_changed") :: !fails
let () = each_line (fun l ->
  let (c, o) = split_bar l in
  let ct = toks_of_line c in let kind = word ct in let a = read_ta ct in
  let t = toks_of_line o in
  match peek t with
  | Some "R" ->
    expect t "R"; let r = read_ta t in expect t "I"; let i = read_ta t in
    let fails = ref [] and drift = ref [] in
    judge "" a r i fails drift;
    let cur = ref a and last = ref r and stages = ref 0 in
    if kind = "candh" then
      while peek ct <> None do
        let mode = num ct in
        let expected =
          if mode = 5 then begin
            let sym = n_of_int (num ct) in let par = n_of_int (num ct) in let k = num ct in let ch = times k (fun () -> n_of_int (num ct)) in
            { rules = !cur.rules @ [{ sym = sym; ch = ch; par = par }]; finals = !cur.finals } end
          else begin
            let nf = num ct in let fin = times nf (fun () -> n_of_int (num ct)) in
            if mode = 2 then { rules = !last.rules; finals = fin } else { rules = !cur.rules; finals = fin } end in
        expect t "V"; let v = read_ta t in
        if not (ta_same v expected) then fails := "history_value" :: !fails;
        expect t "R"; let r2 = read_ta t in expect t "I"; let i2 = read_ta t in
        judge "again_" v r2 i2 fails drift;
        cur := v; last := r2; incr stages
      done;
    let fails = List.sort_uniq compare !fails and drift = List.sort_uniq compare !drift in
    (if fails = [] then "OK" else "FAIL " ^ String.concat "," fails)
    ^ (if drift = [] then "" else " DRIFT " ^ String.concat "," drift)
    ^ (if is_empty a then " empty" else " nonempty")
    ^ (if ta_same a r then " whole" else " proper")
    ^ (if ta_same r (cand_model a) then " as_model" else " other_witness")
    ^ (if !stages > 0 then Printf.sprintf " history stages=%d" !stages else "")
  | _ -> "FAIL exception " ^ o)
