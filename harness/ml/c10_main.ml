(* templates: common nfa_io *)
(* C10: evaluates the verified gates on (input, implementation output) and compares with the models.
   input line:  ops <L|F> <W A> <W B> ||| U <W> MA.. MB.. dU <W|EXC> D <W> dD .. X <W> PM .. dX .. V <W> dV ..
                                          N <W> dN .. L <W> dL .. C <W> dC .. I <W> <W>
   output line: OK | FAIL <gates> ; optional DRIFT <what> ; then classification flags
   gates (each proved to decide its property clause, Properties_C10.v):
     union / uniondisj (disjoint operands only) : gate_nunion     L(R) = L(A) ∪ L(B)
     isect                                      : gate_nisect     L(R) = L(A) ∩ L(B)
     reverse                                    : gate_nreverse   L(R) = mirror images
     unreach / useless                          : gate_nsame      L(R) = L(A)
     candidate                                  : gate_ncandidate L(R) ⊆ L(A), empty only if L(A) empty
     dump_<op>   : the public DumpToString of the result succeeds and shows the same automaton
     operand_changed *)
open Ex_c10
open Common_c10
open Nfa_io_c10

let read_map (t : toks) (tag : string) : (n * n) list =
  expect t tag; let k = num t in
  times k (fun () -> let x = num t in let y = num t in (n_of_int x, n_of_int y))

let () = each_line (fun l ->
  let (c, o) = split_bar l in
  let t = toks_of_line c in expect t "ops"; let _mode = word t in
  let a = read_w t in let b = read_w t in
  let t = toks_of_line o in
  match peek t with
  | Some "EXC" -> "FAIL exception " ^ o
  | Some "CRASH" -> (if String.length o >= 12 && String.sub o 0 12 = "CRASH rc=-14" then "FAIL hang " else "FAIL crash ") ^ o
  | Some "HANG" -> "FAIL hang " ^ o
  | _ ->
    let fails = ref [] and drift = ref [] in
    let fail s = fails := s :: !fails and drf s = drift := s :: !drift in
    let dump name r = expect t ("d" ^ name);
      (match read_w_opt t with
       | None -> fail ("dump_" ^ name ^ "_exc")
       | Some d -> if not (nfa_same d r) then fail ("dump_" ^ name)) in
    (* Union *)
    expect t "U"; let u = read_w t in
    let ma = read_map t "MA" in let mb = read_map t "MB" in
    if not (gate_nunion a b u) then fail "union";
    if not (valid_nunionb (amap ma) (amap mb) a b && nfa_same u (nunion_with (amap ma) (amap mb) a b)) then drf "union";
    dump "U" u;
    (* UnionDisjointStates: the clause is stated for operands with disjoint state sets *)
    expect t "D"; let d = read_w t in
    let disj = disjointb (nstates a) (nstates b) in
    if disj && not (gate_nunion a b d) then fail "uniondisj";
    if not (nfa_same d (nunion_disjoint_coded a b)) then drf "uniondisj";
    dump "D" d;
    (* Intersection *)
    expect t "X"; let x = read_w t in
    expect t "PM"; let k = num t in
    let pm = times k (fun () -> let p = num t in let q = num t in let r = num t in ((n_of_int p, n_of_int q), n_of_int r)) in
    if not (gate_nisect a b x) then fail "isect";
    let big = n_of_int (1 + List.fold_left (fun m (_, r) -> max m (int_of_n r)) 0 pm) in
    let pr = pmap pm big (nbound b) in
    if not (inj2_onb pr (nstates a) (nstates b) && nfa_same x (nisect pr a b)) then drf "isect";
    dump "X" x;
    (* Reverse *)
    expect t "V"; let v = read_w t in
    if not (gate_nreverse a v) then fail "reverse";
    if not (nfa_same v (nreverse a)) then drf "reverse";
    dump "V" v;
    (* RemoveUnreachableStates *)
    expect t "N"; let n = read_w t in
    if not (gate_nsame a n) then fail "unreach";
    if not (nfa_same n (nunreach a)) then drf "unreach";
    dump "N" n;
    (* RemoveUselessStates *)
    expect t "L"; let lz = read_w t in
    if not (gate_nsame a lz) then fail "useless";
    if not (nfa_same lz (nuseless a)) then drf "useless";
    dump "L" lz;
    (* the same with the optional translation map *)
    expect t "NM"; let nm = read_w t in expect t "LM"; let lm = read_w t in expect t "VM"; let vm = read_w t in
    if not (gate_nsame a nm) then fail "unreach_with_map";
    if not (gate_nsame a lm) then fail "useless_with_map";
    if not (gate_nreverse a vm) then fail "reverse_with_map";
    (* GetCandidateTree *)
    expect t "C"; let cd = read_w t in
    if not (gate_ncandidate a cd) then fail "candidate";
    if not (ncandidate_ok a cd) then drf "candidate";
    dump "C" cd;
    (* composed operations: each result is judged against the (already judged) observed operands *)
    expect t "K";
    let x2 = read_w t in let vb = read_w t in
    let k1 = read_w t in let k2 = read_w t in let k3 = read_w t in let k4 = read_w t in
    let k5 = read_w t in let k6 = read_w t in let k7 = read_w t in let k8 = read_w t in
    if not (gate_nisect a b x2) then fail "isect";
    if not (gate_nreverse b vb) then fail "reverse";
    if not (gate_nunion v b k1) then fail "chain_union_of_reverse";
    if not (gate_nunion b lz k2) then fail "chain_union_of_useless";
    if not (gate_nunion x2 b k3) then fail "chain_union_of_isect";
    if not (gate_nunion cd b k4) then fail "chain_union_of_candidate";
    if not (gate_nisect v vb k5) then fail "chain_isect_of_reverses";
    if not (gate_nreverse v k6) then fail "chain_reverse_of_reverse";
    if not (gate_nreverse lz k7) then fail "chain_reverse_of_useless";
    if not (gate_nunion v vb k8) then fail "chain_useless_of_union_of_reverses";
    expect t "I"; let ia = read_w t in let ib = read_w t in
    if not (nfa_same a ia && nfa_same b ib) then fail "operand_changed";
    let fails = List.rev !fails and drift = List.rev !drift in
    let eps = List.exists (fun s -> List.mem s a.nfinals) a.nstarts in
    (if fails = [] then "OK" else "FAIL " ^ String.concat "," fails)
    ^ (if drift = [] then "" else " DRIFT " ^ String.concat "," drift)
    ^ (if wis_empty a then " Aempty" else " Anonempty")
    ^ (if eps then " eps" else "")
    ^ (if List.length (List.sort_uniq compare a.nstarts) > 1 then " multistart" else "")
    ^ (if nfa_same a (nuseless a) then "" else " dead")
    ^ (if disj then " disj" else " overlap")
    ^ (if wis_empty x then " Xempty" else " Xnonempty")
    ^ Printf.sprintf " sa=%d sb=%d" (nstate_count a) (nstate_count b))
