(* templates: common ta_io *)
(* C01: input  incl <T A> <T B> ||| V v0..v7 R r0 r2 r4 r5 Q q1 q3 q6 q7 S <T sanA> <T sanB> n I <T A> <T B>
   output OK | FAIL <gates> ; flags *)
open Ex_c01
open Common_c01
open Ta_io_c01

let names = [| "up_nosim"; "up_sim"; "down_nonrec_nosim"; "down_nonrec_sim"; "down_rec_nosim"; "down_rec_opt_nosim"; "down_rec_sim"; "down_rec_opt_sim" |]

let () = each_line (fun l ->
  let (c, o) = split_bar l in
  let t = toks_of_line c in expect t "incl"; let a = read_ta t in let b = read_ta t in
  let t = toks_of_line o in
  match peek t with
  | Some "V" ->
    expect t "V";
    let vs = times 8 (fun () -> word t) in
    expect t "R"; let rs = times 4 (fun () -> word t) in
    expect t "Q"; let qs = times 4 (fun () -> word t) in
    expect t "S"; let sa = read_ta t in let sb = read_ta t in let n = n_of_int (num t) in
    expect t "I"; let ia = read_ta t in let ib = read_ta t in
    let truth = incl_dec a b in
    (* the (A) model of the recursive downward algorithm is exponential (no caches): it is only executed on tiny pairs *)
    let small = List.length a.rules <= 4 && List.length b.rules <= 4 in
    let down_model = if small then down_incl a b (nat_of_int 10) else None in
    (* the same algorithm with the cache of positive answers (scoped per expansion = proved exact; shared = refuted): run on pairs up to the
       size of the coinductive-trap family; "discriminating" counts the cases on which ONE shared cache would give a wrong verdict *)
    let per_sym = List.fold_left (fun m r -> max m (List.length (List.filter (fun r' -> r'.sym = r.sym) b.rules))) 0 b.rules in
    let mid = List.length a.rules <= 9 && List.length b.rules <= 14 && per_sym <= 3 in
    let cache_model = if mid then downc_incl false a b (nat_of_int 12) else None in
    let shared_model = if mid then downc_incl true a b (nat_of_int 12) else None in
    (* the implication cache of the opt selections (antecedents / consequents: proved exact) and its careless variant (refuted) *)
    let opt_model = if mid then downo_incl false a b (nat_of_int 12) else None in
    let careless_model = if mid then downo_incl true a b (nat_of_int 12) else None in
    let fails = ref [] in
    List.iteri (fun i v ->
      let ok = (match v with "0" -> gate_verdict a b false | "1" -> gate_verdict a b true | "T" -> true (* time limit: inconclusive *) | _ -> false) in
      if not ok then fails := names.(i) :: !fails) vs;
    List.iteri (fun i v ->
      let ok = (match v with "0" -> gate_verdict a b false | "1" -> gate_verdict a b true | "T" -> true | _ -> false) in
      if not ok then fails := ("raw_" ^ names.([| 0; 2; 4; 5 |].(i))) :: !fails) rs;
    if not (prepared_lang a b sa sb) then fails := "sanitize_lang" :: !fails;
    if not (ta_same a ia && ta_same b ib) then fails := "operand_changed" :: !fails;
    (* upward inclusion with work list + antichain of processed pairs incl. the refine step (proved exact) and its variant whose work list has no
       tie-break on the macro-state (refuted); medium pairs only: every step recomputes the consequences of the processed set *)
    let wmid = List.length a.rules <= 8 && List.length b.rules <= 10 in
    let wl_model = if wmid then up_worklist a b (nat_of_int 300) else None in
    let keyed_model = if wmid then up_worklist_keyed a b (nat_of_int 300) else None in
    (* upward inclusion with a simulation preorder: run with the greatest relation the model can compute (and verify) on the bigger automaton *)
    let sim_model = if wmid then up_sim_model (nat_of_int 300) a b else None in
    let sim_nonid = wmid && List.exists (fun (p, q) -> p <> q) (upsim_gfp b) in
    let drift = (if prepared_shape sa sb n then [] else ["sanitize_shape"]) @ (if up_ac a b = truth then [] else ["antichain_model"])
      @ (match wl_model with Some v -> if v = truth then [] else ["up_worklist_model"] | None -> [])
      @ (match sim_model with Some v -> if v = truth then [] else ["up_sim_model"] | None -> [])
      @ (match down_model with Some v -> if v = truth then [] else ["down_model"] | None -> [])
      @ (match cache_model with Some v -> if v = truth then [] else ["down_cache_model"] | None -> [])
      @ (if List.exists (fun v -> v = "Ecrash") qs then ["untrimmed_sim_crash"] else [])
      @ (match opt_model with Some v -> if v = truth then [] else ["down_opt_model"] | None -> []) in
    (if !fails = [] then "OK" else "FAIL " ^ String.concat "," (List.rev !fails))
    ^ (if drift = [] then "" else " DRIFT " ^ String.concat "," drift)
    ^ (if truth then " included" else " notincluded")
    ^ (if is_empty a then " Aempty" else " Anonempty") ^ (if is_empty b then " Bempty" else " Bnonempty")
    ^ (if List.mem "T" vs || List.mem "T" rs then " timeout" else "")
    ^ (if a.rules <> [] && a.rules = b.rules then " shared_table" else "")
    ^ (match shared_model with Some v when v <> truth -> " discriminates_shared_cache" | _ -> "")
    ^ (match careless_model with Some v when v <> truth -> " discriminates_careless_promotion" | _ -> "")
    ^ (match keyed_model with Some v when v <> truth -> " discriminates_keyed_worklist" | _ -> "")
    ^ (match sim_model with Some _ -> if sim_nonid then " up_sim_model_run_nonidentity" else " up_sim_model_run_identity" | None -> "")
    ^ (if small then (match down_model with None -> " down_model_out_of_fuel" | Some _ -> " down_model_run") else "")
  | _ -> "FAIL exception " ^ o)
