(* templates: common *)
(* C19: input  laws <fileA> <fileB> <seed> <limit> ||| AB=.. AA=.. TW=.. E=.. LAWS=.. SZ=a:b:c:d SIMD=.. SIMU=.. N=..
   every expected value is a constant that follows from a theorem of Properties_C19.v *)
open Ex_c19
open Common_c19

let outcome_of_char = function '1' -> Yes | '0' -> No | 'T' -> Timeout | _ -> Err
let outcomes s = List.init (String.length s) (fun i -> outcome_of_char s.[i])
let field kvs k = try List.assoc k kvs with Not_found -> failwith ("model: missing field " ^ k)

let () = each_line (fun l ->
  let (_, o) = split_bar l in
  let ws = List.filter (fun s -> s <> "") (String.split_on_char ' ' (String.trim o)) in
  if ws = [] || (List.hd ws = "EXC") || (String.length (List.hd ws) >= 5 && String.sub (List.hd ws) 0 5 = "CRASH") || List.hd ws = "HANG" then "FAIL exception " ^ o else begin
  let kvs = List.map (fun w -> match String.index_opt w '=' with Some i -> (String.sub w 0 i, String.sub w (i + 1) (String.length w - i - 1)) | None -> (w, "")) ws in
  if List.mem_assoc "INV" kvs then begin
    (* inv case: the 8 selections on the pair and on k twins; every answered verdict must be the same (C19_all_agree, C19_verdict_equivariant, C19_order_invariant) *)
    let vecs = List.map outcomes (String.split_on_char ':' (field kvs "INV")) in
    let all = List.concat vecs in
    let fails = ref [] in
    (match vecs with v0 :: _ -> if not (all_agree v0) then fails := "selections_disagree" :: !fails | [] -> fails := "format" :: !fails);
    if not (all_agree all) then fails := "twin_verdict" :: !fails;
    if List.mem Err all then fails := "exception" :: !fails;
    let answered = List.length (List.filter (fun o -> o = Yes || o = No) all) in
    let timeouts = List.length (List.filter (fun o -> o = Timeout) all) in
    (if !fails = [] then "OK" else "FAIL " ^ String.concat "," (List.rev !fails))
    ^ Printf.sprintf " answered=%d timeouts=%d" answered timeouts
    ^ (if List.mem Yes all then " included" else if List.mem No all then " notincluded" else " unknown") ^ " inv"
  end else
  let ab = outcomes (field kvs "AB") and aa = outcomes (field kvs "AA") and tw = outcomes (field kvs "TW") in
  let laws = outcomes (field kvs "LAWS") in
  let fails = ref [] in
  let gate n b = if not b then fails := n :: !fails in
  gate "selections_disagree" (all_agree ab);                                  (* C19_all_agree *)
  gate "reflexivity" (List.for_all must_hold aa);                            (* C19_law_refl *)
  gate "twin_verdict" (pairwise_agree ab tw && all_agree tw);                (* C19_verdict_equivariant, C19_order_invariant *)
  let e = field kvs "E" in
  gate "twin_emptiness" (String.length e = 2 && e.[0] = e.[1]);              (* C19_empty_equivariant *)
  let names = [| "union_l"; "union_r"; "isect_l"; "isect_r"; "trans"; "reduce_sup"; "reduce_sub"; "trim_sup"; "trim_sub"; "reindex_sup"; "reindex_sub"; "reload_sup"; "reload_sub" |] in
  List.iteri (fun i o -> if not (must_hold o) then gate ("law_" ^ names.(i / 2)) false) laws;
  (match String.split_on_char ':' (field kvs "SZ") with
   | [r1; r2; t1; t2] -> gate "twin_reduce_size" (r1 = r2); gate "twin_trim_size" (t1 = t2)
   | _ -> gate "format" false);
  let simok s = (s = "ok" || s = "skip" || s = "T") in
  gate "twin_sim_down" (simok (field kvs "SIMD"));
  gate "twin_sim_up" (simok (field kvs "SIMU"));
  let answered = List.length (List.filter (fun o -> o = Yes || o = No) (ab @ aa @ tw @ laws)) in
  let timeouts = List.length (List.filter (fun o -> o = Timeout) (ab @ aa @ tw @ laws)) in
  (if !fails = [] then "OK" else "FAIL " ^ String.concat "," (List.rev !fails))
  ^ Printf.sprintf " answered=%d timeouts=%d" answered timeouts
  ^ (if List.mem Yes ab then " included" else if List.mem No ab then " notincluded" else " unknown") end)
