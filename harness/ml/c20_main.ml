(* templates: common *)
(* C20 protocol judge.  memo: the reported addresses are the allocator's choices (argument of the model, validity checked),
   every lookup answer must equal the model's (= subset test on current contents, C20_memo_sound_under_reuse).
   pool: an allocation must never return a live object (C20_pool_no_alias); LIFO order is drift. *)
open Ex_c20
open Common_c20

let () = each_line (fun l ->
  let (c, o) = split_bar l in
  let t = toks_of_line c in
  let kind = word t in let n = num t in
  let ot = toks_of_line o in
  match kind, peek ot with
  | "memo", Some "M" ->
    ignore (word ot);
    let handles = Hashtbl.create 16 in       (* handle -> address id *)
    let refs = Hashtbl.create 16 in          (* address id -> number of handles *)
    let ops = ref [] and expect_out = ref [] in
    let drop h = (match Hashtbl.find_opt handles h with
      | Some a -> Hashtbl.remove handles h;
                  let k = Hashtbl.find refs a - 1 in
                  if k = 0 then (Hashtbl.remove refs a; ops := MRelease (n_of_int a) :: !ops; expect_out := None :: !expect_out)
                  else Hashtbl.replace refs a k
      | None -> ()) in
    for _ = 1 to n do
      let op = word t in
      let w = word ot in
      match op with
      | "A" -> let h = num t in let k = num t in let es = List.sort_uniq compare (times k (fun () -> num t)) in
               let a = int_of_string (String.sub w 1 (String.length w - 1)) in
               (* the new handle is bound before the old binding of h is dropped (assignment of shared_ptr) *)
               ops := MAlloc (List.map n_of_int es, n_of_int a) :: !ops; expect_out := None :: !expect_out;
               let old = Hashtbl.find_opt handles h in
               Hashtbl.replace refs a ((try Hashtbl.find refs a with Not_found -> 0) + 1);
               (match old with Some _ -> drop h | None -> ());
               Hashtbl.replace handles h a
      | "R" -> let h = num t in drop h
      | "L" -> let h1 = num t in let h2 = num t in
               let a = Hashtbl.find handles h1 and b = Hashtbl.find handles h2 in
               ops := MLookup (n_of_int a, n_of_int b) :: !ops; expect_out := Some (w = "l1") :: !expect_out
      | _ -> failwith "model: memo op"
    done;
    let ops = List.rev !ops and got = List.rev !expect_out in
    if not (allocs_valid minit ops) then "FAIL memo_live_address_reused" else
    let want = memo_run true ops in
    let bad = List.exists2 (fun w g -> match g with Some _ -> w <> g | None -> false) want got in
    (if bad then "FAIL memo_stale_answer" else "OK") ^ Printf.sprintf " memo lookups=%d" (List.length (List.filter (fun g -> g <> None) got))
  | "pool", Some "P" ->
    ignore (word ot);
    let ops = ref [] and outs = ref [] in
    for _ = 1 to n do
      let op = word t in let w = word ot in
      match op with
      | "A" -> ops := PAlloc :: !ops; outs := Some (n_of_int (int_of_string (String.sub w 1 (String.length w - 1)))) :: !outs
      | "R" -> ignore (num t);
               if w <> "r-" then begin ops := PReclaim (n_of_int (int_of_string (String.sub w 1 (String.length w - 1)))) :: !ops; outs := None :: !outs end
      | _ -> failwith "model: pool op"
    done;
    let ops = List.rev !ops and outs = List.rev !outs in
    let ok = pool_no_alias_b pinit ops outs in
    let drift = (pool_run ops <> outs) in
    (if ok then "OK" else "FAIL pool_alias") ^ (if drift then " DRIFT pool_order" else "") ^ " pool"
  | _ -> "FAIL exception " ^ o)
