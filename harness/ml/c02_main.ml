(* templates: common ta_io *)
(* C02: input  bin <T A> <T B> PL .. PR .. ||| U <T> ML n {k v} MR n {k v} D (<T>|SKIP) X <T> PM n {p q s} XB <T> PM n {p q s} I <T> <T> *)
open Ex_c02
open Common_c02
open Ta_io_c02

let read_map t = let n = num t in times n (fun () -> let k = num t in let v = num t in (n_of_int k, n_of_int v))
let read_pm t = expect t "PM"; let n = num t in times n (fun () -> let p = num t in let q = num t in let s = num t in ((n_of_int p, n_of_int q), n_of_int s))

let () = each_line (fun l ->
  let (c, o) = split_bar l in
  let t = toks_of_line c in expect t "bin"; let a = read_ta t in let b = read_ta t in
  expect t "PL"; let pl = read_map t in expect t "PR"; let pr = read_map t in
  let t = toks_of_line o in
  match peek t with
  | Some "U" ->
    expect t "U"; let u = read_ta t in
    expect t "ML"; let ml = read_map t in expect t "MR"; let mr = read_map t in
    expect t "D"; let d = (match peek t with Some "SKIP" -> ignore (word t); None | _ -> Some (read_ta t)) in
    expect t "X"; let x = read_ta t in let pmx = read_pm t in
    expect t "XB"; let xb = read_ta t in let pmb = read_pm t in
    expect t "XR"; let xr = read_ta t in let pmxr = read_pm t in
    expect t "XBR"; let xbr = read_ta t in let pmbr = read_pm t in
    expect t "UN"; let un = read_ta t in expect t "XN"; let xn = read_ta t in expect t "XBN"; let xbn = read_ta t in
    expect t "I"; let ia = read_ta t in let ib = read_ta t in
    let fails = ref [] and drift = ref [] in
    let gate n b = if not b then fails := n :: !fails in
    let dr n b = if not b then drift := n :: !drift in
    gate "union_lang" (union_gate a b u);
    gate "union_names" (names_union ml mr a b u);
    gate "union_prefill_kept" (List.for_all (fun kv -> List.mem kv ml) pl && List.for_all (fun kv -> List.mem kv mr) pr);
    dr "union_struct" (ta_same u (union_model ml mr a b));
    (match d with None -> () | Some d -> gate "uniondisj_lang" (union_gate a b d); dr "uniondisj_struct" (ta_same d (ta_app a b)));
    gate "isect_lang" (isect_gate a b x);
    gate "isect_names" (names_isect pmx a b x);
    dr "isect_struct" (ta_same x (isect_td_model pmx (n_of_int 1000000) a b));
    gate "isectbu_lang" (isect_gate a b xb);
    gate "isectbu_names" (names_isect pmb a b xb);
    dr "isectbu_struct" (ta_same xb (isect_bu_model pmb (n_of_int 1000000) a b));
    (* the product map is documented as an OUT parameter: handing in a pre-filled one is outside the contract (the top-down
       Intersection indeed does not expand pairs it finds in the map). Observed, reported as drift for IntersectionBU only. *)
    ignore xr; ignore pmxr;
    dr "isectbu_reused_map" (isect_gate a b xbr && names_isect pmbr a b xbr && List.for_all (fun e -> List.mem e pmbr) pmb);
    gate "union_nomaps_lang" (union_gate a b un);
    gate "isect_nomaps_lang" (isect_gate a b xn);
    gate "isectbu_nomaps_lang" (isect_gate a b xbn);
    gate "operand_changed" (ta_same a ia && ta_same b ib);
    (if !fails = [] then "OK" else "FAIL " ^ String.concat "," (List.rev !fails))
    ^ (if !drift = [] then "" else " DRIFT " ^ String.concat "," (List.rev !drift))
    ^ (if is_empty a then " Aempty" else " Anonempty") ^ (if is_empty b then " Bempty" else " Bnonempty")
    ^ (if is_empty x then " Xempty" else " Xnonempty")
    ^ (match d with None -> " overlap" | Some _ -> " disjoint")
  | _ -> "FAIL exception " ^ o)
