(* templates: common *)
(* C18: replays the history on the extracted store model (coq/MtbddStoreDefs.v: unique tables, reference counters,
   handles) and compares with what the driver observed on libvata after every step.
   input line:  c18 <u|s> <NV> <steps> ||| <dLeaf>:<dInt>:<h>=<values>,... per step   END <dLeaf>:<dInt>
   output line: OK | FAIL <gates> ; then flags
   gates:  size      after every step both unique tables hold at least the nodes of the model (= those reachable from live objects); exact equality is drift
           value     every live object has, on every total assignment, the value of its (unchanged) model diagram (C18_frame)
           handles   the set of live objects differs (driver / model disagree about the history)
           baseline  after destroying everything the tables are not back to their sizes at the start of the case
           invalid   the model cannot execute the history (a generator error, or a fault of release) *)
open Ex_c18
open Common_c18

(* a step of the case: an operation of the store model, or "n temporary copies made and destroyed again" (no lasting effect on the model) *)
type cstep = ONop | OOp of n op
let veq = N.eq_dec
let tri_of_char = function '0' -> T0 | '1' -> T1 | 'X' -> TX | _ -> failwith "model: bad assignment"
let asgn_of_word (w : string) : tri list = if w = "-" then [] else List.map tri_of_char (List.init (String.length w) (String.get w))
let rec pow b n = if n = 0 then 1 else b * pow b (n - 1)
let nth_asgn (t : int) (n : int) (base : int) : tri list =
  let rec go t i = if i = n then [] else (match t mod base with 0 -> T0 | 1 -> T1 | _ -> TX) :: go (t / base) (i + 1) in go t 0

let () = each_line (fun l ->
  let (c, o) = split_bar l in
  let t = toks_of_line c in
  expect t "c18";
  let dom = (match word t with "u" -> false | "s" -> true | _ -> failwith "model: domain") in
  let nv = num t in
  let ops = ref [] in
  let nat () = nat_of_int (num t) in
  let selfassign = ref 0 and destroys = ref 0 and bulk = ref 0 in
  while peek t <> None do
    let w = word t in
    let h = nat () in
    let op = (match w with
     | "C" -> let a = asgn_of_word (word t) in let v = n_of_int (num t) in let d = n_of_int (num t) in OOp (OConstruct (h, a, v, d))
     | "K" -> OOp (OLeaf (h, n_of_int (num t)))
     | "Y" -> OOp (OCopy (h, nat ()))
     | "A" -> let g = nat () in (if g = h then incr selfassign); OOp (OAssign (h, g))
     | "U" -> let f = n_of_int (num t) in OOp (OApply1 (h, op1 dom f, nat ()))
     | "B" -> let f = n_of_int (num t) in let a = nat () in let b = nat () in OOp (OApply2 (h, op2 dom f, a, b))
     | "T" -> let f = n_of_int (num t) in let a = nat () in let b = nat () in let c = nat () in OOp (OApply3 (h, op3 dom f, a, b, c))
     | "E" -> let a = asgn_of_word (word t) in let off = nat () in OOp (OExtend (h, a, off, nat ()))
     | "X" -> let a = asgn_of_word (word t) in let off = nat () in OOp (OPrefix (h, a, off, nat ()))
     | "D" -> incr destroys; OOp (ODestroy h)
     | "Z" -> ignore (num t); incr bulk; ONop
     | _ -> failwith ("model: unknown op " ^ w)) in
    ops := op :: !ops
  done;
  let ops = List.rev !ops in
  let t = toks_of_line o in
  match peek t with
  | Some "EXC" | Some "CRASH" | Some "HANG" -> "FAIL exception " ^ o
  | _ ->
    let fails = ref [] in
    let fail g = if not (List.mem g !fails) then fails := g :: !fails in
    let drift = ref false in
    let asgns = List.init (pow 2 nv) (fun k -> nth_asgn k nv 2) in
    let released = ref 0 and maxnodes = ref 0 and shared = ref false and maxlive = ref 0 in
    let st = ref (Some empty_store) in
    List.iter (fun op ->
      let w = word t in
      match !st with
      | None -> ()
      | Some s ->
        (match (match op with ONop -> Some (s, []) | OOp o -> step veq s o) with
         | None -> fail "invalid"; st := None
         | Some (s', log) ->
           st := Some s';
           released := !released + List.length log;
           maxnodes := max !maxnodes (List.length (nodes s'));
           maxlive := max !maxlive (List.length (handles s'));
           if List.exists (fun (_, nd) -> (match nd.shp with SInt (_, _, _) -> true | SLeaf _ -> false) && int_of_nat nd.rc >= 2) (nodes s') then shared := true;
           let hs = List.sort compare (List.map (fun (h, hd) -> (int_of_nat h, hd)) (handles s')) in
           (match String.split_on_char ':' w with
            | [dl; di; rest] ->
              (* the property: no node is released while something refers to it, and the store is back to baseline at the end. During a
                 history the store must therefore hold AT LEAST the nodes reachable from the live objects (the model's tables, which
                 release eagerly); holding more for a while (e.g. deferred release) is the implementation's business: reported as drift *)
              if int_of_string dl < int_of_nat (leaf_size s') || int_of_string di < int_of_nat (int_size s') then fail "size"
              else if int_of_string dl <> int_of_nat (leaf_size s') || int_of_string di <> int_of_nat (int_size s') then drift := true;
              let items = if rest = "-" then [] else String.split_on_char ',' rest in
              if List.length items <> List.length hs then fail "handles" else
              List.iter2 (fun item (h, hd) ->
                match String.split_on_char '=' item with
                | [hw; vals] ->
                  if int_of_string hw <> h then fail "handles"
                  else if String.length vals <> List.length asgns then fail "value"
                  else List.iteri (fun k a -> if not (veq (get_value hd.ghost a) (n_of_int (Char.code vals.[k] - 48))) then fail "value") asgns
                | _ -> fail "handles") items hs
            | _ -> fail "size"))) ops;
    (match !st with
     | None -> ()
     | Some _ ->
       expect t "END";
       if word t <> "0:0" then fail "baseline");
    (if !fails = [] then "OK" else "FAIL " ^ String.concat "," (List.rev !fails))
    ^ (if !drift then " DRIFT size_exact" else "")
    ^ Printf.sprintf " steps=%d destroys=%d released=%d maxnodes=%d maxlive=%d selfassign=%d%s" (List.length ops) !destroys !released !maxnodes !maxlive !selfassign
        (if !shared then " shared" else "") ^ (if !bulk > 0 then " bulk" else ""))
