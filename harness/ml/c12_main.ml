(* templates: common *)
(* C12: replays the op sequence of the case, and at every read evaluates the verified gates of StoreDefs.v
   (the property clauses themselves) on what libvata printed.
   input line:  c12 <n> steps ||| R ... R ...      output line: OK | FAIL <gates> ; then measured flags *)
open Ex_c12
open Common_c12

let read_rule t =
  let s = num t in let p = num t in let k = num t in
  let cs = times k (fun () -> n_of_int (num t)) in
  { sym = n_of_int s; ch = cs; par = n_of_int p }
let read_rules t = let n = num t in times n (fun () -> read_rule t)
let read_nums t = let n = num t in times n (fun () -> n_of_int (num t))
let read_bits t = let n = num t in times n (fun () -> num t = 1)

let () = each_line (fun l ->
  let (c, o) = split_bar l in
  let t = toks_of_line c in expect t "c12"; let n = num t in
  let out = toks_of_line o in
  match peek out with
  | Some "EXC" | Some "CRASH" | Some "HANG" -> "FAIL exception " ^ o
  | _ ->
    let fails = ref [] in
    let fail g = if not (List.mem g !fails) then fails := g :: !fails in
    let ops = ref [] in           (* reversed *)
    let reads = ref 0 and nclear = ref 0 and nerase = ref 0 and dup = ref false and nullary = ref false
    and multiar = ref false and finnorule = ref false and read_after_clear = ref false and maxlive = ref 0 in
    let bystander = ref false in
    let seen : (int * int) list ref = ref [] in   (* symbol, arity *)
    let note_rule (r : rule) =
      let s = int_of_n r.sym and a = List.length r.ch in
      if a = 0 then nullary := true;
      if List.exists (fun (s', a') -> s' = s && a' <> a) !seen then multiar := true;
      seen := (s, a) :: !seen;
      if memR r (live (List.rev !ops)) then dup := true in
    for _ = 1 to n do
      match word t with
      | "A" | "T" -> let r = read_rule t in note_rule r; ops := Add r :: !ops
      | "Y" | "W" -> bystander := true                                  (* copy made / read-only call: no effect on the automaton *)
      | "Z" -> ignore (read_rule t); bystander := true                  (* rule added to the COPY *)
      | "H" -> ignore (num t)
      | "F" -> let q = n_of_int (num t) in ops := SetFinal q :: !ops
      | "G" -> let qs = read_nums t in ops := SetFinals qs :: !ops
      | "E" -> incr nerase; ops := EraseFinals :: !ops
      | "C" -> incr nclear; ops := Clear :: !ops
      | "R" ->
        let ds = read_nums t in let ps = read_rules t in
        let cur = List.rev !ops in
        incr reads;
        if !nclear > 0 || !nerase > 0 then read_after_clear := true;
        let lv = live cur and lf = livef cur in
        maxlive := max !maxlive (List.length (List.sort_uniq compare lv));
        if List.exists (fun q -> not (List.exists (fun r -> r.par = q) lv)) lf then finnorule := true;
        expect out "R";
        expect out "I"; let it = read_rules out in if not (gate_iter cur it) then fail "iter";
        expect out "F"; let fs = read_nums out in if not (gate_finals cur fs) then fail "finals";
        expect out "A"; let ac = read_rules out in if not (gate_accept cur ac) then fail "accept_trans";
        expect out "U"; let us = read_nums out in if not (gate_used cur us) then fail "used_states";
        expect out "E"; let e = (num out = 1) in if not (gate_empty cur e) then fail "trans_empty";
        expect out "D"; let nd = num out in
        if nd <> List.length ds then failwith "model: D count";
        List.iter (fun d ->
          let d' = n_of_int (num out) in if d' <> d then failwith "model: D state";
          let eb = (num out = 1) in
          let rs = read_rules out in
          if not (gate_down cur d rs) then fail "down";
          if eb <> gate_down cur d [] then fail "down_empty") ds;
        expect out "S"; let bs = read_bits out in
        List.iter2 (fun d b -> if not (gate_isfinal cur d b) then fail "is_final") ds bs;
        expect out "K"; let ks = read_bits out in
        List.iter2 (fun r b -> if not (gate_contains cur r b) then fail "contains") ps ks;
        expect out "V"; let vs = read_bits out in
        List.iter2 (fun r b -> if not (gate_contains cur r b) then fail "contains") ps vs;
        (* the model's own views pass the same gates (sanity of the extracted model; cannot fail by C12_model_passes) *)
        let m = run cur in
        if not (same_multiset it (iter m.st)) && gate_iter cur it then fail "model_inconsistent"
      | w -> failwith ("model: unknown step " ^ w)
    done;
    (match List.rev !fails with [] -> "OK" | [g] -> "FAIL " ^ g | g :: r -> "FAIL " ^ g ^ " also=" ^ String.concat "," r)
    ^ Printf.sprintf " reads=%d maxlive=%d" !reads !maxlive ^ (if !bystander then " bystander" else "")
    ^ (if !dup then " dup" else "") ^ (if !nullary then " nullary" else "") ^ (if !multiar then " multiarity" else "")
    ^ (if !finnorule then " final_without_rule" else "") ^ (if !read_after_clear then " read_after_clear" else ""))
