(* templates: common ta_io *)
(* C07: input  incl <T A> <T B> [SWEEP] ||| V v0..v5 F {sweep tokens} I <T> <T> <T> <T> *)
open Ex_c07
open Common_c07
open Ta_io_c07
let names = [| "td_rec_nosim"; "td_rec_opt_nosim"; "td_rec_sim"; "td_rec_opt_sim"; "bu_up_nosim"; "bu_down_rec_sim" |]
let mem_n w l = List.exists (fun x -> int_of_n x = w) l
let () = each_line (fun l ->
  let (c, o) = split_bar l in
  let t = toks_of_line c in expect t "incl"; let a = read_ta t in let b = read_ta t in
  let t = toks_of_line o in
  match peek t with
  | Some "V" ->
    expect t "V"; let vs = times 6 (fun () -> word t) in
    let ups = word t in                  (* bu_up_sim history: A<=B, A<=A after b = a, B<=A after a = B; or T / E... for the whole group *)
    expect t "F";
    let sw = ref [] in
    while peek t <> Some "I" do sw := word t :: !sw done;
    let sw = Array.of_list (List.rev !sw) in
    expect t "I"; let i1 = read_ta t in let i2 = read_ta t in let i3 = read_ta t in let i4 = read_ta t in
    let truth = incl_dec a b in
    let ts = if truth then "1" else "0" in
    let fails = ref [] in
    List.iteri (fun i v -> if v <> "T" (* time limit: inconclusive *) && (v <> ts || not (gate_verdict a b (v = "1"))) then fails := names.(i) :: !fails) vs;
    (if ups <> "T" then begin
       if String.length ups <> 3 then fails := "bu_up_sim" :: !fails
       else begin
         let c b = if b then '1' else '0' in
         if ups.[0] <> c truth then fails := "bu_up_sim" :: !fails;
         if ups.[1] <> '1' then fails := "bu_up_sim_after_assign" :: !fails;
         if ups.[2] <> c (incl_dec b a) then fails := "bu_up_sim_after_assign_swapped" :: !fails
       end end);
    if Array.length sw = 256 then begin
      if not scrape_ok then fails := "dispatch_scrape" :: !fails;
      Array.iteri (fun k tok ->
        let enc = k / 128 and w = k mod 128 in
        let impl = mem_n w (if enc = 0 then impl_td else impl_bu) in
        let ok = (tok = "skip") || (if impl then tok = ts else tok = "N") in
        if not ok then fails := (Printf.sprintf "sweep_%s_%d" (if enc = 0 then "td" else "bu") w) :: !fails) sw end
    else if Array.length sw <> 0 then fails := "sweep_format" :: !fails;
    if not (ta_same a i1 && ta_same b i2 && ta_same a i3 && ta_same b i4) then fails := "load_dump" :: !fails;
    (if !fails = [] then "OK" else "FAIL " ^ String.concat "," (List.rev !fails))
    ^ (if truth then " included" else " notincluded")
    ^ (if is_empty a then " Aempty" else " Anonempty") ^ (if is_empty b then " Bempty" else " Bnonempty")
    ^ " V=" ^ String.concat "" vs
    ^ (if List.mem "T" vs then " timeout" else "")
    ^ (if a.rules <> [] && a.rules = b.rules then " shared_table" else "")
  | _ -> "FAIL exception " ^ o)
