(* templates: common ta_io *)
(* C14: evaluates the verified gates of ReindexDefs.v on libvata's result with the map read back from the
   translator; the nested model's result is compared as a multiset for the drift report.
   input line:  c14 <variant> ... ||| R <T> M <n> {k v} I <T>      output: OK | FAIL <gates> [DRIFT ..] flags *)
open Ex_c14
open Common_c14
open Ta_io_c14

let read_map t = expect t "M"; let n = num t in times n (fun () -> let k = num t in let v = num t in (n_of_int k, n_of_int v))
let rec uniq = function [] -> [] | x :: r -> if List.mem x r then uniq r else x :: uniq r

let () = each_line (fun l ->
  let (c, o) = split_bar l in
  let t = toks_of_line c in expect t "c14"; let v = word t in
  let out = toks_of_line o in
  match peek out with
  | Some "EXC" | Some "CRASH" | Some "HANG" -> "FAIL exception " ^ o
  | _ ->
    let fails = ref [] and drift = ref [] in
    let fail g = if not (List.mem g !fails) then fails := !fails @ [g] in
    let read_out () = expect out "R"; let r = read_ta out in let m = read_map out in expect out "I"; let i = read_ta out in (r, m, i) in
    let flags a h dom =
      let ds = uniq dom in
      (if inj_onb h ds then " injective" else " merging")
      ^ (if List.for_all (fun x -> h x = x) ds then " identity" else "")
      ^ (if List.exists (fun x -> int_of_n (h x) > 3 * (List.length ds) + 8) ds then " sparse" else "")
      ^ Printf.sprintf " states=%d rules=%d" (List.length ds) (List.length (uniq a.rules)) in
    let res =
      match v with
      | "RF" | "RD" ->
        let addf = (num t = 1) in let a = read_ta t in
        let d = if v = "RD" then read_ta t else { rules = []; finals = [] } in
        let m = read_map t in let off = n_of_int (num t) in
        let h = app_map m off in
        let (r, _, i) = read_out () in
        if not (gate_reindex h addf a d r) then fail "image";
        if not (ta_set_eq a i) then fail "operand_changed";
        if peek out = Some "X" then begin expect out "X"; let x = read_ta out in if not (ta_set_eq d x) then fail "dst_donor_changed" end;
        let mr = flat (reindex_aut h addf (of_ta a) (of_ta d)) in
        if not (same_multiset mr.rules r.rules) then drift := "nested_model" :: !drift;
        flags a h (states a) ^ (if v = "RD" && d.rules <> [] then " into_nonempty_dst" else "") ^ (if v = "RD" && a.rules <> [] && ta_set_eq a d then " dst_is_copy_of_src" else "") ^ (if addf then "" else " nofinals")
      | "RW" ->
        let a = read_ta t in let pre = read_map t in let _base = num t in
        let (r, m, i) = read_out () in
        let h = app_map m N0 in
        if not (gate_translator pre m a) then fail "translator";
        if not (gate_image h a r) then fail "image";
        if not (ta_set_eq a i) then fail "operand_changed";
        let mr = flat (reindex_aut h true (of_ta a) init) in
        if not (same_multiset mr.rules r.rules) then drift := "nested_model" :: !drift;
        flags a h (states a) ^ (if pre <> [] then " prefilled" else "")
      | "CS" ->
        let a = read_ta t in let m0 = read_map t in
        let (r, m, i) = read_out () in
        let h = app_map m0 N0 in
        if not (gate_translator m0 m a) then fail "translator";      (* the map is const: unchanged, total *)
        if List.length m <> List.length m0 then fail "translator";
        if not (gate_image h a r) then fail "image";
        if not (ta_set_eq a i) then fail "operand_changed";
        let mr = flat (reindex_aut h true (of_ta a) init) in
        if not (same_multiset mr.rules r.rules) then drift := "nested_model" :: !drift;
        flags a h (states a)
      | "TS" ->
        let a = read_ta t in let m = read_map t in let off = n_of_int (num t) in
        let g = app_map m off in
        let (r, _, i) = read_out () in
        if not (gate_simage g a r) then fail "simage";
        if not (ta_set_eq a i) then fail "operand_changed";
        let mr = flat (translate_aut g (of_ta a)) in
        if not (same_multiset mr.rules r.rules) then drift := "nested_model" :: !drift;
        flags a g (List.map (fun (r : rule) -> r.sym) a.rules) ^ " symbols"
      | w -> failwith ("model: unknown variant " ^ w) in
    (match !fails with [] -> "OK" | [g] -> "FAIL " ^ g | g :: r -> "FAIL " ^ g ^ " also=" ^ String.concat "," r)
    ^ (if !drift = [] then "" else " DRIFT " ^ String.concat "," !drift) ^ " " ^ v ^ res)
