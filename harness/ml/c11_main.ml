(* templates: common ta_io *)
(* C11: runs the value model (extracted vstep_run over two pools) along the history and compares EVERY live handle
   after EVERY step with what libvata shows; library-operation results are checked against their re-run on fresh
   operands, against the images under the reported maps, and against later replays.
   input:  c11 <n> steps ||| S [extras] L <n> {t<i> <T> | w<i> <W>} ...     output: OK | FAIL <gates> [DRIFT ..] flags *)
open Ex_c11
open Common_c11
open Ta_io_c11

let read_w (t : toks) : wval =
  expect t "W";
  let ns = num t in let ss = times ns (fun () -> n_of_int (num t)) in
  let np = num t in let ps = times np (fun () -> let s = num t in let a = num t in (n_of_int s, n_of_int a)) in
  let nf = num t in let fs = times nf (fun () -> n_of_int (num t)) in
  let ne = num t in let es = times ne (fun () -> let p = num t in let a = num t in let q = num t in ((n_of_int p, n_of_int a), n_of_int q)) in
  { wstartset = ss; wsyms = ps; wfinals = fs; wedges = es }
let read_map tag t = expect t tag; let n = num t in times n (fun () -> let k = num t in let v = num t in (n_of_int k, n_of_int v))

type librec = { kind : string; ta_ : ta; tb_ : ta; wa_ : wval; wb_ : wval; m_ : (n * n) list; off_ : n; tres : ta; wres : wval }

let () = each_line (fun l ->
  let (c, o) = split_bar l in
  let t = toks_of_line c in expect t "c11"; let nsteps = num t in
  let out = toks_of_line o in
  match peek out with
  | Some "EXC" | Some "CRASH" | Some "HANG" -> "FAIL exception " ^ o
  | _ ->
    let fails = ref [] and drift = ref [] in
    let fail g = if not (List.mem g !fails) then fails := !fails @ [g] in
    let dr g = if not (List.mem g !drift) then drift := !drift @ [g] in
    let tp : ta pool ref = ref pempty and wp : wval pool ref = ref pempty in
    let log : librec list ref = ref [] in
    let ncopy = ref 0 and nmut = ref 0 and shared_mut = ref 0 and nlib = ref 0 and nreplay = ref 0 and ndestroy = ref 0 and maxlive = ref 0 in
    let tget h = match !tp (n_of_int h) with Some v -> v | None -> failwith "model: dead tree handle" in
    let wget h = match !wp (n_of_int h) with Some v -> v | None -> failwith "model: dead word handle" in
    let tstep s = tp := vstep_run !tp s and wstep s = wp := vstep_run !wp s in
    let nh = n_of_int in
    let note_shared_t h = let v = tget h in
      if v.rules <> [] && List.exists (fun x -> x <> h && (match !tp (nh x) with Some v' -> t_obs_eq v v' | None -> false)) [0;1;2;3;4;5] then incr shared_mut in
    let note_shared_w h = let v = wget h in
      if v.wedges <> [] && List.exists (fun x -> x <> h && (match !wp (nh x) with Some v' -> w_obs_eq v v' | None -> false)) [0;1;2;3;4;5] then incr shared_mut in
    let empty_w = w_empty in
    for _ = 1 to nsteps do
      let k = word t in
      expect out "S";
      let written_t = ref [] and written_w = ref [] in
      let pending_t = ref None and pending_w = ref None in   (* library result handle: its value is what libvata shows *)
      (match k with
       | "tN" -> let h = num t in written_t := [h]; tstep (VNew (nh h, t_empty))
       | "tC" -> let h = num t in let s = num t in incr ncopy; written_t := [h]; tstep (VCopy (nh h, nh s))
       | "tK" -> let h = num t in let s = num t in let ct = (num t = 1) in let cf = (num t = 1) in incr ncopy; written_t := [h];
                 tstep (VLib1 (nh h, t_select ct cf, nh s))
       | "tA" -> let h = num t in let s = num t in incr ncopy; written_t := [h]; tstep (VCopy (nh h, nh s))
       | "tM" | "tV" -> let h = num t in let s = num t in written_t := [h; s]; tstep (VMove (nh h, nh s))
       | "tD" -> let h = num t in incr ndestroy; written_t := [h]; tstep (VDestroy (nh h))
       | "tR" -> let h = num t in let s = num t in let p = num t in let ar = num t in let cs = times ar (fun () -> nh (num t)) in
                 incr nmut; note_shared_t h; written_t := [h]; tstep (VMut (nh h, t_add { sym = nh s; ch = cs; par = nh p }))
       | "tF" -> let h = num t in let q = num t in incr nmut; note_shared_t h; written_t := [h]; tstep (VMut (nh h, t_setfinal (nh q)))
       | "tE" -> let h = num t in incr nmut; note_shared_t h; written_t := [h]; tstep (VMut (nh h, t_erasefinals))
       | "tX" -> let h = num t in incr nmut; note_shared_t h; written_t := [h]; tstep (VMut (nh h, t_clear))
       | "tQ" -> let h = num t in note_shared_t h; written_t := [h]; tstep (VMut (nh h, (fun v -> v)))
       | "tU" | "tL" | "tJ" | "tY" | "tI" | "tT" ->
         let h = num t in let s1 = num t in let s2 = if k = "tY" || k = "tJ" then num t else s1 in
         let (m, off) = if k = "tI" || k = "tT" then (let m = read_map "M" t in let off = nh (num t) in (m, off)) else ([], N0) in
         let a = tget s1 and b = tget s2 in
         incr nlib; written_t := [h];
         let (ma, mb) = if k = "tY" then (let ma = read_map "MA" out in let mb = read_map "MB" out in (ma, mb)) else ([], []) in
         expect out "X"; let x = read_ta out in
         let (xa, xb) = if k = "tY" then (let ma = read_map "MA" out in let mb = read_map "MB" out in (ma, mb)) else ([], []) in
         expect out "Z"; (match peek out with Some "EXC" -> failwith "model: pristine process failed" | _ -> ());
         let z = read_ta out in
         let (za, zb) = if k = "tY" then (let ma = read_map "MA" out in let mb = read_map "MB" out in (ma, mb)) else ([], []) in
         (if k = "tY" then (if not (t_union_gate za zb a b z) then fail "depends_on_process_history")
          else if not (t_obs_eq x z) then fail "depends_on_process_history");
         pending_t := Some (h, k, a, b, m, off, ma, mb, x, xa, xb)
       | "tP" | "wP" ->
         let j = num t in incr nreplay;
         let r = List.nth !log j in
         expect out "P";
         (match r.kind with
          | "tU" | "tL" | "tJ" | "tI" | "tT" -> let x = read_ta out in if not (t_obs_eq r.tres x) then fail "replay_differs"
          | "tY" -> let x = read_ta out in let ma = read_map "MA" out in let mb = read_map "MB" out in
                    if not (t_union_gate ma mb r.ta_ r.tb_ x) then fail "replay_differs"
          | "wU" | "wL" | "wJ" -> let x = read_w out in if not (w_vis_eq r.wres x) then fail "replay_differs"
          | "wY" -> let x = read_w out in let ma = read_map "MA" out in let mb = read_map "MB" out in
                    if not (w_union_gate ma mb r.wa_ r.wb_ x) then fail "replay_differs"
          | "wI" -> let x = read_w out in let m = read_map "M" out in if not (w_image_gate m r.wa_ x) then fail "replay_differs"
          | _ -> failwith "model: bad log entry")
       | "wN" -> let h = num t in written_w := [h]; wstep (VNew (nh h, empty_w))
       | "wC" -> let h = num t in let s = num t in incr ncopy; written_w := [h]; wstep (VCopy (nh h, nh s))
       | "wA" -> let h = num t in let s = num t in incr ncopy; written_w := [h]; wstep (VCopy (nh h, nh s))
       | "wM" | "wV" -> let h = num t in let s = num t in written_w := [h; s]; wstep (VMove (nh h, nh s))
       | "wD" -> let h = num t in incr ndestroy; written_w := [h]; wstep (VDestroy (nh h))
       | "wR" -> let h = num t in let p = num t in let a = num t in let q = num t in incr nmut; note_shared_w h; written_w := [h];
                 wstep (VMut (nh h, w_add ((nh p, nh a), nh q)))
       | "wF" -> let h = num t in let q = num t in incr nmut; note_shared_w h; written_w := [h]; wstep (VMut (nh h, w_setfinal (nh q)))
       | "wS" -> let h = num t in let q = num t in let a = num t in incr nmut; note_shared_w h; written_w := [h]; wstep (VMut (nh h, w_setstart (nh q) (nh a)))
       | "wU" | "wL" | "wJ" | "wY" | "wI" ->
         let h = num t in let s1 = num t in let s2 = if k = "wY" || k = "wJ" then num t else s1 in
         let (m, off) = if k = "wI" then (let m = read_map "M" t in let off = nh (num t) in (m, off)) else ([], N0) in
         let a = wget s1 and b = wget s2 in
         incr nlib; written_w := [h];
         let (ma, mb) = if k = "wY" then (let ma = read_map "MA" out in let mb = read_map "MB" out in (ma, mb))
                        else if k = "wI" then (read_map "M" out, []) else ([], []) in
         expect out "X"; let x = read_w out in
         let (xa, xb) = if k = "wY" then (let ma = read_map "MA" out in let mb = read_map "MB" out in (ma, mb))
                        else if k = "wI" then (read_map "M" out, []) else ([], []) in
         expect out "Z"; (match peek out with Some "EXC" -> failwith "model: pristine process failed" | _ -> ());
         let z = read_w out in
         let (za, zb) = if k = "wY" then (let ma = read_map "MA" out in let mb = read_map "MB" out in (ma, mb))
                        else if k = "wI" then (read_map "M" out, []) else ([], []) in
         (if k = "wY" then (if not (w_union_gate za zb a b z) then fail "depends_on_process_history")
          else if k = "wI" then (if not (w_image_gate za a z) then fail "depends_on_process_history")
          else if not (w_vis_eq x z) then fail "depends_on_process_history");
         pending_w := Some (h, k, a, b, m, off, ma, mb, x, xa, xb)
       | w -> failwith ("model: unknown step " ^ w));
      (* what libvata shows *)
      expect out "L"; let nl = num out in
      maxlive := max !maxlive nl;
      let seen_t = ref [] and seen_w = ref [] in
      for _ = 1 to nl do
        let w = word out in
        let h = int_of_string (String.sub w 1 (String.length w - 1)) in
        if w.[0] = 't' then seen_t := (h, read_ta out) :: !seen_t else seen_w := (h, read_w out) :: !seen_w
      done;
      (* library results: the new handle's value is what libvata returned; it must be the function of the operands' values *)
      (match !pending_t with
       | None -> ()
       | Some (h, k, a, b, m, off, ma, mb, x, xa, xb) ->
         let r = (try List.assoc h !seen_t with Not_found -> t_empty) in
         (match k with
          | "tU" -> if not (t_obs_eq r x) then fail "result_not_function_of_operands";
                    if not (t_obs_eq r (remove_unreachable a)) then dr "unreach_model"
          | "tL" -> if not (t_obs_eq r x) then fail "result_not_function_of_operands";
                    if not (t_obs_eq r (remove_useless a)) then dr "useless_model"
          | "tJ" -> if not (t_obs_eq r x) then fail "result_not_function_of_operands";
                    if not (t_obs_eq r (t_union_disjoint a b)) then fail "union_disjoint_value"
          | "tY" -> if not (t_union_gate ma mb a b r) then fail "union_value";
                    if not (t_union_gate xa xb a b x) then fail "result_not_function_of_operands"
          | "tT" ->
                 (* TranslateSymbols: the rules with their symbols mapped (table, unlisted x -> x + off), the same final states (plain glue comparison as sets) *)
                 let g sy = (match List.assoc_opt sy m with Some v -> v | None -> n_of_int (int_of_n sy + int_of_n off)) in
                 let expected = { rules = List.map (fun (rl : rule) -> { rl with sym = g rl.sym }) a.rules; finals = a.finals } in
                 if not (t_obs_eq r expected) then fail "translate_value";
                 if not (t_obs_eq r x) then fail "result_not_function_of_operands"
          | _ -> let hf = app_map m off in
                 if not (t_image_gate hf a r) then fail "reindex_value";
                 if not (t_obs_eq r x) then fail "result_not_function_of_operands");
         (* same operation on equal operand values earlier in the history *)
         List.iter (fun e -> if e.kind = k && (k = "tU" || k = "tL") && t_obs_eq e.ta_ a && not (t_obs_eq e.tres r) then fail "result_not_function_of_operands") !log;
         log := !log @ [{ kind = k; ta_ = a; tb_ = b; wa_ = w_empty; wb_ = w_empty; m_ = m; off_ = off; tres = r; wres = w_empty }];
         tstep (VNew (nh h, r)));
      (match !pending_w with
       | None -> ()
       | Some (h, k, a, b, m, off, ma, mb, x, xa, xb) ->
         let r = (try List.assoc h !seen_w with Not_found -> w_empty) in
         (match k with
          | "wU" | "wL" -> if not (w_vis_eq r x) then fail "result_not_function_of_operands"
          | "wJ" -> if not (w_vis_eq r x) then fail "result_not_function_of_operands";
                    if not (w_obs_eq r (wapp a b)) then fail "union_disjoint_value"
          | "wY" -> if not (w_union_gate ma mb a b r) then fail "union_value";
                    if not (w_union_gate xa xb a b x) then fail "result_not_function_of_operands"
          | _ -> if not (w_image_gate ma a r) then fail "reindex_value";
                 if not (w_image_gate xa a x) then fail "result_not_function_of_operands";
                 if not (List.for_all (fun (k0, v0) -> List.mem (k0, v0) ma) m) then fail "reindex_value");
         List.iter (fun e -> if e.kind = k && (k = "wU" || k = "wL") && w_obs_eq e.wa_ a && not (w_obs_eq e.wres r) then fail "result_not_function_of_operands") !log;
         log := !log @ [{ kind = k; ta_ = t_empty; tb_ = t_empty; wa_ = a; wb_ = b; m_ = m; off_ = off; tres = t_empty; wres = r }];
         wstep (VNew (nh h, r)));
      (* every handle: liveness and value as the model says *)
      List.iter (fun h ->
        let target = List.mem h !written_t in
        (match !tp (nh h), (try Some (List.assoc h !seen_t) with Not_found -> None) with
         | None, None -> ()
         | Some v, Some ob -> if not (t_obs_eq v ob) then fail (if target then "step_value" else "isolation")
         | _, _ -> fail "liveness");
        let target = List.mem h !written_w in
        (match !wp (nh h), (try Some (List.assoc h !seen_w) with Not_found -> None) with
         | None, None -> ()
         | Some v, Some ob -> if not (w_obs_eq v ob) then fail (if target then "step_value" else "isolation")
         | _, _ -> fail "liveness")) [0; 1; 2; 3; 4; 5]
    done;
    (match !fails with [] -> "OK" | [g] -> "FAIL " ^ g | g :: r -> "FAIL " ^ g ^ " also=" ^ String.concat "," r)
    ^ (if !drift = [] then "" else " DRIFT " ^ String.concat "," !drift)
    ^ Printf.sprintf " steps=%d copies=%d muts=%d shared_muts=%d libs=%d replays=%d destroys=%d maxlive=%d"
        nsteps !ncopy !nmut !shared_mut !nlib !nreplay !ndestroy !maxlive)
