(* templates: common ta_io *)
(* C04: compares the relation returned by ExplicitTreeAut::ComputeSimulation with the extracted model, for an
   automaton and several renumbered / re-ordered variants of it.
   input line:  sim <down|up> <n> <nv> { H p0..p(n-1) <T> }*  |||  { V <np> {q r}* }*
   output line: OK | FAIL <gate>[,<gate>] ; then flags
   gates: exact        = every variant's reported relation equals the model's (verified gate_down / gate_up)
          equivariant  = variant i's reported relation is the image of variant 0's under the renumbering (gate_equivariant)
          preorder     = every reported relation is reflexive on 0..n-1 and transitive
          badcase      = generated input outside the property's hypotheses (dense numbering, ranked symbols, variants are
                         images of variant 0, upward: trimmed) — a generator error, never libvata's *)
open Ex_c04
open Common_c04
open Ta_io_c04

let read_pairs t k = times k (fun () -> let a = num t in let b = num t in (n_of_int a, n_of_int b))

let () = each_line (fun l ->
  let (c, o) = split_bar l in
  let t = toks_of_line c in
  expect t "sim";
  let dir = word t in
  let n = num t in
  let nv = num t in
  let nn = nat_of_int n in
  let vs = times nv (fun () ->
    expect t "H"; let p = times n (fun () -> n_of_int (num t)) in
    let a = read_ta t in (p, a)) in
  let tr = toks_of_line o in
  match peek tr with
  | Some "EXC" | Some "CRASH" | Some "HANG" -> "FAIL exception " ^ o
  | _ ->
    let impls = List.map (fun _ -> expect tr "V"; let np = num tr in read_pairs tr np) vs in
    let fails = ref [] in
    let add g = if not (List.mem g !fails) then fails := !fails @ [g] in
    let (p0, a0) = List.hd vs in
    let impl0 = List.hd impls in
    if not (dense_ok a0 nn && ranked_ok a0 && (dir = "down" || trimmed_ok a0)) then add "badcase";
    if List.map int_of_n p0 <> List.init n (fun i -> i) then add "badcase";
    let model0 = if dir = "down" then down_sim a0 nn else up_sim a0 nn in
    List.iter2 (fun (p, a) impl ->
      if not (is_perm nn p && ta_same (image_ta (perm_fun p) a0) a) then add "badcase";
      let ok = if dir = "down" then gate_down a nn impl else gate_up a nn impl in
      if not ok then add "exact";
      if not (gate_equivariant (perm_fun p) impl0 impl) then add "equivariant";
      if not (is_reflexive nn impl && is_transitive impl) then add "preorder") vs impls;
    let np = List.length model0 in
    let shape = if np = n then "id" else if np = n * n then "full" else "proper" in
    let nfin = List.length (List.sort_uniq compare (List.map int_of_n a0.finals)) in
    (if !fails = [] then "OK" else "FAIL " ^ String.concat "," !fails)
    ^ Printf.sprintf " %s dir=%s n=%d rules=%d finals=%d variants=%d" shape dir n (List.length a0.rules) nfin nv)
