#!/bin/sh
# usage: reverify_seeds.sh [id ...] — re-run ./check <ID> (quick) against every seeded change under /verif/seeded (scratch copy, harness/mutcheck.sh)
# and record the outcome in meta.json as "reverified": {"caught": bool, "gates": [...], "when": ...}. Harmless changes: every check listed in
# their meta is re-run and must stay silent.
cd /verif
IDS="$@"; [ -z "$IDS" ] && IDS=$(ls seeded)
for d in $IDS; do
  [ -f seeded/$d/patch.diff ] || continue
  case $d in
    harmless_*) CHECKS=$(python3 -c "import json;print(' '.join(json.load(open('seeded/$d/meta.json')).get('checks_run_against_it',[])))") ;;
    *) CHECKS=$(echo $d | tr a-z A-Z | cut -c1-3) ;;
  esac
  for ID in $CHECKS; do
    harness/mutcheck.sh $ID /verif/seeded/$d/patch.diff > /tmp/rv_${d}_$ID.txt 2>&1
    python3 - "$d" "$ID" <<'PY'
import json, sys, re, time
d, pid = sys.argv[1:]
txt = open("/tmp/rv_%s_%s.txt" % (d, pid)).read()
if "cannot open" in txt or "patch does not apply" in txt: print(d, pid, "PATCH NOT APPLIED"); sys.exit(0)
caught = bool(re.search(r"^VIOLATION property=%s" % pid, txt, re.M))
gates = re.findall(r"^# (gate .* failed|proof.*|build.*)$", txt, re.M)
p = '/verif/seeded/%s/meta.json' % d
m = json.load(open(p))
rv = m.setdefault("reverified", {})
rv[pid] = {"alarm": caught, "gates": gates[:3], "when": time.strftime("%Y-%m-%d %H:%M UTC", time.gmtime())}
json.dump(m, open(p, 'w'), indent=1)
print("%s %s: %s %s" % (d, pid, "ALARM" if caught else "silent", "; ".join(gates[:2])))
PY
  done
done
