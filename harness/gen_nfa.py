"""Generators for the word-automata properties (C09, C10): bounded-exhaustive slices up to renaming
of states, targeted families aimed at the case splits of the proofs and the shortcuts of the code,
random pairs.  Uses gen.NFA / gen.rand_nfa; all randomness from the rng passed in."""
import itertools
import gen
from gen import NFA


def canon2(a):
    """canonical representative of a <=2-state NFA (states 0,1) under the swap of the two states"""
    h = {0: 1, 1: 0}
    k1 = a.key()
    k2 = a.rename(h).key()
    return k1 if k1 <= k2 else k2


def slice2(maxedges, nsyms=2, iso=True, keep_trivial=False):
    """all NFAs over states {0,1} with <= maxedges edges over nsyms letters, every start/final set;
    iso: one representative per swap class; automata without start or without final states are
    represented by one automaton each unless keep_trivial"""
    seen, out = set(), []
    have_nostart = have_nofinal = False
    for a in gen.enum_nfa(2, maxedges, nsyms):
        if not keep_trivial:
            if not a.starts:
                if have_nostart: continue
                have_nostart = True
            elif not a.finals:
                if have_nofinal: continue
                have_nofinal = True
        k = canon2(a) if iso else a.key()
        if k in seen: continue
        seen.add(k)
        out.append(NFA(k[0], k[1], k[2]) if iso else a)
    return out


def shift(a, off):
    st = sorted(a.states())
    return a.rename({q: q + off for q in st})


def permute(rng, a, sparse=False):
    st = sorted(a.states())
    if sparse:
        tgt = rng.sample(range(0, 3 * len(st) + 6), len(st))
    else:
        tgt = list(range(len(st))); rng.shuffle(tgt)
    r = a.rename(dict(zip(st, tgt)))
    rng.shuffle(r.edges); rng.shuffle(r.starts); rng.shuffle(r.finals)
    return r


def with_eps(rng, maxs=4, maxe=7, nsyms=2):
    """epsilon in L: some start state is final"""
    a = gen.rand_nfa_sized(rng, maxs, maxe, nsyms)
    st = sorted(a.states()) or [0]
    s = rng.choice(a.starts) if a.starts else rng.choice(st)
    if s not in a.starts: a.starts.append(s)
    if s not in a.finals: a.finals.append(s)
    return a


def eps_only_witness(rng, maxs=4, nsyms=2):
    """epsilon in L and no final state reachable by a non-empty path from... the search of
    GetCandidateTree reaches no other final state (trigger shape of D13)"""
    n = rng.randint(1, maxs)
    st = list(range(n))
    s = rng.choice(st)
    ed = [(rng.choice(st), rng.randrange(nsyms), rng.choice([q for q in st if q != s] or st)) for _ in range(rng.randint(0, 5))]
    return NFA([s] + ([rng.choice(st)] if rng.random() < 0.3 else []), [s], ed)


def multistart(rng, maxs=4, maxe=7, nsyms=2):
    a = gen.rand_nfa_sized(rng, maxs, maxe, nsyms, pstart=0.7)
    st = sorted(a.states()) or [0]
    while len(set(a.starts)) < min(2, len(st)):
        a.starts.append(rng.choice(st))
    return a


def with_dead(rng, maxs=3, maxe=6, nsyms=2):
    """unreachable states, states that reach no final state, finals that are unreachable"""
    a = gen.rand_nfa_sized(rng, maxs, maxe, nsyms)
    st = sorted(a.states()) or [0]
    base = max(st) + 1
    kind = rng.randrange(4)
    if kind == 0:      # unreachable component with a final state
        a.edges += [(base, rng.randrange(nsyms), base + 1), (base + 1, rng.randrange(nsyms), rng.choice(st))]
        a.finals.append(base + 1)
    elif kind == 1:    # dead end reachable from a state
        a.edges += [(rng.choice(st), rng.randrange(nsyms), base), (base, rng.randrange(nsyms), base)]
    elif kind == 2:    # unreachable final without edges, start that reaches nothing
        a.finals.append(base); a.starts.append(base + 1)
    else:              # unreachable state pointing into the automaton
        a.edges.append((base, rng.randrange(nsyms), rng.choice(st)))
    return a


def one_initial_component(rng, nsyms=2):
    """pairs whose product reaches a pair with exactly one initial component (a loop back to the
    start state in one operand only); the historical product made such pairs initial (D7)"""
    n = rng.randint(1, 3); m = rng.randint(2, 3)
    a = gen.rand_nfa(rng, n, rng.randint(1, 5), nsyms, pstart=0.0, pfinal=0.5)
    a.starts = [0]
    a.edges.append((rng.randrange(n), rng.randrange(nsyms), 0))          # back to the start state
    a.edges.append((0, rng.randrange(nsyms), rng.randrange(n)))
    b = gen.rand_nfa(rng, m, rng.randint(1, 5), nsyms, pstart=0.0, pfinal=0.5)
    b.starts = [0]
    b.edges = [(p, s, (q if q != 0 else rng.randrange(1, m))) for (p, s, q) in b.edges]   # never back to its start
    b.edges.append((0, rng.randrange(nsyms), rng.randrange(1, m)))
    if rng.random() < 0.5: a.finals.append(0)
    if rng.random() < 0.3: b.finals.append(0)
    return (a, b) if rng.random() < 0.5 else (b, a)


def incomparable_macro(rng, nsyms=2):
    """smaller automaton with one or two densely looping states, bigger automaton branching
    nondeterministically: the same state of the smaller automaton meets several ⊆-incomparable
    macro-states, compared in both orders by the antichain (trigger shape of D5)"""
    n = rng.randint(1, 2)
    a = NFA([0], [], [])
    for p in range(n):
        for s in range(nsyms):
            for q in range(n):
                if rng.random() < 0.8: a.edges.append((p, s, q))
    a.finals = [q for q in range(n) if rng.random() < 0.5]
    m = rng.randint(3, 5)
    b = gen.rand_nfa(rng, m, rng.randint(m + 2, 3 * m), nsyms, pstart=0.3, pfinal=0.6)
    if not b.starts: b.starts = [0]
    return a, b


def one_sided_symbols(rng):
    """symbols present in only one operand"""
    a = gen.rand_nfa_sized(rng, 3, 6, 3)
    b = gen.rand_nfa_sized(rng, 3, 6, 3)
    k = rng.randrange(3)
    if rng.random() < 0.5:
        a.edges = [(p, (s if s != k else (k + 1) % 3), q) for (p, s, q) in a.edges]
    else:
        b.edges = [(p, (s if s != k else (k + 1) % 3), q) for (p, s, q) in b.edges]
    if rng.random() < 0.3:
        a.edges.append((rng.choice(sorted(a.states()) or [0]), 5, rng.choice(sorted(a.states()) or [0])))
    return a, b


def quotient_pair(rng, maxs=4, maxe=8, nsyms=2):
    """B random, A := image of B under a merging map: L(B) <= L(A)"""
    b = gen.rand_nfa_sized(rng, maxs, maxe, nsyms)
    st = sorted(b.states()) or [0]
    k = rng.randint(1, max(1, len(st) - 1))
    h = {q: rng.randrange(k) for q in st}
    a = b.rename(h)
    return (a, b) if rng.random() < 0.6 else (b, a)


def near_miss_pair(rng, maxs=4, maxe=8, nsyms=2):
    a = gen.rand_nfa_sized(rng, maxs, maxe, nsyms)
    if rng.random() < 0.5: a = with_eps(rng, maxs, maxe, nsyms)
    b = a.copy()
    r = rng.random()
    if b.edges and r < 0.5: b.edges.pop(rng.randrange(len(b.edges)))
    elif b.finals and r < 0.8: b.finals.pop(rng.randrange(len(b.finals)))
    elif b.starts: b.starts.pop(rng.randrange(len(b.starts)))
    if rng.random() < 0.5: b = permute(rng, b, sparse=rng.random() < 0.5)
    return (a, b) if rng.random() < 0.6 else (b, a)


def targeted_pairs(rng, n_each):
    """list of (family, A, B)"""
    out = []
    for _ in range(n_each):
        out.append(("eps", with_eps(rng), with_eps(rng) if rng.random() < 0.5 else gen.rand_nfa_sized(rng, 4, 7)))
        out.append(("eps_only", eps_only_witness(rng), eps_only_witness(rng)))
        out.append(("multistart", multistart(rng), multistart(rng)))
        a, b = one_initial_component(rng); out.append(("one_initial", a, b))
        a, b = incomparable_macro(rng); out.append(("incomparable", a, b))
        a, b = one_sided_symbols(rng); out.append(("one_sided_symbols", a, b))
        out.append(("dead", with_dead(rng), with_dead(rng)))
        a, b = quotient_pair(rng); out.append(("quotient", a, b))
        a, b = near_miss_pair(rng); out.append(("near_miss", a, b))
        a = gen.rand_nfa_sized(rng, 3, 6); b = shift(gen.rand_nfa_sized(rng, 3, 6), 10 + rng.randrange(5))
        out.append(("disjoint_numbers", a, b))
    return out
