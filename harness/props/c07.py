"""C07 — inclusion on the two BDD encodings exact; unimplemented selections throw."""
import gen
ID = "C07"; DRIVER = "c07"; MODEL = "c07"
COQ_PROPS = ["Properties_C07.v"]; COQ_EXTRACT = "Extract_C07.v"
LEVEL = "proof"
RULE = ("cases = pairs (A,B) of tree automata over a ranked alphabet {a/0,b/0,g/1,f/2}(+h/3) loaded into both BDD encodings through Timbuk text: corpus "
        "(incl. the D9 pair); complete slice (all A with <=2 states,<=2 rules x all B with 1 state,<=2 rules; sampled in the quick tier); targeted (languages differing only in a leaf two or more levels down (several refinement rounds), child "
        "state reached with two incomparable macro-states under a binary rule, quotient pairs, near-miss pairs, missing leaf symbols, useless states; coherent defective copies and coinductive traps = a positive answer obtained under a cyclic hypothesis that is refuted later and asked for again; operands that are two copies of one loaded automaton with their own final states); random "
        "pairs up to 4+4 states; every case runs 4 top-down + 3 bottom-up selections (the bottom-up upward selection with the simulation flag, which runs on the caller's own prepared objects, is asked three times on the same objects with copy assignments in between); a subset additionally runs all 128 flag words on both encodings; a selection exceeding the per-case time limit (2 s) is inconclusive. "
        "Non-trivial = both languages non-empty; distinct by the pair")
EXHAUSTIVE_SLICES = "thorough tier only: all A with <=2 states,<=2 rules x all B with 1 state,<=2 rules over {a/0,b/0,g/1,f/2}; flag sweep: all 128 words x 2 encodings on the sweep cases"
TRUSTED_BASE = [
    "Coq 8.16.1 kernel (coqc, full .vo build); vm_compute/reflexivity on the generated finite dispatch lists; no native_compute",
    "translator: harness/scrape_dispatch.py (regex scrape of InclParam flag constants and `case InclParam::X:` labels) regenerates coq/DispatchTable.v from /repo on every run",
    "extraction: Require Extraction + ExtrOcamlBasic only; N, positive, nat stay inductive; no Extract Constant of our own; OCaml 4.13.1",
    "hand-written glue: harness/ml/common.ml.in, ta_io.ml.in, c07_main.ml, harness/drv/c07.cc + bdd_common.hh + common.hh, harness/gen.py, harness/core.py",
    "modelled, not verified: CheckUpwardTreeInclusion / CheckDownwardTreeInclusion on MTBDD-encoded transition tables, the MTBDD symbol pairing, the bottom-up class's own downward simulation; tied by verdict equality with the verified decider on generated pairs",
]
ASSUMPTIONS = ["automata stay inside the encoding's guards (few symbols, arity <= 3)",
               "top-down selections with simulation receive the relation the bottom-up class computes for itself (sanitize, union, ComputeSimulation, GetTopDownAut)",
               "flag words with simulation + upward direction are skipped in the sweep (no valid upward preorder can be handed in through the BDD API)",
               "correspondence is sampling: an input shape no generator produces is not covered"]
FLAVOURS = {"quick": ["plain"], "thorough": ["plain", "asan"]}
SANITIZER_CAP = 3000
D9 = "incl T 1 1 3 0 0 0 1 0 0 3 1 2 0 0 T 1 3 4 0 1 0 1 2 0 3 3 2 1 1 3 3 2 2 2"
CORPUS = [
    D9, D9 + " SWEEP",
    "incl T 1 0 1 0 0 0 T 1 0 1 1 0 0 SWEEP",
    "incl T 1 0 2 0 0 0 2 0 1 0 T 2 0 1 3 0 0 0 2 1 1 0 2 0 1 1 SWEEP",
    "incl T 0 0 T 0 0 SWEEP", "incl T 1 0 1 0 0 0 T 0 0", "incl T 1 0 0 T 1 0 1 0 0 0",
]
def incomparable_family(rng):
    """A: several leaf rules into one state q, a binary rule over q; B separates the leaves into different states and accepts only some combinations"""
    nl = rng.choice([2, 2, 3])
    leaves = [0, 1, 4][:nl]                       # symbol codes 0,1 nullary; 4 would be rank 3 in SIGMA3 -> use only 0,1 and duplicate
    leaves = [0, 1] if nl == 2 else [0, 1, 0]
    a = gen.TA([1], [(s, 0, ()) for s in set(leaves)] + [(3, 1, (0, 0))])
    if rng.random() < 0.4: a.rules.append((2, 0, (0,)))
    brules = [(0, 0, ()), (1, 1, ())]
    combos = [(x, y) for x in (0, 1) for y in (0, 1)]
    keep = [c for c in combos if rng.random() < 0.6] or [combos[0]]
    for (x, y) in keep: brules.append((3, 2, (x, y)))
    if rng.random() < 0.4: brules += [(2, 0, (0,)), (2, 1, (1,))]
    b = gen.TA([2], brules)
    if rng.random() < 0.5:
        a, _ = gen.permute_states(rng, a); b, _ = gen.permute_states(rng, b)
    return a, b
def deep_leaf_miss(rng):
    """A has deep derivations (unary-rich alphabet); B := A (renamed) with one LEAF rule removed or given another leaf symbol: the languages
    differ only two or more levels below the final states, so non-similarity / non-inclusion has to be propagated through several rounds"""
    a = gen.rand_ta(rng, rng.randint(3, 5), rng.randint(4, 9), sigma=gen.SIGMA_U, pfinal=0.25, leafbias=0.25)
    if not any(len(r[2]) == 0 for r in a.rules): a.rules.append((0, sorted(a.states())[0], ()))
    if not a.finals: a.finals = [max(a.states())]
    b, _ = gen.permute_states(rng, a)
    leaves = [i for i, r in enumerate(b.rules) if len(r[2]) == 0]
    i = rng.choice(leaves)
    if rng.random() < 0.5: b.rules.pop(i)
    else: b.rules[i] = (1 - b.rules[i][0] if b.rules[i][0] in (0, 1) else 0, b.rules[i][1], ())
    return (a, b) if rng.random() < 0.8 else (b, a)
def targeted(rng, n):
    out = []
    for _ in range(3 * n): out.append(deep_leaf_miss(rng))
    for d in range(2, 5):      # plain chains: h(g(a)) vs h(g(b)) and deeper
        for _ in range(max(1, n // 30)):
            syms = [rng.choice([2, 5, 6]) for _ in range(d)]
            a = gen.TA([d], [(0, 0, ())] + [(syms[i], i + 1, (i,)) for i in range(d)])
            b = gen.TA([d], [(1, 0, ())] + [(syms[i], i + 1, (i,)) for i in range(d)])
            if rng.random() < 0.5: b.rules.append((0, 0, ()))
            out.append((a, b))
    for _ in range(n): out.append(incomparable_family(rng))
    for _ in range(n): out.append(gen.quotient_pair(rng, 4, 8))
    for _ in range(n): out.append(gen.near_miss_pair(rng, 4, 8))
    for _ in range(n // 2):
        a = gen.rand_ta_sized(rng, 3, 6); b = gen.rand_ta_sized(rng, 3, 6)
        b.rules = [r for r in b.rules if not (r[0] == 0 and len(r[2]) == 0)]
        out.append((a, b))
    return out
def cases(rng, tier):
    cs = [(l, "corpus") for l in CORPUS]
    bs = list(gen.enum_ta(1, 2))
    ex = ["incl %s %s" % (a.fmt(), b.fmt()) for a in gen.enum_ta(2, 2) for b in bs]
    if tier == "quick": ex = rng.sample(ex, 1500)
    cs += [(l, "exhaustive" if tier != "quick" else "exhaustive-sample") for l in ex]
    k = 0
    for (a, b) in targeted(rng, 150 if tier == "quick" else 1500):
        k += 1
        cs.append(("incl %s %s%s" % (a.fmt(), b.fmt(), " SWEEP" if k % 25 == 0 else ""), "targeted"))
    for _ in range(150 if tier == "quick" else 2000):   # coherent defective copies: hypotheses refuted late, alternatives, repeated sub-goals
        a, b = gen.defective_copies_pair(rng)
        cs.append(("incl %s %s" % (a.fmt(), b.fmt()), "defective_copies"))
    for _ in range(500 if tier == "quick" else 5000):   # a positive answer obtained under a cyclic hypothesis that is refuted later, asked for again
        a, b = gen.coinductive_trap_pair(rng)
        cs.append(("incl %s %s" % (a.fmt(), b.fmt()), "coinductive_trap"))
    for _ in range(200 if tier == "quick" else 4000):   # operands = two copies of one loaded automaton (shared transition table), own final states
        base = gen.rand_ta_sized(rng, 4, 8, leafbias=0.3)
        st = sorted(base.states()) or [0]
        fa = [q for q in st if rng.random() < 0.4] or [rng.choice(st)]
        fb = [q for q in st if rng.random() < 0.4] if rng.random() < 0.5 else [q for q in fa if rng.random() < 0.7] + [rng.choice(st)]
        cs.append(("incl %s %s" % (gen.TA(fa, base.rules).fmt(), gen.TA(fb, base.rules).fmt()), "shared_table"))
    n = 800 if tier == "quick" else 8000
    for i in range(n):
        sg = rng.choice([gen.SIGMA, gen.SIGMA, gen.SIGMA3])
        a = gen.rand_ta_sized(rng, 4, 8, sigma=sg); b = gen.rand_ta_sized(rng, 4, 9, sigma=sg)
        cs.append(("incl %s %s%s" % (a.fmt(), b.fmt(), " SWEEP" if i % 40 == 0 else ""), "random"))
    return cs
def nontrivial(c, impl, verd): t = verd.split(); return "Anonempty" in t and "Bnonempty" in t
_cases0 = cases
def cases(rng, tier):
    """every non-corpus case gets a symbol-name salt (0..39): the symbolic alphabet is process-wide, so over a run up to ~200 symbol codes, i.e. many MTBDD bit patterns, are used"""
    out = []
    for (c, fam) in _cases0(rng, tier):
        out.append((c if fam == "corpus" else c + " SALT %d" % rng.randrange(40), fam))
    return out
def observe(dist, c, impl, verd):
    for k in verd.split():
        if k in ("included", "notincluded", "Aempty", "Bempty", "timeout", "shared_table"): dist[k] = dist.get(k, 0) + 1
    if " SWEEP" in c: dist["flag_sweeps"] = dist.get("flag_sweeps", 0) + 1
def shrink_candidates(c):
    tail = ""
    base = c
    if " SALT " in base: base, salt = base.rsplit(" SALT ", 1); tail = " SALT " + salt
    if base.endswith(" SWEEP"): base = base[:-6]; tail = " SWEEP" + tail
    for cand in gen.shrink_automata(base): yield cand + tail
def explain(c, impl, verd):
    return ("case = incl <A> <B> [SWEEP]; impl = V <td_rec_nosim td_rec_opt_nosim td_rec_sim td_rec_opt_sim bu_up_nosim bu_down_rec_sim bu_up_sim(3 characters: A<=B, A<=A after b = a, B<=A after a = B on the same objects)> F <for SWEEP cases: outcome of "
            "each of the 128 flag words on the top-down then the bottom-up encoding: 0/1 verdict, N = NotImplementedException, skip> I <operands dumped back>; a gate named "
            "after a selection fails when its verdict differs from the verified decider (C07_gate_verdict); sweep_<enc>_<word> fails when an implemented word gives a wrong "
            "verdict or an unimplemented word does not throw NotImplementedException")
def kf_bu_up_union(c, impl, verd, k):
    """D9: BDD bottom-up upward checker answers 'included' for a non-included pair (union of macro-states per child position)"""
    if not verd.startswith("FAIL ") or " notincluded" not in verd: return False
    gates = set(verd.split()[1].split(","))
    if not gates <= {"bu_up_nosim", "sweep_bu_0", "sweep_bu_32", "sweep_bu_64", "sweep_bu_96", "sweep_bu_4", "sweep_bu_8", "sweep_bu_12"}: return False
    if "bu_up_nosim" not in gates and " SWEEP" not in c: return False
    v = impl.split()
    return len(v) > 5 and v[5] == "1"
LEVEL_TEXT = ("Coq theorems: the verdict function every implemented selection must compute is true exactly when L(A) is included in L(B) (all automata, no bounds) — the same "
              "function as for the explicit encoding — and the gate on each reported verdict decides the property; the dispatch tables are regenerated from the sources on every "
              "run (DispatchTable.v) and proved to be exactly the property's list, all below 128. Tie to the C++: both BDD encodings of libvata rebuilt from /repo run all six "
              "selections on generated pairs (plus all 128 flag words on a subset: implemented words must give the right verdict, the others NotImplementedException) and every "
              "verdict is compared with the extracted verified decider.")
LEVEL_NOTE = ("The generic upward/downward checkers on MTBDD transition tables and the symbol pairing are modelled at function level only. One genuine defect of the unchanged tree "
              "is listed in known_findings/C07.json (D9). Trusted: Coq kernel, the dispatch scraper, ExtrOcamlBasic extraction, OCaml/C++ glue, generators. No axioms.")
TECHNIQUE = "Coq proof (verified inclusion decider, verdict gate, generated dispatch table); extracted-model correspondence on both BDD encodings incl. 128-word flag sweep"
DESIGN_REF = "DESIGN.md 5/C07"
READY = True
