"""C13 — Timbuk text round-trips; malformed text is rejected by a standard exception."""
import itertools

ID = "C13"
DRIVER = "c13"
MODEL = "c13"
COQ_PROPS = ["Properties_C13.v"]
COQ_EXTRACT = "Extract_C13.v"
LEVEL = "proof"
RULE = ("cases = (1) well-formed stream: descriptions with 0-6 states, 0-5 symbols of arity 0-8 (names from all printable bytes except the "
        "reserved ones, from bytes >= 0x80, and per-role exotic names such as ',' ':' inside a transition symbol), nullary rules, empty "
        "sections, one symbol name with several arities, word-automaton shaped descriptions; as objects (W: Serialize, parse, four "
        "encodings), as the model's canonical text (C) and as variants (V: extra blanks and tabs, parenthesised nullary rules, blank "
        "lines, ranks on states; X: section order, CR LF, missing sections, odd ranks); (2) malformed stream (M): a complete slice of all "
        "transition lines of length <= 4 over {a ( ) , blank - >} and of all Ops tokens of length <= 4 over {a : 0 9 - +}, single-byte mutations, truncations, duplicated sections, unbalanced "
        "parentheses, stray colons, overflowing ranks, bytes >= 0x80, NULs, very long lines and tuples, raw bytes, keyword soup. "
        "A case is non-trivial when it is a well-formed description with >= 2 rules and a rule of arity >= 1, or a malformed-stream text of "
        ">= 3 lines that contains the Transitions keyword or is rejected; distinct by case line")
TRUSTED_BASE = [
    "Coq 8.16.1 kernel (coqc, full .vo build); vm_compute only in Examples (C13_example_wf, C13_reserved_needed); no native_compute",
    "extraction: Require Extraction + ExtrOcamlBasic only; N, positive, Z, nat stay inductive; bytes are list N; OCaml 4.13.1",
    "hand-written glue: harness/ml/common.ml.in, c13_main.ml (hex decoding, calls of the extracted gates, printing), harness/drv/c13.cc "
    "(calls TimbukSerializer::Serialize, TimbukParser::ParseString, LoadFromString/DumpToString of the four facade classes, classifies exceptions), "
    "harness/props/c13.py (generators; its own text writer is only a proposal that the judge checks against the extracted serializer), harness/core.py",
    "modelled, not verified: src/timbuk_parser-nobison.cc, src/timbuk_serializer.cc (byte-level model, tied by exact comparison on generated texts); "
    "the loaders/dumpers of the four encodings are tied by the verified comparison of their dumps with the description",
    "std::isspace is modelled for the C locale (the parser calls it on plain char; bytes >= 0x80 are not white space)",
]
ASSUMPTIONS = ["the process runs in the C locale (std::isspace, operator>> for int)",
               "'never crashes, hangs or corrupts memory' is observed on the generated malformed stream (under ASan/UBSan in the thorough tier), not proved",
               "each load uses a fresh state dictionary (or the one of the first load); pre-filled dictionaries with colliding numbers are outside the property",
               "correspondence is sampling: an input shape no generator produces is not covered"]
FLAVOURS = {"quick": ["plain"], "thorough": ["plain", "asan"]}
EXHAUSTIVE_SLICES = ("all transition lines of length <= 4 over the 7 bytes a ( ) , blank - > after a fixed header (2800 texts); "
                     "all Ops tokens of length <= 4 (thorough: 5) over the 6 bytes a : 0 9 - + (1554 / 9330 texts); "
                     "all descriptions with one rule over symbol/state names from {a, q} and arity <= 2 with every final set (the run as a whole is not exhaustive)")

RESERVED = set(b"(),:")
SPACE = [9, 10, 11, 12, 13, 32]
PRINT_OK = [c for c in range(0x21, 0x7f) if c not in RESERVED]
SIMPLE = list(b"abcdefghijklmnopqrstuvwxyz0123456789_")

def hx(b): return b.hex() if b else "-"
def nm(b): return "x" + b.hex()

# ------------------------------------------------------------------------------------------------
# descriptions
# ------------------------------------------------------------------------------------------------
class Desc:
    def __init__(self, name=b"", syms=(), states=(), finals=(), trans=()):
        self.name = name
        self.syms = sorted(set(syms))                      # (name, rank)        std::set<pair<string,int>>
        self.states = sorted(set(states))                  #                     std::set<string>
        self.finals = sorted(set(finals))
        self.trans = sorted(set(trans))                    # (children tuple, symbol, parent)   Triple order
    def fmt(self):
        w = [nm(self.name), str(len(self.syms))]
        for s, r in self.syms: w += [nm(s), str(r)]
        w.append(str(len(self.states))); w += [nm(s) for s in self.states]
        w.append(str(len(self.finals))); w += [nm(s) for s in self.finals]
        w.append(str(len(self.trans)))
        for ch, sy, pa in self.trans:
            w += [nm(sy), nm(pa), str(len(ch))] + [nm(c) for c in ch]
        return " ".join(w)

def ser_trans(t, paren_nullary=False):
    ch, sy, pa = t
    s = sy
    if ch: s += b"(" + b", ".join(ch) + b")"
    elif paren_nullary: s += b"()"
    return s + b" -> " + pa

def serialize(d):
    """proposal for the canonical text; the judge compares it with the extracted serializer"""
    out = b"Ops " + b"".join(s + b":" + str(r).encode() + b" " for s, r in d.syms) + b"\n"
    out += b"Automaton " + (d.name or b"anonymous") + b"\n"
    out += b"States " + b"".join(s + b" " for s in d.states) + b"\n"
    out += b"Final States " + b"".join(s + b" " for s in d.finals) + b"\n"
    out += b"Transitions\n"
    out += b"".join(ser_trans(t) + b"\n" for t in d.trans)
    return out

def rand_name(rng, pool, maxlen=4, minlen=1):
    while True:
        n = bytes(rng.choice(pool) for _ in range(rng.randint(minlen, maxlen)))
        if b"->" not in n: return n

def name_pool(rng):
    r = rng.random()
    if r < 0.35: return SIMPLE
    if r < 0.80: return PRINT_OK
    if r < 0.90: return PRINT_OK + list(range(0x80, 0x100))
    return list(b"-><=!#'\"*+./;?@[]\\^`{|}~") + list(b"ab")

def rand_desc(rng, fa=False, maxar=3, big=False):
    pool = name_pool(rng)
    nst = rng.randint(1, 6 if big else 4)
    states = list({rand_name(rng, pool) for _ in range(nst)})
    nsy = rng.randint(1, 5 if big else 3)
    syms = []
    for _ in range(nsy):
        ar = rng.choice([0, 1]) if fa else rng.choice([0, 0, 1, 2, 2, rng.randint(0, maxar)])
        syms.append((rand_name(rng, pool), ar))
    if rng.random() < 0.15 and syms:                       # one name, several arities
        syms.append((syms[0][0], rng.choice([0, 1]) if fa else rng.randint(0, maxar)))
    trans = []
    for _ in range(rng.randint(0, 10 if big else 6)):
        s, ar = rng.choice(syms)
        trans.append((tuple(rng.choice(states) for _ in range(ar)), s, rng.choice(states)))
    finals = [q for q in states if rng.random() < 0.4]
    r = rng.random()
    dstates = states if r < 0.6 else [] if r < 0.8 else [q for q in states if rng.random() < 0.5] + [rand_name(rng, pool)]
    r = rng.random()
    dsyms = list(set(syms)) if r < 0.6 else [] if r < 0.8 else [(s, rng.choice([a, -1, 0, 7, 2147483647, -2147483648])) for s, a in syms]
    name = b"" if rng.random() < 0.3 else rand_name(rng, pool, 6)
    return Desc(name, dsyms, dstates, finals, trans)

def role_exotic_desc(rng):
    """names that are legal only in their role: ',' ':' in a transition symbol, '(' ':' in a child, any punctuation in a parent,
    empty children in tuples of length >= 2"""
    anyp = [c for c in range(0x21, 0x7f)]
    def nm_(pool, bad, minlen=1):
        while True:
            n = bytes(rng.choice(pool) for _ in range(rng.randint(minlen, 4)))
            if b"->" not in n and not any(c in bad for c in n): return n
    trans = []
    for _ in range(rng.randint(1, 5)):
        k = rng.choice([0, 1, 2, 3])
        sym = nm_(anyp, b"()")
        ch = tuple(nm_(anyp, b",)", 0 if k >= 2 else 1) for _ in range(k))
        trans.append((ch, sym, nm_(anyp, b"")))
    finals = [nm_(anyp, b":") for _ in range(rng.randint(0, 3))]
    return Desc(nm_(anyp, b""), [(nm_(anyp, b":"), rng.randint(-3, 9))], [nm_(anyp, b":") for _ in range(rng.randint(0, 3))], finals, trans)

def nonwf_desc(rng):
    """descriptions outside the side condition (only robustness and drift apply)"""
    d = rand_desc(rng)
    bad = [b"q r", b"q:1", b"", b"a,b", b"f(x)", b"a->b", b"q\tr", b"q\nr", b")", b"(", b"Transitions", b"\x00", b" "]
    tr = list(d.trans); fin = list(d.finals)
    r = rng.random()
    if r < 0.3 or not tr: fin.append(rng.choice(bad))
    else:
        i = rng.randrange(len(tr)); ch, sy, pa = tr[i]
        w = rng.randrange(3)
        if w == 0: sy = rng.choice(bad)
        elif w == 1: pa = rng.choice(bad)
        else: ch = tuple(list(ch) + [rng.choice(bad)])
        tr[i] = (ch, sy, pa)
    return Desc(rng.choice([d.name, b"two words"]), d.syms, d.states, fin, tr)

# ------------------------------------------------------------------------------------------------
# well-formed variants of a text
# ------------------------------------------------------------------------------------------------
def blanks(rng, atleast=0):
    return bytes(rng.choice(b" \t") for _ in range(rng.randint(atleast, 3)))

def variant_text(rng, d, exotic=False):
    """V: extra blanks/tabs, parenthesised nullary rules, blank lines, ranks on states.
       X additionally: section order, CR LF / \\v \\f, missing sections, odd but accepted ranks, words after 'Transitions'."""
    b = lambda n=0: blanks(rng, n)
    ws1 = lambda: b(1)
    def rank(r):
        if exotic and rng.random() < 0.4:
            return rng.choice([b"+", b"0", b"00", b""]) + str(abs(r)).encode() + rng.choice([b"", b"x", b":7", b"-"]) if r >= 0 else str(r).encode() + b"abc"
        return str(r).encode()
    def st(s):
        if rng.random() < 0.3: return s + b":" + rank(rng.randint(0, 3))
        return s
    hdr = []
    hdr.append(b() + b"Ops" + b"".join(ws1() + s + b":" + rank(r) for s, r in d.syms) + b())
    if not (exotic and rng.random() < 0.2):
        hdr.append(b() + b"Automaton" + ws1() + (d.name or b"anonymous") + b())
    hdr.append(b() + b"States" + b"".join(ws1() + st(s) for s in d.states) + b())
    hdr.append(b() + b"Final" + ws1() + b"States" + b"".join(ws1() + st(s) for s in d.finals) + b())
    if exotic:
        rng.shuffle(hdr)
        if rng.random() < 0.3: hdr = [h for h in hdr if not h.strip().startswith(b"Ops")]
        if rng.random() < 0.3: hdr = [h for h in hdr if not h.strip().startswith(b"States")]
    lines = hdr + [b() + b"Transitions" + (ws1() + b"junk (" if exotic and rng.random() < 0.3 else b"") + b()]
    trans = list(d.trans)
    rng.shuffle(trans)
    for ch, sy, pa in trans + ([rng.choice(trans)] if trans and rng.random() < 0.2 else []):
        l = b() + sy
        if ch: l += b() + b"(" + b",".join(b() + c + b() for c in ch) + b")"
        elif rng.random() < 0.5: l += b() + b"(" + b() + b")"
        l += b() + b"->" + b() + pa + b()
        lines.append(l)
    out = []
    for l in lines:
        while rng.random() < 0.2: out.append(b())
        out.append(l)
    nl = b"\n"
    txt = nl.join(out)
    if rng.random() < 0.7: txt += nl
    if exotic:
        r = rng.random()
        if r < 0.3: txt = txt.replace(b"\n", b"\r\n")
        elif r < 0.5: txt = txt.replace(b"\t", rng.choice([b"\v", b"\f", b"\r"]))
    return txt

# ------------------------------------------------------------------------------------------------
# malformed texts
# ------------------------------------------------------------------------------------------------
HEADER = b"Ops a:0 f:2\nAutomaton A\nStates q\nFinal States q\nTransitions\n"
KEYWORDS = [b"Ops", b"Automaton", b"States", b"Final", b"Final States", b"Transitions", b"->", b"(", b")", b",", b":", b" ", b"\n", b"\t",
            b"a", b"q", b"f", b"0", b"-1", b"\x00", b"\xff", b"\r", b"anonymous", b"()", b"a:1", b"q:x", b"-", b">", b"->->"]
BIGNUMS = [b"2147483647", b"2147483648", b"-2147483648", b"-2147483649", b"4294967295", b"4294967296", b"4294967297", b"99999999999999999999",
           b"-99999999999999999999", b"18446744073709551616", b"+5", b"+", b"-", b"", b"0x10", b"1e5", b"007", b"-0", b"+-1", b"1:2", b" 1", b"\x001",
           b"9" * 40, b"0" * 300 + b"1", b"1" + b"0" * 9, b"1" + b"0" * 10]

def mut_byte(rng):
    r = rng.random()
    if r < 0.30: return rng.choice(b"(),:->")
    if r < 0.45: return rng.choice(SPACE)
    if r < 0.55: return 0
    if r < 0.70: return rng.randint(0x80, 0xff)
    if r < 0.80: return rng.choice(b"0123456789")
    return rng.randrange(256)

def mutate(rng, t):
    t = bytearray(t)
    for _ in range(rng.choice([1, 1, 1, 2, 3])):
        k = rng.randrange(3)
        if k == 0 and t: t[rng.randrange(len(t))] = mut_byte(rng)
        elif k == 1: t.insert(rng.randint(0, len(t)), mut_byte(rng))
        elif t: del t[rng.randrange(len(t))]
    return bytes(t)

def malformed(rng, base_desc):
    base = serialize(base_desc) if rng.random() < 0.6 else variant_text(rng, base_desc, exotic=rng.random() < 0.3)
    lines = base.split(b"\n")
    k = rng.randrange(12)
    if k <= 2: return mutate(rng, base), "byte-mutation"
    if k == 3: return base[:rng.randint(0, len(base))], "truncated"
    if k == 4:
        i = rng.randrange(len(lines)); lines.insert(rng.randint(0, len(lines)), lines[i])
        return b"\n".join(lines), "duplicated-line"
    if k == 5:
        t = bytearray(base)
        for _ in range(rng.randint(1, 3)):
            if rng.random() < 0.5 and (b"(" in t or b")" in t):
                idx = [i for i, c in enumerate(t) if c in b"()"]; del t[rng.choice(idx)]
            else: t.insert(rng.randint(0, len(t)), rng.choice(b"()"))
        return bytes(t), "parentheses"
    if k == 6:
        t = bytearray(base)
        for _ in range(rng.randint(1, 3)): t.insert(rng.randint(0, len(t)), ord(":"))
        return bytes(t), "colons"
    if k == 7:
        n = rng.choice(BIGNUMS)
        if base_desc.syms and rng.random() < 0.7:
            s, r = rng.choice(base_desc.syms)
            return base.replace(s + b":" + str(r).encode(), s + b":" + n, 1), "ranks"
        return base.replace(b"States ", b"States zz:" + n + b" ", 1), "ranks"
    if k == 8:
        t = bytearray(base)
        for _ in range(rng.randint(1, 6)): t.insert(rng.randint(0, len(t)), rng.choice([0, rng.randint(0x80, 0xff)]))
        return bytes(t), "nul-and-high-bytes"
    if k == 9:
        return b"".join(rng.choice(KEYWORDS) + rng.choice([b"", b" ", b"\n"]) for _ in range(rng.randint(1, 30))), "keyword-soup"
    if k == 10:
        return bytes(rng.randrange(256) for _ in range(rng.randint(0, 60))), "raw-bytes"
    i = rng.randrange(len(lines)); j = rng.randrange(len(lines)); lines[i], lines[j] = lines[j], lines[i]
    return b"\n".join(lines), "swapped-lines"

def long_texts(rng, tier):
    big = 40000 if tier == "quick" else 100000
    out = []
    q = b"q"
    out.append(HEADER + b"a -> " + b"q" * big + b"\n")                                   # long parent
    out.append(HEADER + b"a" * big + b" -> q\n")                                         # long symbol
    out.append(HEADER + b"f(" + b", ".join([q] * 64) + b") -> q\n")                      # arity 64: beyond the top-down arity field
    out.append(HEADER + b"f(" + b", ".join([q] * 63) + b") -> q\n")
    out.append(HEADER + b"f(" + b",".join([q] * 2000) + b") -> q\n")                     # very long tuple
    out.append(b"Ops " + b" ".join(b"s%d:%d" % (i, i % 5) for i in range(3000)) + b"\nAutomaton A\nStates q\nFinal States q\nTransitions\n")
    out.append(b"Ops\nAutomaton A\nStates " + b" ".join(b"q%d" % i for i in range(4000)) + b"\nFinal States q1\nTransitions\na -> q1\n")
    out.append(HEADER + b" " * big + b"a -> q" + b"\t" * 1000 + b"\n")
    out.append(HEADER + b"a -> q\n" * 2000)
    out.append(b"\n" * big + HEADER)
    out.append(HEADER + b"(" * 5000 + b" -> q\n")
    out.append(HEADER + b"a(" + b"," * 5000 + b") -> q\n")
    out.append(HEADER + b"->" * 5000 + b"\n")
    out.append(b"Ops a:" + b"9" * big + b"\nTransitions\n")
    out.append(b"Ops a:" + b"0" * big + b"7\nTransitions\n")
    out.append(HEADER + bytes(rng.choice(b"aq(), ->") for _ in range(big)) + b"\n")
    out.append(HEADER + b"\x00" * 1000 + b" -> q\n")
    out.append(HEADER + b"a -> q" + b"\xff" * 1000 + b"\n")
    return out

# ------------------------------------------------------------------------------------------------
# the case stream
# ------------------------------------------------------------------------------------------------
def flags(rng):
    f = 0
    if rng.random() < 0.3: f |= 1
    if rng.random() < 0.25: f |= 4
    if rng.random() < 0.2: f |= 8
    return f

def W(d, f=0): return "W %d D %s" % (f, d.fmt())
def T(kind, txt, d=None, f=0): return "%s %d %s" % (kind, f, hx(txt)) + (" D " + d.fmt() if d is not None else "")

def exhaustive_descs():
    out = []
    names = [b"a", b"q"]
    for sy in names:
        for pa in names:
            for k in range(3):
                for ch in itertools.product(names, repeat=k):
                    for fin in ([], [b"a"], [b"q"], [b"a", b"q"]):
                        out.append(Desc(b"", [], [], fin, [(tuple(ch), sy, pa)]))
    return out

def exhaustive_lines():
    out = []
    for n in range(1, 5):
        for w in itertools.product(b"a(), ->", repeat=n):
            out.append(HEADER + bytes(w) + b"\n")
    return out

def exhaustive_rank_tokens(maxlen):
    """every token over a : 0 9 - + of length <= maxlen as the only token of the Ops line (name:rank parsing)"""
    out = []
    for n in range(1, maxlen + 1):
        for w in itertools.product(b"a:09-+", repeat=n):
            out.append(b"Ops " + bytes(w) + b"\nTransitions\n")
    return out

CORPUS_DESCS = [
    Desc(),                                                                               # everything empty
    Desc(b"A", [(b"a", 0)], [b"q"], [b"q"], [((), b"a", b"q")]),
    Desc(b"", [], [], [b"q"], [((b"q", b"q"), b"f", b"q"), ((), b"f", b"q"), ((b"q",), b"f", b"q")]),   # one name, three arities
    Desc(b"", [], [], [b"p"], [((), b"a", b"p"), ((), b"b", b"p"), ((b"p",), b"a", b"p")]),            # word automaton, two start symbols
    Desc(b"x", [(b"-", -2147483648), (b">", 2147483647)], [b"-", b">"], [b">-"], [((b"-", b">"), b">-", b"-")]),
    Desc(b"", [], [], [], [((b"", b""), b"f,:", b"(),:->")]),                              # role-exotic: empty children in a pair
    Desc(b"", [], [], [b"\x80\xff"], [((b"\xfe",), b"\x80", b"\x80\xff")]),
    Desc(b"Transitions", [(b"Ops", 1)], [b"States", b"Final"], [b"Final"], [((b"States",), b"Ops", b"Final"), ((), b"Automaton", b"States")]),
]
CORPUS_TEXTS = [
    b"", b"\n", b"Transitions", b"Transitions\n", b"Transitions\n->", b"Transitions\na ->", b"Transitions\n-> q", b"Transitions\na -> q",
    b"Transitions\na() -> q\nb( ) -> q\nc(,) -> q\nd(q,) -> q\n", b"Transitions\na(q -> r\n", b"Transitions\na)q( -> r\n", b"Transitions\na(q)x -> r\n",
    b"Transitions\n(q) -> r\n", b"Transitions\n a b (q) -> r\n", b"Transitions\na -> q r\n", b"Transitions\na->b->c\n", b"Transitions\na -> b -> c\n",
    b"Ops a:\nTransitions\n", b"Ops a:x\nTransitions\n", b"Ops a:2147483648\nTransitions\n", b"Ops a:-2147483649\nTransitions\n", b"Ops :3 :\nTransitions\n",
    b"Ops\nOps\nTransitions\n", b"Automaton\nTransitions\n", b"Automaton a b\nTransitions\n", b"Automaton a\nAutomaton b\nTransitions\n",
    b"Final\nTransitions\n", b"Final states\nTransitions\n", b"Final States\nFinal States\nTransitions\n", b"States q:1:2 r:0x\nTransitions\n",
    b"States q:\nTransitions\n", b"Foo\nTransitions\n", b"Ops a:0\n", b"Transitions junk\na -> q\nTransitions\n", b"Ops\x00 a\nTransitions\n",
    b"Transitions\x00\n", b"Transitions\n\x00 -> \x00\n", b"Transitions\r\na -> q\r\n", b"Transitions\n\xa0a -> q\n", b"Transitions\nf(q" + b", q" * 70 + b") -> q\n",
]

def cases(rng, tier):
    out = []
    thorough = tier == "thorough"
    # corpus
    for d in CORPUS_DESCS:
        out.append((W(d), "corpus"))
        out.append((T("C", serialize(d), d), "corpus"))
    for t in CORPUS_TEXTS: out.append((T("M", t), "corpus"))
    # exhaustive slices
    for d in exhaustive_descs(): out.append((W(d), "exhaustive-desc"))
    for t in exhaustive_lines(): out.append((T("M", t), "exhaustive-lines"))
    for t in exhaustive_rank_tokens(4 if not thorough else 5): out.append((T("M", t), "exhaustive-rank-tokens"))
    # well-formed stream
    n = 5000 if not thorough else 50000
    bases = []
    for i in range(n):
        r = rng.random()
        if r < 0.25: d = rand_desc(rng, fa=True)
        elif r < 0.80: d = rand_desc(rng, maxar=rng.choice([3, 3, 8]))
        elif r < 0.90: d = rand_desc(rng, big=True, maxar=rng.choice([3, 20]))
        else: d = role_exotic_desc(rng)
        bases.append(d)
        out.append((W(d, flags(rng)), "wf-desc"))
        k = i % 4
        if k == 0: out.append((T("C", serialize(d), d, flags(rng)), "wf-canonical-text"))
        elif k in (1, 2): out.append((T("V", variant_text(rng, d), d, flags(rng)), "wf-variant"))
        else: out.append((T("X", variant_text(rng, d, exotic=True), d, flags(rng)), "wf-exotic-variant"))
    for _ in range(400 if not thorough else 5000):
        out.append((W(nonwf_desc(rng), flags(rng)), "nonwf-desc"))
    # BDD automata on the process-wide default alphabet: a small fixed pool of symbol names
    for _ in range(60 if not thorough else 600):
        sy = [(rng.choice([b"a", b"b", b"c", b"f", b"g", b"h"]), rng.randint(0, 3)) for _ in range(3)]
        st = [b"p", b"q", b"r"]
        tr = [(tuple(rng.choice(st) for _ in range(a)), s, rng.choice(st)) for s, a in (rng.choice(sy) for _ in range(rng.randint(1, 6)))]
        out.append((W(Desc(b"g", [], [], [q for q in st if rng.random() < 0.5], tr), 2 | (flags(rng) & 1)), "wf-global-alphabet"))
    # O1: explicit tree automaton with its own alphabet, with something to trim and something that must stay
    out.append((O1_TRIGGER, "o1-result-alphabet"))
    for _ in range(20):
        out.append((o1_case(rand_desc(rng, maxar=2)), "o1-result-alphabet"))
    # malformed stream
    for t in long_texts(rng, tier): out.append((T("M", t), "long"))
    n = 14000 if not thorough else 150000
    for i in range(n):
        d = bases[rng.randrange(len(bases))]
        t, fam = malformed(rng, d)
        out.append((T("M", t, None, flags(rng) if rng.random() < 0.2 else 0), "mal-" + fam))
    # more symbol names than one byte can count (257-320), in one description: every name must keep its own rules through load and dump.
    # These cases come LAST: the alphabets of the driver process grow with them.
    for k in range(6 if not thorough else 40):
        nsy = rng.choice([257, 258, 300, 320]) if k else 257
        fa = (k % 3 == 2)
        st = [b"p", b"q", b"r"]
        syms = [(b"s%d" % i, (rng.choice([0, 1]) if fa else rng.choice([0, 0, 0, 1, 2]))) for i in range(nsy)]
        tr = [(tuple(rng.choice(st) for _ in range(a)), s, rng.choice(st)) for s, a in syms]
        out.append((W(Desc(b"big", syms, st, [rng.choice(st)], tr), 0), "wf-large-alphabet"))
    return out

def o1_case(d):
    keep = b"keep"
    tr = list(d.trans) + [((), b"zz", b"unreach"), ((), b"aa", keep)]
    d2 = Desc(d.name, d.syms, d.states, list(d.finals) + [keep], tr)
    return T("O", serialize(d2), d2, 0)
O1_TRIGGER = o1_case(Desc())

CORPUS = [W(d) for d in CORPUS_DESCS] + [T("M", t) for t in CORPUS_TEXTS] + [O1_TRIGGER]

# ------------------------------------------------------------------------------------------------
def nontrivial(c, impl, verd):
    k = c[0]
    if k in "WCV": return " nt" in verd
    if k in "MX":
        w = c.split(" ")
        if len(w) < 3 or w[2] == "-": return False
        try: t = bytes.fromhex(w[2][:4000])
        except ValueError: return False
        return t.count(b"\n") >= 2 and (b"Transitions" in t or " cls=rej" in verd)
    return False

def observe(dist, c, impl, verd):
    def inc(k): dist[k] = dist.get(k, 0) + 1
    inc("kind_" + c[0])
    for w in verd.split():
        if w in ("cls=ok", "cls=rej", "nonwf", "fa_start_symbols_dropped", "fa_rejects_tree", "o1=dumped-right-names", "o1=dumped-wrong-names", "o1=dumped-unreadable", "o1=dump-throws", "role_exotic", "bdd_arity_guard"): inc(w)
        if w.startswith("maxar="):
            a = int(w[6:]); inc("maxar_" + ("0" if a == 0 else "1" if a == 1 else "2-3" if a <= 3 else "4-8" if a <= 8 else ">8"))
    n = len(c)
    inc("case_len<=200" if n <= 200 else "case_len<=1000" if n <= 1000 else "case_len>1000")

def shrink_candidates(c):
    """text cases: drop a line, drop a byte range; description cases: drop a rule / final / symbol / state"""
    w = c.split(" ")
    out = []
    if w[0] == "W":
        # re-read the description
        i = 3
        def name(): nonlocal i; s = bytes.fromhex(w[i][1:]); i += 1; return s
        def num(): nonlocal i; v = int(w[i]); i += 1; return v
        nme = name(); syms = [(name(), num()) for _ in range(num())]
        sts = [name() for _ in range(num())]; fins = [name() for _ in range(num())]
        trs = []
        for _ in range(num()):
            sy = name(); pa = name(); k = num(); trs.append((tuple(name() for _ in range(k)), sy, pa))
        for j in range(len(trs)): out.append("W %s D %s" % (w[1], Desc(nme, syms, sts, fins, trs[:j] + trs[j + 1:]).fmt()))
        for j in range(len(fins)): out.append("W %s D %s" % (w[1], Desc(nme, syms, sts, fins[:j] + fins[j + 1:], trs).fmt()))
        if syms: out.append("W %s D %s" % (w[1], Desc(nme, [], sts, fins, trs).fmt()))
        if sts: out.append("W %s D %s" % (w[1], Desc(nme, syms, [], fins, trs).fmt()))
        if nme: out.append("W %s D %s" % (w[1], Desc(b"", syms, sts, fins, trs).fmt()))
        if w[1] != "0": out.append("W 0 D %s" % Desc(nme, syms, sts, fins, trs).fmt())
        return out
    if w[0] in ("M", "X"):
        t = bytes.fromhex(w[2]) if w[2] != "-" else b""
        lines = t.split(b"\n")
        if len(lines) > 1:
            for j in range(len(lines)): out.append("%s %s %s" % (w[0], w[1], hx(b"\n".join(lines[:j] + lines[j + 1:]))))
        n = len(t)
        for size in (n // 2, n // 4, 8, 1):
            if size < 1: continue
            for s in range(0, n, size):
                out.append("%s %s %s" % (w[0], w[1], hx(t[:s] + t[s + size:])))
                if len(out) > 300: return out
        if w[1] != "0": out.append("%s 0 %s" % (w[0], w[2]))
        return out
    return out            # C and V cases carry a text and a description that must stay in step: not shrunk

def explain(c, impl, verd):
    return ("case = kind flags [hex text] [D description] (formats in harness/drv/c13.cc; names are 'x'+hex). kinds: W description object "
            "(Serialize, ParseString, four encodings), C the model's canonical text, V/X well-formed variants, M malformed stream. "
            "gates: rt_cpp = ParseString(Serialize d) has d's finals and rules; model_reads_cpp_text = the formal parser reads libvata's text as d; "
            "cpp_reads_canonical / variant = ParseString of the formal serialisation / of a variant has d's finals and rules; "
            "enc_<E>_dump / _redump = LoadFromString then DumpToString (and again) through encoding E denotes d (for FA: finals, unary rules, "
            "start states, one nullary rule per start state); crash / hang / nonstd = the call did not end by returning or by a std::exception. "
            "DRIFT (reported only): byte equality of the serialisations, equality of the two parsers' outcome and result.")

def kf_o1_result_alphabet(c, impl, verd, k):
    """only the O1 probe, only its own gate"""
    return c.startswith("O ") and verd.startswith("FAIL o1_result_alphabet ")

LEVEL_TEXT = ("Coq theorems (all descriptions, no bounds) about a byte-level model of TimbukSerializer::Serialize and of parse_timbuk: parsing the "
              "serialisation of any description whose names satisfy the side condition derived from the code (per role; the property's uniform "
              "condition implies it) returns the same symbols, states, final states and rules; the integer conversion of ranks round-trips; value-level models of "
              "load/dump with a state dictionary (explicit, BDD bottom-up, BDD top-down, finite automaton) return the final states and rules name "
              "by name (dump_load, dump_text_load_dump, dump_load_fa), the dictionary is injective; the comparisons used as gates decide set "
              "equality of finals and rules. Tie to the C++: libvata rebuilt from /repo's working tree "
              "serialises generated descriptions, parses its own text, the model's text and well-formed variants, and loads/dumps/re-loads "
              "through the four encodings; every result is judged by the extracted verified parser and comparisons. The malformed stream "
              "(mutations, truncations, overflowing ranks, NULs, long lines, a complete slice of short transition lines) is run through the parser and "
              "the four loaders; a crash, hang or non-standard exception is a violation; disagreement with the model's accept/reject decision is drift.")
LEVEL_NOTE = ("Proved: the round trip parse(serialize d) for the canonical output of the serializer (not for arbitrary white-space variants, which are "
              "tied by correspondence only) and the gate deciders. 'Never crashes / hangs / corrupts memory, rejects by a std::exception' is OBSERVED on "
              "the malformed stream (under ASan+UBSan in the thorough tier: FLAVOURS thorough = plain, asan), NOT proved: it is a run-time statement "
              "about the C++ that no Gallina model can establish. The loaders/dumpers are modelled at value level only (dictionaries as finite maps, hash sets "
              "as lists); they are tied to the C++ by the verified comparison of libvata's dumps with the description, not by structural comparison. Trusted: Coq kernel, ExtrOcamlBasic extraction, OCaml/C++ glue, generators. "
              "No axioms (Print Assumptions: closed under the global context).")
TECHNIQUE = "Coq proof of a byte-level parser/serializer model + verified gate deciders; extracted-model correspondence against libvata on generated descriptions and texts"
DESIGN_REF = "DESIGN.md 5/C13"
READY = True
