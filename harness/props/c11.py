"""C11 — explicit automata are values: copies isolated, results independent of operands' fate, determinism."""
import itertools, re
ID = "C11"
DRIVER = "c11"
MODEL = "c11"
COQ_PROPS = ["Properties_C11.v"]
COQ_EXTRACT = "Extract_C11.v"
LEVEL = "proof"
RULE = ("cases = histories (<=25 steps, <=6 ExplicitTreeAut and <=6 ExplicitFiniteAut objects) of construct / copy / selective copy / copy-assign / "
        "move-construct / move-assign / AddTransition / SetStateFinal / SetStateStart / EraseFinalStates / Clear / AreTransitionsEmpty / destroy and "
        "the library operations RemoveUnreachableStates, RemoveUselessStates, Union, UnionDisjointStates, ReindexStates, plus replays of earlier "
        "library operations on fresh operands; after EVERY step EVERY live object is read and compared with the value model: corpus, the complete "
        "slice of all valid sequences of <=3 steps from a 20-step universe after a fixed two-object prefix, targeted families (copy-then-mutate at "
        "each of the three sharing levels in both directions, Clear/EraseFinalStates on shared storage, trimming results that share the map or "
        "single clusters, moves, operands destroyed or cleared after an operation, cache churn before replays, self-assignment, the two-level word "
        "automaton counterparts, pipelines trim -> union (operand, its trimmed result or a copy on either side) -> trim) and random histories; a history is non-trivial when it mutates an object while another live object shows the same "
        "non-empty value (storage possibly shared)")
TRUSTED_BASE = [
    "Coq 8.16.1 kernel (coqc, full .vo build); no vm_compute/native_compute in the C11 theorems",
    "extraction: Require Extraction + ExtrOcamlBasic only; N, positive, nat stay inductive; no Extract Constant of our own; OCaml 4.13.1",
    "hand-written glue: harness/ml/common.ml.in, ta_io.ml.in, c11_main.ml (parsing, driving the extracted vstep_run over the two pools, calling the "
    "extracted comparisons, bookkeeping of the operation log), harness/drv/c11.cc + common.hh + cont_watchdog.hh (object slots, re-runs on fresh operands, "
    "canonical printing; the word automaton core is read with `#define private public`, read-only), harness/props/c11.py (history generator with a "
    "Python value simulation used only to choose valid/interesting steps), harness/core.py",
    "modelled, not verified: copy-on-write storage of ExplicitTreeAutCore / ExplicitFiniteAutCore (uniqueClusterMap, uniqueCluster, uniqueTuplePtrSet, "
    "Clear, copy/move constructors and assignments, results of trimming/union/re-indexing sharing storage with operands); tied by reading every "
    "live object after every step on generated histories",
]
ASSUMPTIONS = ["one process-wide default alphabet and tuple cache; symbols are numeric codes, results are observed by iteration, never through the alphabet",
               "a moved-from facade object is only destroyed (its core pointer is null by design)",
               "UnionDisjointStates is only called on operands whose state sets are disjoint (its documented precondition)",
               "the word automaton facade has no read access to transitions and final states: the driver reads the core read-only",
               "correspondence is sampling: a history shape no generator produces is not covered"]
FLAVOURS = {"quick": ["plain"], "thorough": ["plain", "asan"]}

# ---------------------------------------------------------------------------------------------
# formatting / parsing
# ---------------------------------------------------------------------------------------------
def fstep(s):
    k = s[0]
    if k == "tR": return "tR %d %d %d %d%s" % (s[1], s[2][0], s[2][1], len(s[2][2]), "".join(" %d" % c for c in s[2][2]))
    if k in ("tI", "wI", "tT"): return "%s %d %d M %d%s %d" % (k, s[1], s[2], len(s[3]), "".join(" %d %d" % e for e in s[3]), s[4])
    return " ".join([k] + [str(x) for x in s[1:]])
def fmt(steps): return "c11 %d %s" % (len(steps), " ".join(fstep(s) for s in steps))

ARITY = {"tN": 1, "tC": 2, "tK": 4, "tA": 2, "tM": 2, "tV": 2, "tD": 1, "tF": 2, "tE": 1, "tX": 1, "tQ": 1, "tU": 2, "tL": 2, "tY": 3, "tJ": 3, "tP": 1,
         "wN": 1, "wC": 2, "wA": 2, "wM": 2, "wV": 2, "wD": 1, "wR": 4, "wF": 2, "wS": 3, "wU": 2, "wL": 2, "wY": 3, "wJ": 3, "wP": 1}
def parse(line):
    t = line.split(); assert t[0] == "c11"
    n = int(t[1]); i = 2; steps = []
    for _ in range(n):
        k = t[i]; i += 1
        if k == "tR":
            h, s, p, ar = int(t[i]), int(t[i + 1]), int(t[i + 2]), int(t[i + 3]); i += 4
            cs = tuple(int(x) for x in t[i:i + ar]); i += ar
            steps.append(("tR", h, (s, p, cs)))
        elif k in ("tI", "wI", "tT"):
            h, s = int(t[i]), int(t[i + 1]); assert t[i + 2] == "M"; m = int(t[i + 3]); i += 4
            mp = [(int(t[i + 2 * j]), int(t[i + 2 * j + 1])) for j in range(m)]; i += 2 * m
            steps.append((k, h, s, mp, int(t[i]))); i += 1
        else:
            a = ARITY[k]; steps.append(tuple([k] + [int(x) for x in t[i:i + a]])); i += a
    return steps

# ---------------------------------------------------------------------------------------------
# Python value simulation (only to keep histories valid and to aim mutations at a sharing level)
# ---------------------------------------------------------------------------------------------
class TV:
    def __init__(self, rules=(), finals=(), known=True): self.rules = set(rules); self.finals = set(finals); self.known = known
    def copy(self): return TV(self.rules, self.finals, self.known)
    def states(self):
        s = set(self.finals)
        for (f, p, cs) in self.rules: s.add(p); s.update(cs)
        return s
class WVv:
    def __init__(self, starts=(), finals=(), edges=(), known=True): self.starts = set(starts); self.finals = set(finals); self.edges = set(edges); self.known = known
    def copy(self): return WVv(self.starts, self.finals, self.edges, self.known)
    def states(self):
        s = set(self.finals) | {x for x, _ in self.starts}
        for (p, a, q) in self.edges: s.add(p); s.add(q)
        return s

def t_unreach(v):
    reach = set(v.finals); todo = list(reach)
    while todo:
        q = todo.pop()
        for (f, p, cs) in v.rules:
            if p == q:
                for c in cs:
                    if c not in reach: reach.add(c); todo.append(c)
    return TV([r for r in v.rules if r[1] in reach], v.finals, v.known)
def t_useless(v):
    prod = set(); ch = True
    while ch:
        ch = False
        for (f, p, cs) in v.rules:
            if p not in prod and all(c in prod for c in cs): prod.add(p); ch = True
    w = TV([r for r in v.rules if r[1] in prod and all(c in prod for c in r[2])], [q for q in v.finals if q in prod], v.known)
    return t_unreach(w)
def w_unreach(v):
    reach = {s for s, _ in v.starts}; todo = list(reach)
    while todo:
        q = todo.pop()
        for (p, a, r) in v.edges:
            if p == q and r not in reach: reach.add(r); todo.append(r)
    return WVv(v.starts, [f for f in v.finals if f in reach], [e for e in v.edges if e[0] in reach], v.known)

class Sim:
    """tracks liveness and (where computable) values; apply(step) returns False when the step is not valid now"""
    def __init__(self): self.T = {}; self.W = {}; self.log = []
    def clone(self):
        s = Sim(); s.T = {h: v.copy() for h, v in self.T.items()}; s.W = {h: v.copy() for h, v in self.W.items()}; s.log = list(self.log); return s
    def apply(self, st):
        k = st[0]; P = self.T if k[0] == "t" else self.W
        def live(h): return h in P
        def free(h): return 0 <= h < 6 and h not in P
        if k in ("tN", "wN"):
            if not free(st[1]): return False
            P[st[1]] = TV() if k[0] == "t" else WVv()
        elif k in ("tC", "wC"):
            if not free(st[1]) or not live(st[2]): return False
            P[st[1]] = P[st[2]].copy()
        elif k == "tK":
            if not free(st[1]) or not live(st[2]): return False
            v = P[st[2]]; P[st[1]] = TV(v.rules if st[3] else (), v.finals if st[4] else (), v.known)
        elif k in ("tA", "wA"):
            if not live(st[1]) or not live(st[2]): return False
            P[st[1]] = P[st[2]].copy()
        elif k in ("tM", "wM"):
            if not free(st[1]) or not live(st[2]): return False
            P[st[1]] = P.pop(st[2])
        elif k in ("tV", "wV"):
            if not live(st[1]) or not live(st[2]) or st[1] == st[2]: return False
            P[st[1]] = P.pop(st[2])
        elif k in ("tD", "wD"):
            if not live(st[1]): return False
            del P[st[1]]
        elif k == "tR":
            if not live(st[1]): return False
            P[st[1]].rules.add(st[2])
        elif k in ("tF", "wF"):
            if not live(st[1]): return False
            P[st[1]].finals.add(st[2])
        elif k == "tE":
            if not live(st[1]): return False
            P[st[1]].finals = set()
        elif k == "tX":
            if not live(st[1]): return False
            P[st[1]] = TV()
        elif k == "tQ":
            if not live(st[1]): return False
        elif k == "wR":
            if not live(st[1]): return False
            P[st[1]].edges.add((st[2], st[3], st[4]))
        elif k == "wS":
            if not live(st[1]): return False
            P[st[1]].starts.add((st[2], st[3]))
        elif k in ("tU", "tL", "wU", "wL"):
            if not free(st[1]) or not live(st[2]): return False
            v = P[st[2]]
            if k == "tU": P[st[1]] = t_unreach(v)
            elif k == "tL": P[st[1]] = t_useless(v)
            elif k == "wU": P[st[1]] = w_unreach(v)
            else: r = w_unreach(v); r.known = False; P[st[1]] = r       # superset of the useful part
            self.log.append(k)
        elif k in ("tY", "wY"):
            if not free(st[1]) or not live(st[2]) or not live(st[3]): return False
            n = len(P[st[2]].states()) + len(P[st[3]].states())
            if k == "tY": P[st[1]] = TV([], range(n), False)
            else: P[st[1]] = WVv([], range(n), [], False)
            self.log.append(k)
        elif k in ("tJ", "wJ"):
            if not free(st[1]) or not live(st[2]) or not live(st[3]) or st[2] == st[3]: return False
            a, b = P[st[2]], P[st[3]]
            if a.states() & b.states(): return False
            if k == "tJ": P[st[1]] = TV(a.rules | b.rules, a.finals | b.finals, a.known and b.known)
            else: P[st[1]] = WVv(a.starts | b.starts, a.finals | b.finals, a.edges | b.edges, a.known and b.known)
            self.log.append(k)
        elif k == "tI":
            if not free(st[1]) or not live(st[2]): return False
            m = dict(st[3]); h = lambda x: m.get(x, x + st[4]); v = P[st[2]]
            P[st[1]] = TV([(f, h(p), tuple(h(c) for c in cs)) for (f, p, cs) in v.rules], [h(q) for q in v.finals], v.known)
            self.log.append(k)
        elif k == "tT":
            if not free(st[1]) or not live(st[2]): return False
            m = dict(st[3]); g = lambda x: m.get(x, x + st[4]); v = P[st[2]]
            P[st[1]] = TV([(g(f), p, cs) for (f, p, cs) in v.rules], list(v.finals), v.known)
            self.log.append(k)
        elif k == "wI":
            if not free(st[1]) or not live(st[2]): return False
            v = P[st[2]]; P[st[1]] = WVv([], range(1000, 1000 + len(v.states()) + 5), [], False)
            self.log.append(k)
        elif k in ("tP", "wP"):
            if not (0 <= st[1] < len(self.log)) or self.log[st[1]][0] != k[0]: return False
        else: raise ValueError(k)
        return True

# ---------------------------------------------------------------------------------------------
# aimed mutations
# ---------------------------------------------------------------------------------------------
STATES = [0, 1, 2, 3]; SYMS = [0, 1, 2]
def rand_rule(rng, states=STATES): return (rng.choice(SYMS), rng.choice(states), tuple(rng.choice(states) for _ in range(rng.choice([0, 0, 1, 1, 2]))))
def level_rule(rng, v, level):
    """a rule whose insertion first touches the given sharing level of v: 1 = new parent (map), 2 = known parent, new symbol (cluster),
    3 = known parent and symbol, new tuple (tuple set), 0 = rule already present"""
    rules = sorted(v.rules)
    if not rules: return rand_rule(rng)
    if level == 0: return rng.choice(rules)
    if level == 1:
        owners = {p for (_, p, _) in rules}
        cand = [q for q in range(0, 8) if q not in owners]
        return (rng.choice(SYMS), rng.choice(cand), tuple(rng.choice(STATES) for _ in range(rng.randint(0, 2))))
    f, p, cs = rng.choice(rules)
    if level == 2:
        used = {g for (g, q, _) in rules if q == p}
        cand = [g for g in range(0, 6) if g not in used]
        return (rng.choice(cand), p, tuple(rng.choice(STATES) for _ in range(rng.randint(0, 2))))
    for _ in range(20):
        t = tuple(rng.choice(STATES + [7]) for _ in range(rng.randint(0, 3)))
        if (f, p, t) not in v.rules: return (f, p, t)
    return (f, p, cs + (7,))
def level_edge(rng, v, level):
    edges = sorted(v.edges)
    if not edges: return (rng.choice(STATES), rng.choice(SYMS), rng.choice(STATES))
    if level == 0: return rng.choice(edges)
    if level == 1:
        src = {p for (p, _, _) in edges}; cand = [q for q in range(0, 8) if q not in src]
        return (rng.choice(cand), rng.choice(SYMS), rng.choice(STATES))
    p, a, q = rng.choice(edges)
    if level == 2:
        used = {b for (r, b, _) in edges if r == p}; cand = [b for b in range(0, 6) if b not in used]
        return (p, rng.choice(cand), rng.choice(STATES))
    return (p, a, rng.choice([x for x in range(0, 9) if (p, a, x) not in v.edges] or [q]))

def build_tree(rng, h, nrules=None, states=STATES, finals=True):
    steps = [("tN", h)]
    for _ in range(nrules if nrules is not None else rng.randint(2, 7)): steps.append(("tR", h, rand_rule(rng, states)))
    if finals:
        for _ in range(rng.randint(1, 2)): steps.append(("tF", h, rng.choice(states)))
    return steps
def build_word(rng, h, nedges=None, states=STATES):
    steps = [("wN", h)]
    for _ in range(nedges if nedges is not None else rng.randint(2, 7)): steps.append(("wR", h, rng.choice(states), rng.choice(SYMS), rng.choice(states)))
    steps.append(("wS", h, rng.choice(states), rng.choice(SYMS)))
    if rng.random() < 0.5: steps.append(("wS", h, rng.choice(states), rng.choice(SYMS)))
    steps.append(("wF", h, rng.choice(states)))
    return steps

def finish(steps, maxlen=25):
    """keep the longest valid prefix (<= maxlen steps)"""
    sim = Sim(); out = []
    for s in steps:
        if len(out) >= maxlen: break
        if sim.apply(s): out.append(s)
    return fmt(out), sim

def mut_tree(rng, sim, h, level=None):
    v = sim.T.get(h)
    if v is None: return None
    x = rng.random()
    if x < 0.70: return ("tR", h, level_rule(rng, v, rng.choice([0, 1, 2, 3, 3]) if level is None else level))
    if x < 0.80: return ("tF", h, rng.choice(STATES))
    if x < 0.87: return ("tE", h)
    if x < 0.95: return ("tX", h)
    return ("tQ", h)
def mut_word(rng, sim, h, level=None):
    v = sim.W.get(h)
    if v is None: return None
    x = rng.random()
    if x < 0.75: e = level_edge(rng, v, rng.choice([0, 1, 2, 3]) if level is None else level); return ("wR", h, e[0], e[1], e[2])
    if x < 0.88: return ("wF", h, rng.choice(STATES))
    return ("wS", h, rng.choice(STATES), rng.choice(SYMS))

def targeted(rng, n):
    out = []
    for _ in range(n):
        fam = rng.randrange(12)
        steps = []
        if fam in (0, 1, 2):
            # copy (construct / assign / selective / chain), then mutate one side at level fam+1, both directions
            steps = build_tree(rng, 0)
            how = rng.choice(["C", "A", "K", "chain"])
            if how == "C": steps.append(("tC", 1, 0))
            elif how == "A": steps += [("tN", 1), ("tR", 1, rand_rule(rng)), ("tA", 1, 0)]
            elif how == "K": steps.append(("tK", 1, 0, 1, rng.choice([0, 1])))
            else: steps += [("tC", 1, 0), ("tC", 2, 1)]
            _, sim = finish(steps)
            for _ in range(rng.randint(1, 4)):
                h = rng.choice(sorted(sim.T))
                st = ("tR", h, level_rule(rng, sim.T[h], fam + 1))
                sim.apply(st); steps.append(st)
                free = [x for x in range(6) if x not in sim.T]
                if free and rng.random() < 0.3:
                    h2 = rng.choice(free); st = ("tC", h2, rng.choice(sorted(sim.T))); sim.apply(st); steps.append(st)
        elif fam == 3:
            # Clear / EraseFinalStates / SetStateFinal / AreTransitionsEmpty on shared storage, then refill
            steps = build_tree(rng, 0) + [("tC", 1, 0)]
            if rng.random() < 0.5: steps.append(("tC", 2, 0))
            _, sim = finish(steps)
            for _ in range(rng.randint(2, 6)):
                h = rng.choice(sorted(sim.T))
                st = rng.choice([("tX", h), ("tE", h), ("tF", h, rng.choice(STATES)), ("tQ", h), ("tR", h, level_rule(rng, sim.T[h], rng.randint(1, 3)))])
                sim.apply(st); steps.append(st)
        elif fam in (4, 5):
            # trimming results share storage with the operand: nothing removed (whole map shared) or something removed (clusters shared)
            steps = [("tN", 0)]
            chain = rng.randint(1, 3)
            steps.append(("tR", 0, (0, 0, ())))
            for i in range(chain): steps.append(("tR", 0, (1, i + 1, (i,))))
            steps.append(("tR", 0, (2, chain, (rng.randrange(chain + 1), rng.randrange(chain + 1)))))
            steps.append(("tF", 0, chain))
            if fam == 5:
                # an unreachable owner and an unproductive rule
                steps.append(("tR", 0, (0, 6, ())))
                if rng.random() < 0.6: steps.append(("tR", 0, (1, rng.randrange(chain + 1), (7,))))
            op = rng.choice(["tU", "tL"])
            steps.append((op, 1, 0))
            if rng.random() < 0.5: steps.append((rng.choice(["tU", "tL"]), 2, rng.choice([0, 1])))
            _, sim = finish(steps)
            for _ in range(rng.randint(1, 5)):
                h = rng.choice(sorted(sim.T))
                st = rng.choice([("tR", h, level_rule(rng, sim.T[h], rng.randint(1, 3))), ("tR", h, level_rule(rng, sim.T[h], 3)), ("tX", h), ("tF", h, rng.choice(STATES)), ("tE", h), ("tD", h)])
                if sim.apply(st): steps.append(st)
                if not sim.T: break
        elif fam == 6:
            # moves
            steps = build_tree(rng, 0) + [("tC", 1, 0)]
            steps.append(rng.choice([("tM", 2, 1), ("tM", 2, 0)]))
            if rng.random() < 0.5: steps += [("tN", 3), ("tR", 3, rand_rule(rng)), ("tV", 3, 2)]
            _, sim = finish(steps)
            for _ in range(rng.randint(1, 4)):
                h = rng.choice(sorted(sim.T)); st = mut_tree(rng, sim, h, rng.randint(1, 3))
                if sim.apply(st): steps.append(st)
        elif fam == 7:
            # operands cleared / destroyed / overwritten after a library operation; the result must persist
            steps = build_tree(rng, 0) + build_tree(rng, 1, states=[4, 5, 6] if rng.random() < 0.5 else STATES)
            op = rng.choice(["tU", "tL", "tY", "tI", "tJ"])
            if op in ("tU", "tL"): steps.append((op, 2, rng.choice([0, 1])))
            elif op == "tI": steps.append(("tI", 2, 0, [(q, rng.randrange(10)) for q in STATES if rng.random() < 0.7], rng.choice([0, 10])))
            else: steps.append((op, 2, 0, 1))
            fate = [rng.choice([("tX", 0), ("tD", 0), ("tA", 0, 1), ("tR", 0, rand_rule(rng)), ("tE", 0)]),
                    rng.choice([("tX", 1), ("tD", 1), ("tR", 1, rand_rule(rng)), ("tF", 1, 2)])]
            rng.shuffle(fate); steps += fate
            steps.append(("tR", 2, rand_rule(rng)))
        elif fam == 8:
            # unrelated activity (other automata created, filled with many tuples, destroyed: tuple cache populated and drained), then replays
            steps = build_tree(rng, 0) + build_tree(rng, 1)
            ops = []
            for i in range(rng.randint(1, 2)):
                op = rng.choice(["tU", "tL", "tY", "tI"]); h = 2 + i
                if op in ("tU", "tL"): steps.append((op, h, rng.choice([0, 1])))
                elif op == "tI": steps.append(("tI", h, 0, [(q, rng.randrange(6)) for q in STATES], 0))
                else: steps.append((op, h, 0, 1))
                ops.append(i)
            steps += [("tN", 5)] + [("tR", 5, rand_rule(rng)) for _ in range(rng.randint(2, 5))] + [("tX", 0), ("tD", 5), ("tD", 1)]
            for i in ops: steps.append(("tP", i))
        elif fam == 9:
            # self-assignment, assignment over a value shared with a third object
            steps = build_tree(rng, 0) + [("tC", 1, 0), ("tA", 0, 0), ("tC", 2, 1)] + build_tree(rng, 3, 2) + [("tA", 1, 3), ("tR", 1, rand_rule(rng)), ("tR", 2, rand_rule(rng)), ("tA", 3, 3), ("tX", 3)]
        elif fam == 10:
            # word automata: copy then mutate at the map level / inside a shared cluster; trimming and union results; moves
            steps = build_word(rng, 0)
            steps.append(rng.choice([("wC", 1, 0), ("wU", 1, 0), ("wL", 1, 0)]))
            if rng.random() < 0.4: steps += [("wN", 2), ("wA", 2, rng.choice([0, 1]))]
            if rng.random() < 0.3: steps.append(("wM", 3, 1))
            _, sim = finish(steps)
            for _ in range(rng.randint(1, 5)):
                h = rng.choice(sorted(sim.W)); st = mut_word(rng, sim, h, rng.randint(1, 3))
                if sim.apply(st): steps.append(st)
        else:
            # word automata: operands destroyed / mutated after Union / ReindexStates / UnionDisjointStates; replays after unrelated activity
            steps = build_word(rng, 0) + build_word(rng, 1, states=[4, 5, 6] if rng.random() < 0.6 else STATES)
            op = rng.choice(["wY", "wI", "wJ", "wU", "wL"])
            if op in ("wU", "wL"): steps.append((op, 2, rng.choice([0, 1])))
            elif op == "wI": steps.append(("wI", 2, 0, [(q, 20 + q) for q in STATES if rng.random() < 0.6], 1000))
            else: steps.append((op, 2, 0, 1))
            steps += [rng.choice([("wD", 0), ("wR", 0, 0, 0, 9), ("wF", 0, 3)]), rng.choice([("wD", 1), ("wR", 1, 4, 1, 4), ("wS", 1, 2, 2)])]
            steps += [("wN", 4), ("wR", 4, 1, 1, 1), ("wD", 4), ("wP", 0), ("wR", 2, 1, 2, 3)]
        out.append(finish(steps)[0])
    return out

def rand_history(rng, maxlen=25):
    sim = Sim(); steps = []
    want = rng.randint(4, maxlen)
    word_bias = rng.choice([0.0, 0.15, 0.5, 1.0])
    tries = 0
    while len(steps) < want and tries < 400:
        tries += 1
        w = rng.random() < word_bias
        P = sim.W if w else sim.T
        livel = sorted(P); freel = [h for h in range(6) if h not in P]
        x = rng.random(); st = None
        pre = "w" if w else "t"
        if not livel or (x < 0.08 and freel):
            st = (pre + "N", rng.choice(freel))
        elif x < 0.40:
            st = (mut_word if w else mut_tree)(rng, sim, rng.choice(livel))
        elif x < 0.52 and freel:
            st = (pre + "C", rng.choice(freel), rng.choice(livel))
            if not w and rng.random() < 0.15: st = ("tK", st[1], st[2], rng.choice([0, 1]), rng.choice([0, 1]))
        elif x < 0.60:
            st = (pre + "A", rng.choice(livel), rng.choice(livel))
        elif x < 0.65 and freel:
            st = (pre + "M", rng.choice(freel), rng.choice(livel))
        elif x < 0.69 and len(livel) >= 2:
            a, b = rng.sample(livel, 2); st = (pre + "V", a, b)
        elif x < 0.77:
            st = (pre + "D", rng.choice(livel))
        elif x < 0.93 and freel:
            op = rng.choice(["U", "L", "Y", "I", "J", "U", "L"])
            h = rng.choice(freel)
            if op in ("U", "L"): st = (pre + op, h, rng.choice(livel))
            elif op in ("Y", "J"): st = (pre + op, h, rng.choice(livel), rng.choice(livel))
            elif w: st = ("wI", h, rng.choice(livel), [(q, 50 + q) for q in range(8) if rng.random() < 0.5], 1000)
            else: st = ("tI", h, rng.choice(livel), [(q, rng.randrange(8)) for q in range(8) if rng.random() < 0.6], rng.choice([0, 20]))
        elif sim.log:
            j = rng.randrange(len(sim.log)); st = (sim.log[j][0] + "P", j)
        if st and sim.apply(st): steps.append(st)
    return fmt(steps)

# ---- exhaustive slice ----
EXH_PREFIX = [("tN", 0), ("tR", 0, (0, 0, ())), ("tR", 0, (1, 1, (0,))), ("tF", 0, 1), ("tC", 1, 0)]
EXH_UNI = [("tC", 2, 0), ("tA", 1, 0), ("tA", 0, 1), ("tM", 2, 0), ("tV", 1, 0), ("tD", 0), ("tD", 1),
           ("tR", 0, (0, 2, ())), ("tR", 0, (2, 1, (0,))), ("tR", 0, (1, 1, (1,))), ("tR", 1, (1, 1, (1,))), ("tR", 1, (0, 2, ())),
           ("tX", 0), ("tX", 1), ("tE", 1), ("tF", 1, 0), ("tQ", 0), ("tU", 2, 0), ("tL", 2, 1), ("tK", 2, 1, 1, 0)]
def exhaustive(L):
    base = Sim()
    for s in EXH_PREFIX: assert base.apply(s)
    def rec(sim, seq, depth):
        yield fmt(EXH_PREFIX + seq)
        if depth == 0: return
        for s in EXH_UNI:
            s2 = sim.clone()
            if s2.apply(s):
                for x in rec(s2, seq + [s], depth - 1): yield x
    return rec(base, [], L)
EXHAUSTIVE_SLICES = ("all valid sequences of <=3 (quick) / <=4 (thorough) steps from a 20-step universe (copy, both assignments, both moves, destroys, "
                     "AddTransition at each sharing level on either object, Clear, EraseFinalStates, SetStateFinal, AreTransitionsEmpty, both trimmings, "
                     "selective copy) after the prefix {A := two rules + final; B := copy of A}, every object read after every step "
                     "(the run as a whole is not exhaustive)")

CORPUS = [
    "c11 6 tN 0 tR 0 0 0 0 tC 1 0 tR 1 0 1 0 tR 0 0 2 0 tX 1",                                     # map level
    "c11 6 tN 0 tR 0 0 0 0 tC 1 0 tR 1 1 0 0 tR 0 2 0 1 0 tD 0",                                   # cluster level
    "c11 6 tN 0 tR 0 1 0 1 0 tC 1 0 tR 1 1 0 1 1 tR 0 1 0 1 2 tE 1",                               # tuple-set level
    "c11 7 tN 0 tR 0 0 0 0 tF 0 0 tC 1 0 tX 0 tR 0 0 1 0 tX 1",                                    # Clear on a shared map
    "c11 8 tN 0 tR 0 0 0 0 tR 0 1 1 1 0 tF 0 1 tU 1 0 tR 1 1 1 1 1 tR 0 1 1 1 2 tX 0",              # `return *this` shares the whole map
    "c11 9 tN 0 tR 0 0 0 0 tR 0 1 1 1 0 tR 0 0 5 0 tF 0 1 tU 1 0 tR 1 1 1 1 1 tR 0 1 1 1 2 tD 0",   # unreach result shares single clusters
    "c11 8 tN 0 tR 0 0 0 0 tR 0 1 1 1 0 tF 0 1 tL 1 0 tR 0 1 1 1 1 tF 0 0 tD 0",                    # useless, remaining = 0: shares transitions_
    "c11 9 tN 0 tR 0 0 0 0 tF 0 0 tN 1 tR 1 1 4 0 tF 1 4 tJ 2 0 1 tR 2 0 0 1 4 tR 1 1 4 1 4",       # UnionDisjointStates shares clusters of both
    "c11 9 tN 0 tR 0 0 0 0 tF 0 0 tN 1 tR 1 1 1 1 0 tY 2 0 1 tX 0 tD 1 tP 0",                        # Union, operands gone, replay
    "c11 7 tN 0 tR 0 0 0 0 tC 1 0 tM 2 1 tR 2 0 1 0 tA 0 0 tR 0 0 2 0",                             # move, self-assignment
    "c11 8 wN 0 wR 0 0 0 1 wS 0 0 0 wF 0 1 wC 1 0 wR 1 0 0 2 wR 0 0 1 1 wR 1 3 0 0",                 # word automaton: inside a shared cluster / map level
    "c11 9 wN 0 wR 0 0 0 1 wS 0 0 0 wF 0 1 wU 1 0 wR 1 0 0 2 wR 0 1 1 1 wD 0 wP 0",                   # word unreach shares clusters
    "c11 10 wN 0 wR 0 0 0 1 wS 0 0 0 wF 0 1 wN 1 wR 1 4 0 4 wS 1 4 1 wJ 2 0 1 wR 2 4 0 5 wR 0 0 0 3", # word UnionDisjointStates
]

def large_trim(rng):
    """an automaton with 9-20 rule-owning states of which only one or two are unreachable from the final states (a chain with a few side rules),
    copies of it that share its storage and get other final states, then the read-only library operations (RemoveUnreachableStates,
    RemoveUselessStates) on one of them: no object the step does not name may change, and the result depends on the operand only"""
    n = rng.randint(9, 20)
    steps = [("tN", 0), ("tR", 0, (0, 0, ()))]
    for k in range(n - 1):
        cs = (k,) if rng.random() < 0.75 else (k, rng.randrange(k + 1))
        steps.append(("tR", 0, (1 if len(cs) == 1 else 2, k + 1, cs)))
    for _ in range(rng.randint(1, 2)):              # unreachable owners: nothing leads from a final state to them
        u = 100 + rng.randrange(5)
        steps.append(("tR", 0, (1, u, (rng.randrange(n),))))
    for _ in range(rng.randint(0, 2)):
        steps.append(("tR", 0, (2, rng.randrange(1, n), (rng.randrange(n), rng.randrange(n)))))
    steps.append(("tF", 0, n - 1))
    steps.append(("tC", 1, 0))
    steps.append(("tK", 2, 0, 1, 0)); steps.append(("tF", 2, rng.randrange(n)))
    if rng.random() < 0.5: steps += [("tN", 3), ("tA", 3, 0), ("tE", 3), ("tF", 3, 100)]
    ops = [("tU", 4, rng.choice([0, 1])), ("tL", 5, rng.choice([0, 1, 2]))]
    rng.shuffle(ops)
    steps += ops
    if rng.random() < 0.4: steps.append(("tQ", 0))
    return fmt(steps)

def symbol_merge(rng):
    """TranslateSymbols with a symbol map that MERGES symbols used under one parent (and other maps), on an automaton of which copies are alive:
    a read-only operation must leave its operand and every copy of it untouched, whatever it shares with them internally"""
    st = [0, 1, 2, 3]
    steps = [("tN", 0)]
    for _ in range(rng.randint(3, 7)):
        steps.append(("tR", 0, (rng.choice([0, 1, 2, 3]), rng.choice(st), tuple(rng.choice(st) for _ in range(rng.choice([0, 1, 2, 2]))))))
    steps.append(("tF", 0, rng.choice(st)))
    steps.append(("tC", 1, 0))
    if rng.random() < 0.5: steps += [("tN", 2), ("tA", 2, 0)]
    kind = rng.random()
    if kind < 0.6: m = [(2, 3)] if rng.random() < 0.5 else [(3, 2), (1, 0)]       # merging
    elif kind < 0.8: m = [(0, 1), (1, 0)]                                          # swap
    else: m = []
    steps.append(("tT", 3, rng.choice([0, 1]), m, rng.choice([0, 0, 10])))
    if rng.random() < 0.5: steps.append(("tT", 4, 0, [(q, 0) for q in range(4)], 0))
    if rng.random() < 0.5: steps.append(("tR", 1, (rng.choice([0, 1, 2, 3]), rng.choice(st), ())))
    if rng.random() < 0.4: steps.append(("tU", 5, 0))
    return fmt(steps)

def chain_tree(rng, h, base, dirty):
    """a small chain automaton on the states base..: clean (every rule productive and reachable from the final state: trimming shares the
    whole table) or dirty (an unproductive rule with a final parent, an owner nothing final leads to)"""
    k = rng.randint(1, 3)
    steps = [("tN", h), ("tR", h, (0, base, ()))]
    for i in range(k): steps.append(("tR", h, (1, base + i + 1, (base + i,))))
    if rng.random() < 0.4: c = base + rng.randrange(k + 1); steps.append(("tR", h, (2, base + k, (c, c))))
    steps.append(("tF", h, base + k))
    if dirty:
        if rng.random() < 0.8: steps += [("tR", h, (1, base + 5, (base + 4,))), ("tF", h, base + 5)]     # base+4 owns no rule: unproductive, final
        if rng.random() < 0.5: steps.append(("tR", h, (0, base + 6, ())))                                 # productive, unreachable
    return steps

def pipeline(rng):
    """results fed into further library operations: trim (or emptiness-style read) of an operand, then a union whose LEFT or right operand is
    that operand, its trimmed result or a copy, then trimming of the union — every result must be the function of the operands' values, whatever
    the objects share internally and whatever was computed on them before"""
    steps = chain_tree(rng, 0, 0, rng.random() < 0.3) + chain_tree(rng, 1, 10, rng.random() < 0.8)
    free = [2, 3, 4, 5]
    lefts = [0]
    pre = rng.random()
    if pre < 0.75:
        h = free.pop(0); steps.append((rng.choice(["tL", "tL", "tU"]), h, 0)); lefts.append(h)
    if rng.random() < 0.35 and free:
        h = free.pop(0); steps.append(("tC", h, rng.choice(lefts))); lefts.append(h)
    if rng.random() < 0.2: steps.append((rng.choice(["tL", "tU"]), free.pop(0), 1))
    if not free: return fmt(steps)
    u = free.pop(0)
    a, b = rng.choice(lefts), 1
    if rng.random() < 0.25: a, b = b, a
    steps.append((rng.choice(["tJ", "tJ", "tY"]), u, a, b))
    if rng.random() < 0.25: steps.append(rng.choice([("tD", 0), ("tX", 0), ("tR", 0, (0, 3, ()))]))
    if free: steps.append((rng.choice(["tL", "tL", "tU"]), free.pop(0), u))
    if free and rng.random() < 0.5: steps.append((rng.choice(["tL", "tU"]), free.pop(0), u))
    return fmt(steps)

def cases(rng, tier):
    cs = [(l, "corpus") for l in CORPUS]
    cs += [(pipeline(rng), "targeted_pipeline") for _ in range(400 if tier == "quick" else 6000)]
    cs += [(symbol_merge(rng), "targeted_symbol_merge") for _ in range(300 if tier == "quick" else 5000)]
    cs += [(large_trim(rng), "targeted_large_trim") for _ in range(150 if tier == "quick" else 2000)]
    cs += [(l, "exhaustive") for l in exhaustive(3 if tier == "quick" else 4)]
    cs += [(l, "targeted") for l in targeted(rng, 1500 if tier == "quick" else 25000)]
    n = 2000 if tier == "quick" else 40000
    cs += [(rand_history(rng), "random") for _ in range(n)]
    return cs

def nontrivial(c, impl, verd):
    m = re.search(r"shared_muts=(\d+)", verd)
    return bool(m) and int(m.group(1)) >= 1

def observe(dist, c, impl, verd):
    for key in ("steps", "copies", "shared_muts", "libs", "replays", "destroys", "maxlive"):
        m = re.search(key + r"=(\d+)", verd)
        if not m: continue
        v = int(m.group(1))
        b = "0" if v == 0 else "1-2" if v <= 2 else "3-5" if v <= 5 else "6-12" if v <= 12 else ">12"
        dist["%s:%s" % (key, b)] = dist.get("%s:%s" % (key, b), 0) + 1
    if " w" in c: dist["has_word_automaton"] = dist.get("has_word_automaton", 0) + 1

def shrink_candidates(c):
    steps = parse(c)
    for i in range(len(steps) - 1, -1, -1):
        cand = steps[:i] + steps[i + 1:]
        # replay indices shift when a library step disappears: drop candidates that become invalid
        sim = Sim(); ok = True
        for s in cand:
            if not sim.apply(s): ok = False; break
        if ok: yield fmt(cand)
    for i, s in enumerate(steps):
        if s[0] == "tR" and s[2][2]:
            r = s[2]; yield fmt(steps[:i] + [("tR", s[1], (r[0], r[1], r[2][:-1]))] + steps[i + 1:])
        if s[0] in ("tI", "wI") and s[3]:
            yield fmt(steps[:i] + [(s[0], s[1], s[2], s[3][:-1], s[4])] + steps[i + 1:])

def explain(c, impl, verd):
    return ("case = c11 <n> steps over tree objects t0..t5 and word objects w0..w5: N h new, C h s copy-construct, tK h s ct cf selective copy, A h s "
            "copy-assign, M h s move-construct (s destroyed), V h s move-assign (s destroyed), D h destroy, tR h sym par k c.. AddTransition, wR h src sym dst, "
            "F h q SetStateFinal, wS h q sym SetStateStart, tE EraseFinalStates, tX Clear, tQ AreTransitionsEmpty, U/L h s RemoveUnreachable/UselessStates, "
            "Y h a b Union (maps reported), J h a b UnionDisjointStates, I h s M.. ReindexStates, P k replay of the k-th library operation on fresh operands. "
            "impl = per step: S [maps, X re-run on fresh operands, Z run in a pristine process] L <live objects with their values>. Gates: isolation = an object the step does not "
            "name changed; step_value = the named object does not show the value the step must produce; liveness; result_not_function_of_operands = "
            "the re-run on fresh copies of the operands' values (or an earlier call on equal values) gives another result; replay_differs; "
            "union_value / reindex_value / union_disjoint_value = result is not the image/union of the operands' values at call time under the reported maps.")

LEVEL_TEXT = ("Coq theorems: (1) value model — a pool handle -> value where every step is a function of the values of the handles it names: frame property, "
              "copy_isolated (both directions), move_transfers, result_independent_of_operand_fate, operand_unchanged, op_deterministic (after ANY two "
              "histories that leave equal operand values the operation gives the same result); the flat tree values agree with C12's nested store; "
              "(2) copy-on-write model — a heap of map / cluster / tuple-set objects with use counts derived from the live referrers, every mutating step "
              "written as the code writes it (uniqueClusterMap, uniqueCluster, uniqueTuplePtrSet, insert; Clear replaces or clears depending on unique(); "
              "trimming results share the map or single clusters) is proved to refine the value model for ALL histories (cow_refines_value). Tie to the C++: "
              "libvata rebuilt from /repo's working tree is driven through random and targeted histories; after every step every live object is read and "
              "compared with the extracted value model; library operations are re-run on fresh operands, in a pristine process, and replayed after unrelated activity.")
LEVEL_NOTE = ("Trusted: Coq kernel, ExtrOcamlBasic extraction, OCaml/C++ glue, history generator. The C++ is modelled, not verified: the copy-on-write model "
              "is hand-written from the code and tied to it only through the values read after every step (use counts are not compared). The alphabet "
              "object and the tuple cache are process-wide by design and treated as part of the environment. No axioms.")
TECHNIQUE = "Coq proof of a value model and of a copy-on-write heap model refining it; extracted value model compared with every live object after every step"
DESIGN_REF = "DESIGN.md 5/C11"
EXPLANATION = explain("", "", "")
READY = True
