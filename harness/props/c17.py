"""C17 — MTBDD operations are pointwise correct and representations are canonical."""
import itertools
import gen_mtbdd as G
ID = "C17"
DRIVER = "c17"
MODEL = "c17"
COQ_PROPS = ["Properties_C17.v"]
COQ_EXTRACT = "Extract_C17.v"
LEVEL = "proof"
RULE = ("cases = operation trees over the header-only MTBDD templates instantiated for unsigned and std::set<unsigned> leaves, all built in "
        "the one process-wide node store: corpus; the complete slice of all trees `atom atom binary-apply`, `atom unary-apply`, `atom project`, "
        "`atom atom apply project` and `atom atom atom ternary-apply` over 2 variables and leaf values {0,1}, atom = "
        "every construction from an assignment in {0,1,X}^2 or a constant; targeted families (canonicity: one function built in several ways; "
        "result equal to an operand; constants; every variable-order split of classifyCase incl. interleaved and disjoint supports; "
        "projection of each variable set; monotone renamings; ExtendWith / GetMtbddForPrefix round trips; don't-care at every position; large diagrams "
        "accumulated from many constructions) and "
        "random trees of up to 10 operations over up to 5 variables; every handle is observed on ALL 3^NV assignments, operator== on all "
        "pairs, GetPaths, and the traversing functors. A case is non-trivial when it has >= 3 handles, uses >= 2 kinds of operation and some "
        "diagram has >= 2 internal nodes (distinct by case text)")
TRUSTED_BASE = [
    "Coq 8.16.1 kernel (coqc, full .vo build); vm_compute only in Examples; no native_compute",
    "extraction: Require Extraction + ExtrOcamlBasic only; N, positive, nat stay inductive; no Extract Constant of our own; OCaml 4.13.1",
    "hand-written glue: harness/ml/common.ml.in, c17_main.ml (parsing, enumeration of the 3^NV assignments, printing, dispatch of op letters to the extracted functions), "
    "harness/drv/c17.cc + mtbdd_common.hh (instantiates the templates, prints canonically), harness/gen_mtbdd.py, harness/core.py",
    "the leaf operations are given by code twice: coq/MtbddOps.v (op1/op2/op3) and mtbdd_common.hh (u_op*/s_op*); their agreement is trusted (and exercised by every apply case)",
    "modelled, not verified: src/mtbdd/*.hh, include/vata/sym_var_asgn.hh; tied by the gates on generated operation trees",
]
ASSUMPTIONS = [
    "one fixed variable order: ExtendWith is only used with an offset above the variables present, Rename with a monotone renaming (both are preconditions stated in the header); every assignment handed to GetValue / GetMtbddForPrefix is long enough (the code reads past the end otherwise; asserts are compiled out)",
    "GetValue on an assignment with don't-care positions: the header promises 'an arbitrary value' among those the assignment can reach, so the gate (dcvalue) is membership in the values of the total refinements; that the code follows the low child is compared exactly but reported as drift (dclow), as 2.5 of DESIGN.md prescribes for behaviour the contract leaves open. GetMtbddForPrefix documents 'the lowest one', so there the low choice is part of the gated values",
    "the memo tables of the apply functors are not modelled (the model is the function they memoise); address reuse inside one apply is C20's subject",
    "operator== is compared with equality of the model diagrams; that this is equality of the denoted functions is theorem C17_eqb_spec, that it is equality of roots in the store is C17_root_eq_iff_same_function under the store invariant of C18, which is proved for the operations of C18 (Project / Rename are tied by this correspondence only)",
    "correspondence is sampling: an operation tree no generator produces is not covered",
]
FLAVOURS = {"quick": ["plain"], "thorough": ["plain", "asan"]}

def atoms2(vals=(0, 1)):
    return [("C", a, v, d) for a in G.all_asgn(2) for (v, d) in ((1, 0), (0, 1))] + [("K", v) for v in vals]
def put(t, at):
    return t.C(at[1], at[2], at[3]) if at[0] == "C" else t.K(at[1])

def exhaustive(rng, tier):
    out = []
    at = atoms2()
    for dom, f2s, f1s in (("u", (0, 1, 2, 6), range(5)), ("s", (0, 1, 2, 3), range(4))):
        for a in at:
            for f in f1s:
                t = G.Tree(dom, 2); put(t, a); t.U(f, 0); out.append(t.fmt())
            for mask in (1, 2, 3):
                t = G.Tree(dom, 2); put(t, a); t.P(f2s[0], mask, 0); out.append(t.fmt())
        for a, b in itertools.product(at, at):
            for f in f2s:
                t = G.Tree(dom, 2); put(t, a); put(t, b); t.B(f, 0, 1); out.append(t.fmt())
        if dom == "u":
            for a, b in itertools.product(at, at):
                for mask in (1, 2, 3):
                    t = G.Tree(dom, 2); put(t, a); put(t, b); t.B(0, 0, 1); t.P(1, mask, 2); out.append(t.fmt())
    tern = []
    for a, b, c in itertools.product(at, at, at):
        for f in range(3):
            t = G.Tree("u", 2); put(t, a); put(t, b); put(t, c); t.T(f, 0, 1, 2); tern.append(t.fmt())
    return out, tern, False

def targeted(rng, tier):
    out = []
    k = 1 if tier == "quick" else 6
    for _ in range(120 * k):
        # canonicity: the same function built in several ways, all must share one root
        dom = rng.choice("us"); nv = rng.randint(2, 4)
        t = G.Tree(dom, nv)
        n1, n2, n3 = G.NOPS[dom]
        a = t.C(G.rand_asgn(rng, nv), rng.randrange(1, 4), 0)
        b = t.C(G.rand_asgn(rng, nv), rng.randrange(1, 4), 0)
        c = t.C(G.rand_asgn(rng, rng.randint(0, nv)), rng.randrange(0, 4), rng.randrange(0, 4))
        f = rng.choice((0, 1, 2, 3)) if dom == "u" else rng.choice((0, 1, 3))       # commutative codes
        x = t.B(f, a, b); y = t.B(f, b, a)
        g = rng.choice((0, 1, 2)) if dom == "u" else rng.choice((0, 1))             # associative codes
        t.B(g, t.B(g, a, b), c); t.B(g, a, t.B(g, b, c))
        t.Y(x); t.U(3 if dom == "u" else 1, y)                                       # identity
        t.B(4, x, c) if dom == "u" else t.B(1, x, x)                                 # result equals an operand
        out.append(t.fmt())
    for _ in range(100 * k):
        # constants and results equal to an operand; constructions covering everything
        dom = rng.choice("us"); nv = rng.randint(1, 4)
        t = G.Tree(dom, nv)
        v = rng.randrange(0, 4)
        a = t.C(G.rand_asgn(rng, rng.randint(0, nv)), v, v)          # value = default: early return
        b = t.C("X" * rng.randint(0, nv), rng.randrange(4), rng.randrange(4))   # nothing built above the leaf: sink disposed
        c = t.K(v)
        d = t.C(G.rand_asgn(rng, nv, 0.2), rng.randrange(4), rng.randrange(4))
        if dom == "u":
            t.B(6, d, d); t.B(1, d, t.K(0)); t.B(2, d, t.K(0)); t.B(3, d, t.K(1)); t.U(2, d); t.T(1, t.K(1), d, a); t.T(1, t.K(0), a, d)
        else:
            t.B(0, d, d); t.B(2, d, d); t.B(0, d, t.K(0)); t.B(1, d, t.K(7)); t.U(2, d); t.T(0, d, d, d)
        out.append(t.fmt())
    for _ in range(150 * k):
        # every split of classifyCase: disjoint, interleaved, nested, equal top variables, leaf against internal
        dom = rng.choice("us"); nv = rng.randint(3, 5)
        t = G.Tree(dom, nv)
        n1, n2, n3 = G.NOPS[dom]
        def on_vars(vs):
            a = "".join(rng.choice("01") if i in vs else "X" for i in range(max(vs) + 1)) if vs else ""
            return t.C(a, rng.randrange(1, 4), rng.randrange(0, 2))
        shape = rng.choice(("disjoint", "interleaved", "nested", "sametop", "leaf"))
        allv = list(range(nv)); rng.shuffle(allv)
        if shape == "disjoint": va, vb, vc = allv[:1], allv[1:2], allv[2:3]
        elif shape == "interleaved": va, vb, vc = [0, 2], [1, nv - 1], [0, nv - 1]
        elif shape == "nested": va, vb, vc = list(range(nv)), [0], [nv - 1]
        elif shape == "sametop": va, vb, vc = [nv - 1], [0, nv - 1], [1, nv - 1]
        else: va, vb, vc = [], list(range(nv)), []
        a, b, c = on_vars(va), on_vars(vb), on_vars(vc)
        for (p, q) in ((a, b), (b, a), (b, c), (a, c)): t.B(rng.randrange(n2), p, q)
        for perm in rng.sample(list(itertools.permutations((a, b, c))), 3): t.T(rng.randrange(n3), *perm)
        out.append(t.fmt())
    for _ in range(100 * k):
        # projection of every variable set (also of variables the diagram skips), idempotent and non-idempotent leaf operation
        dom = rng.choice("us"); nv = rng.randint(2, 4)
        t = G.rand_tree(rng, dom, nv, rng.randint(2, 4), kinds="CCCB")
        top = t.n() - 1
        f = rng.choice((1, 2, 0, 3)) if dom == "u" else rng.choice((0, 1, 3))
        for mask in rng.sample(range(1 << nv), min(1 << nv, 6)): t.P(f, mask, top)
        out.append(t.fmt())
    for _ in range(100 * k):
        # renaming, prefix extension and selection; round trips: selecting the extended prefix gives the operand back
        dom = rng.choice("us"); nv = rng.randint(3, 5)
        low = rng.randint(1, nv - 1)
        t = G.rand_tree(rng, dom, low, rng.randint(1, 3), kinds="CCB")
        a = t.n() - 1
        t.nv = nv
        for o in t.ops:             # R ops were not generated (kinds), nothing depends on nv inside the ops
            assert o[0] != "R"
        off = rng.randint(t.ub[a], nv - 1)
        pre = G.rand_asgn(rng, rng.randint(0, nv - off), 0.0)
        e = t.E(pre, off, a)
        t.X(pre + "X" * (nv - off - len(pre)), off, e)        # = a when the leaf default does not interfere
        t.X(G.rand_asgn(rng, nv), rng.randint(0, nv), e)
        t.R(G.rand_renaming(rng, nv, t.ub[a]), a)
        t.Y(a)
        e2 = t.E(G.rand_asgn(rng, nv - off), off, a)
        t.B(rng.randrange(G.NOPS[dom][1]), e, e2)
        out.append(t.fmt())
    for _ in range(60 * k):
        # don't-care at every position of the construction assignment
        dom = rng.choice("us"); nv = rng.randint(1, 4)
        t = G.Tree(dom, nv)
        base = G.rand_asgn(rng, nv, 0.0)
        for i in range(nv): t.C(base[:i] + "X" + base[i + 1:], 1, 0)
        t.C(base, 1, 0); t.C("X" * nv, 1, 0); t.C(base, 0, 1)
        for i in range(nv): t.B(1 if dom == "u" else 0, i, (i + 1) % nv)
        out.append(t.fmt())
    for _ in range(150 * k):
        # large diagrams: a function accumulated from many full-length constructions (the usage pattern of the BDD automata), then combined
        dom = rng.choice("us"); nv = rng.randint(4, 5)
        t = G.Tree(dom, nv)
        n1, n2, n3 = G.NOPS[dom]
        accs = []
        for _a in range(2):
            f = rng.choice((0, 1)) if dom == "u" else rng.choice((0, 3))
            acc = t.C(G.rand_asgn(rng, nv, 0.0), rng.randrange(1, 4), 0)
            for _i in range(rng.randint(3, 8)):
                acc = t.B(f, acc, t.C(G.rand_asgn(rng, nv, 0.1), rng.randrange(1, 4), 0))
            accs.append(acc)
        x = t.B(rng.randrange(n2), accs[0], accs[1])
        t.T(rng.randrange(n3), accs[0], x, accs[1]); t.U(rng.randrange(n1), x)
        t.P(rng.choice((0, 1)), rng.randrange(1, 1 << nv), x)
        t.X(G.rand_asgn(rng, nv), rng.randint(1, nv - 1), x)
        out.append(t.fmt())
    return out

def cases(rng, tier):
    global EXH_NOTE
    cs = [(l, "corpus") for l in CORPUS]
    ex, tern, sampled = exhaustive(rng, tier)
    cs += [(l, "exhaustive") for l in ex]
    cs += [(l, "exhaustive_ternary_sampled" if sampled else "exhaustive") for l in tern]
    cs += [(l, "targeted") for l in targeted(rng, tier)]
    for _ in range(800 if tier == "quick" else 10000):
        cs.append((G.assign_default_tree(rng, rng.choice("us"), rng.choice((1, 2, 3, 4))).fmt(), "targeted_assign_default"))
    n = 6000 if tier == "quick" else 100000
    for _ in range(n):
        dom = rng.choice("us")
        nv = rng.choice((1, 2, 3, 3, 4, 4, 5)) if tier == "thorough" else rng.choice((1, 2, 3, 3, 4, 4, 4, 5))
        vals = rng.choice((None, [0, 1], [0, 1, 2]))
        cs.append((G.rand_tree(rng, dom, nv, rng.randint(2, 10), vals=vals, pdc=rng.choice((0.1, 0.34, 0.6))).fmt(), "random"))
    return cs

EXHAUSTIVE_SLICES = ("over 2 variables, leaf values {0,1}, atoms = all 18 constructions from {0,1,X}^2 with (v,d) in {(1,0),(0,1)} + 2 constants: ALL trees "
                     "atom-unary (every code), atom-project (every non-empty variable set), atom-atom-binary (4 codes per domain, both domains), "
                     "atom-atom-add-project, atom^3-ternary (3 codes) "
                     "(the run as a whole is not exhaustive)")

CORPUS = [
    "c17 u 0 K 1 C - 2 1",
    "c17 u 1 C X 2 1 C X 1 1 C 1 1 1 K 1",
    "c17 u 2 C 10 1 0 C X1 2 0 B 0 0 1 B 0 1 0 Y 2 U 3 2",
    "c17 u 3 C 10 1 0 C X1 2 0 B 0 0 1 K 3 Y 2 U 0 2 T 1 0 1 2 P 1 2 2 R 1 2 3 0 E 1 2 0 X 1X 1 2",
    "c17 s 2 C 01 5 0 C 1X 3 0 B 0 0 1 U 0 2 P 0 1 2 P 0 3 2",
    "c17 u 3 C 1X1 1 0 C X1 2 0 B 0 0 1 P 0 2 2 P 0 5 2 P 1 7 2",
    "c17 u 4 C 1 1 0 E 01 2 0 X 01 2 1 X 11 2 1 X XX 2 1 Y 0",
    "c17 u 4 C 0X1 3 1 R 1 2 3 4 0 R 0 2 3 4 0 C X0X1 3 1",
    "c17 s 3 C 1 1 0 C X1 2 0 C XX1 4 0 T 0 0 1 2 T 1 2 1 0 T 2 0 0 1",
]

import re
def flags(verd): return dict(m.groups() for m in re.finditer(r"(?:^| )([a-z]+)=(\d+)(?= |$)", "" if verd.startswith("FAIL exception") else verd))
def nontrivial(c, impl, verd):
    w = flags(verd)
    return int(w.get("handles", 0)) >= 3 and int(w.get("kinds", 0)) >= 2 and int(w.get("maxnodes", 0)) >= 2

def observe(dist, c, impl, verd):
    w = flags(verd)
    toks = c.split()
    for k in ("dom_" + toks[1], "nv_" + toks[2]): dist[k] = dist.get(k, 0) + 1
    for o in set(t for t in toks[3:] if t in ("K", "C", "Y", "A", "U", "B", "T", "P", "R", "E", "X")):
        dist["uses_" + o] = dist.get("uses_" + o, 0) + 1
    m = int(w.get("maxnodes", 0))
    b = "maxnodes_0" if m == 0 else "maxnodes_1-3" if m <= 3 else "maxnodes_4-7" if m <= 7 else "maxnodes_8+"
    dist[b] = dist.get(b, 0) + 1
    if int(w.get("eqpairs", 0)) > 0: dist["has_equal_pair"] = dist.get("has_equal_pair", 0) + 1

def shrink_candidates(c): return G.shrink17(c)

def explain(c, impl, verd):
    return ("case = c17 <leaf domain> <number of variables> then one op per handle (K v constant, C asgn v d construction, Y copy, U/B/T unary/"
            "binary/ternary apply with op code, P f mask project the variables in mask with binary op f, R renaming, E ExtendWith, X GetMtbddForPrefix); "
            "impl = V values of every handle on all 3^NV assignments (variable 0 = least significant base-3 digit, 2 = don't care), EQ matrix of "
            "operator==, P GetPaths, W/W2 leaves seen by the traversing functors; gates: value (total assignments), dcvalue (value of some "
            "refinement), eq (== iff same function), void1/void2, void2_reuse (one VoidApply2 functor re-used after a traversal it cut short with stopProcessing()); drift: dclow, paths")

LEVEL_TEXT = ("Coq theorems (all diagrams, assignments and leaf operations, no bounds) about an executable functional model of the package's reduced "
              "ordered multi-terminal diagrams that follows the code (highest variable on top, collapse of equal children, construction with "
              "don't-care positions, the classifyCase split of unary/binary/ternary apply, projection, renaming, prefix extension/selection): "
              "pointwise meaning of every operation, preservation of well-formedness, canonicity, and operator== iff same function under the "
              "store invariant of C18. Tie to the C++: the header-only templates, instantiated for two leaf types and rebuilt from /repo's working "
              "tree, are run on generated operation trees; every handle is compared with the extracted model on all 3^NV assignments, == on all "
              "pairs, the traversing functors; GetPaths and the low choice for don't-care are reported as drift.")
LEVEL_NOTE = ("Trusted: Coq kernel, ExtrOcamlBasic extraction, OCaml/C++ glue, the two copies of the leaf-operation tables, generators. The C++ is modelled, "
              "not verified; of the memo tables of the apply functors that of Apply2 is modelled (C17_apply2_memo_correct), those of Apply1 / Apply3 are not. Everything stated in DESIGN.md 5/C17 is proved in full (no _partial "
              "theorem); Project is proved structurally for every leaf operation and, as a function (combination of the two cofactors), for one removed "
              "variable and an idempotent operation (a reduced diagram skips variables, so without idempotence Project is not a function of the denoted "
              "function). The operator== theorem is under the store invariant, which is proved preserved for the operations of C18; for Project/Rename the "
              "== gate is correspondence only. GetValue's low choice at don't-care positions is drift, not gate. No axioms (closed under the global context).")
TECHNIQUE = "Coq proof of a functional model of the MTBDD package; extracted-model correspondence against the instantiated templates on generated operation trees"
DESIGN_REF = "DESIGN.md 5/C17"
READY = True
