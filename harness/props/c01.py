"""C01 — explicit tree-automata inclusion exact under all 8 selections."""
import gen
ID = "C01"
DRIVER = "c01"
MODEL = "c01"
COQ_PROPS = ["Properties_C01.v"]
COQ_EXTRACT = "Extract_C01.v"
LEVEL = "proof"
RULE = ("cases = pairs (A,B) of explicit tree automata over {a/0,b/0,g/1,f/2}(+h/3): corpus; complete slice (all A with <=2 states and <=2 rules "
        "x all B with 1 state and <=2 rules, every final set); targeted families (leaf symbol of A missing in B, quotient pairs B->image(B), "
        "near-miss pairs, non-singleton macro-states, useless states, overlapping numbers, split pairs, coherent defective copies and coinductive traps (a positive answer obtained under a cyclic hypothesis that is refuted later and asked for again), operands that are two copies of one automaton (shared transition table) with different final states); random pairs up to 4+4 states. Each case runs all 8 "
        "selections following the CLI protocol and the 4 selections without simulation also directly on the caller's operands. Non-trivial = both languages non-empty; distinct by rule/final sets of the pair")
EXHAUSTIVE_SLICES = "all A with <=2 states, <=2 rules x all B with 1 state, <=2 rules over {a/0,b/0,g/1,f/2}, every final set (the run as a whole is not exhaustive)"
TRUSTED_BASE = [
    "Coq 8.16.1 kernel (coqc, full .vo build); vm_compute only in *_refuted witnesses and Examples; no native_compute",
    "extraction: Require Extraction + ExtrOcamlBasic only; N, positive, nat stay inductive; no Extract Constant of our own; OCaml 4.13.1",
    "hand-written glue: harness/ml/common.ml.in, ta_io.ml.in, c01_main.ml, harness/drv/c01.cc + common.hh (public API, protocol of cli/operations.hh), harness/gen.py, harness/core.py",
    "modelled, not verified: the four inclusion algorithms, antichains, caches, SanitizeAutsForInclusion, ComputeSimulation as used here; tied by verdict equality with the verified decider incl_dec on generated pairs",
]
ASSUMPTIONS = ["a selection that exceeds the per-case time limit (2 s) is inconclusive (counted as `timeout` in the distribution), never a violation",
               "verdicts are obtained following the documented protocol (sanitize; with simulation: UnionDisjointStates + ComputeSimulation(n) + SetSimulation)",
               "correspondence is sampling: an input shape no generator produces is not covered; algorithms with simulation/caches are tied at function level only"]
FLAVOURS = {"quick": ["plain"], "thorough": ["plain", "asan"]}
SANITIZER_CAP = 6000

CORPUS = [
    "incl T 1 0 1 0 0 0 T 1 0 1 1 0 0",                                   # D1: {a} vs {b}
    "incl T 1 1 3 0 0 0 1 0 0 3 1 2 0 0 T 1 3 4 0 1 0 1 2 0 3 3 2 1 1 3 3 2 2 2",   # D9 pair (explicit encoding must say 0)
    "incl T 0 0 T 0 0",
    "incl T 1 0 0 T 0 0",
    "incl T 1 0 1 0 0 0 T 0 0",
    "incl T 1 0 2 0 0 0 2 0 1 0 T 2 0 1 3 0 0 0 2 1 1 0 2 0 1 1",
]

def targeted(rng):
    out = []
    for _ in range(250):   # leaf symbol missing in B / present only via another state
        a = gen.rand_ta_sized(rng, 3, 6); b = gen.rand_ta_sized(rng, 3, 6)
        b.rules = [r for r in b.rules if not (r[0] == 0 and len(r[2]) == 0)]
        if rng.random() < 0.5: b.rules.append((1, rng.randrange(3), ()))
        out.append((a, b))
    for _ in range(400): out.append(gen.quotient_pair(rng, 4, 8))
    for _ in range(400): out.append(gen.near_miss_pair(rng, 4, 8))
    for _ in range(200):   # B nondeterministic on leaves: inclusion needs non-singleton macro-states
        a = gen.rand_ta_sized(rng, 3, 7, leafbias=0.3)
        b, _ = gen.permute_states(rng, a)
        extra = gen.rand_ta(rng, 3, 4, states=sorted(b.states()) or [0])
        b.rules += extra.rules
        out.append((a, b) if rng.random() < 0.5 else (b, a))
    for _ in range(150):   # useless states on both sides, sparse overlapping numbers
        a = gen.rand_ta_sized(rng, 4, 8, pfinal=0.25); b = gen.rand_ta_sized(rng, 4, 8, pfinal=0.25)
        a, _ = gen.permute_states(rng, a, sparse=True); b, _ = gen.permute_states(rng, b, sparse=True)
        out.append((a, b))
    return out

def split_family(rng, n):
    out = []
    for _ in range(n):
        a, b = gen.split_pair(rng)
        if rng.random() < 0.3: b, _ = gen.permute_states(rng, b)
        out.append((a, b) if rng.random() < 0.85 else (b, a))
    return out

def tall_family(rng, n):
    """tall, narrow automata (sticks of 66-76 unary levels, a few side branches): the checkers recurse / stack as deep as the automaton is tall"""
    out = []
    for _ in range(n):
        N = rng.randint(66, 76)
        def stick(off, extra):
            rules = [(0, off, ())] + [(2, off + i + 1, (off + i,)) for i in range(N)]
            for _ in range(extra):
                i = rng.randrange(N); rules.append((rng.choice([2, 5]), off + i + 1, (off + rng.randrange(i + 1),)))
            return gen.TA([off + N], rules)
        a = stick(0, rng.choice([0, 0, 2]))
        b = stick(0, rng.choice([0, 1, 3]))
        if rng.random() < 0.3: b.rules.pop(rng.randrange(len(b.rules)))
        out.append((a, b))
    return out

def shared_family(rng, n):
    """both operands over ONE rule list (the driver builds them as two copies of one automaton: shared copy-on-write table) with their own final
    states; bases with duplicated states (split copies) so that inclusion holds between incomparable final sets, and states with empty language"""
    out = []
    for _ in range(n):
        k = rng.random()
        if k < 0.5: _, base = gen.split_pair(rng, maxs=3, maxr=7)
        elif k < 0.8: base = gen.rand_ta_sized(rng, 4, 8)
        else:
            base = gen.rand_ta_sized(rng, 3, 6)
            base.rules.append((2, 7, (8,)))              # state 7 has a rule over a state without rules: empty language
        st = sorted(base.states()) or [0]
        fa = [q for q in st if rng.random() < 0.35] or [rng.choice(st)]
        m = rng.random()
        if m < 0.3: fb = [q for q in st if rng.random() < 0.35]
        elif m < 0.6: fb = [q ^ 1 if (q ^ 1) in st else q for q in fa]           # the sibling copies
        elif m < 0.8: fb = [q for q in fa if rng.random() < 0.7] + [q for q in st if rng.random() < 0.2]
        else: fb = list(st)
        out.append((gen.TA(fa, base.rules), gen.TA(fb, base.rules)))
    return out

def cases(rng, tier):
    cs = [(l, "corpus") for l in CORPUS]
    bs = list(gen.enum_ta(1, 2))
    for a in gen.enum_ta(2, 2):
        for b in bs:
            cs.append(("incl %s %s" % (a.fmt(), b.fmt()), "exhaustive"))
    if tier == "quick":
        cs = cs[:len(CORPUS)] + rng.sample(cs[len(CORPUS):], 4000) if False else cs
    for (a, b) in targeted(rng): cs.append(("incl %s %s" % (a.fmt(), b.fmt()), "targeted"))
    for (a, b) in split_family(rng, 5000 if tier == "quick" else 20000): cs.append(("incl %s %s" % (a.fmt(), b.fmt()), "targeted_split"))
    for _ in range(1200 if tier == "quick" else 8000):   # a positive answer obtained under a cyclic hypothesis that is refuted later, asked for again
        a, b = gen.coinductive_trap_pair(rng)
        cs.append(("incl %s %s" % (a.fmt(), b.fmt()), "coinductive_trap"))
    for _ in range(400 if tier == "quick" else 4000):
        a, b = gen.defective_copies_pair(rng)
        cs.append(("incl %s %s" % (a.fmt(), b.fmt()), "defective_copies"))
    for _ in range(400 if tier == "quick" else 5000):   # accepting and non-accepting combinations of child macro-states in one enumeration of a rule
        a, b = gen.late_sibling_pair(rng)
        cs.append(("incl %s %s" % (a.fmt(), b.fmt()), "late_sibling"))
    for _ in range(300 if tier == "quick" else 4000):   # stored pairs pruned by the simulation preorder: the direction of the preorder matters
        a, b = gen.sim_prune_pair(rng)
        cs.append(("incl %s %s" % (a.fmt(), b.fmt()), "sim_prune"))
    for (a, b) in tall_family(rng, 3 if tier == "quick" else 60): cs.append(("incl %s %s" % (a.fmt(), b.fmt()), "tall_sticks"))
    for (a, b) in shared_family(rng, 1500 if tier == "quick" else 8000): cs.append(("incl %s %s" % (a.fmt(), b.fmt()), "shared_table"))
    n = 2000 if tier == "quick" else 20000
    for _ in range(n):
        sg = rng.choice([gen.SIGMA, gen.SIGMA, gen.SIGMA3])
        a = gen.rand_ta_sized(rng, 4, 8, sigma=sg); b = gen.rand_ta_sized(rng, 4, 9, sigma=sg)
        cs.append(("incl %s %s" % (a.fmt(), b.fmt()), "random"))
    return cs

def nontrivial(c, impl, verd): return " Anonempty" in verd and " Bnonempty" in verd
def observe(dist, c, impl, verd):
    for k in ("included", "notincluded", "Aempty", "Bempty", "timeout", "shared_table", "discriminates_shared_cache", "discriminates_careless_promotion", "discriminates_keyed_worklist", "up_sim_model_run_nonidentity", "up_sim_model_run_identity", "down_model_out_of_fuel", "down_model_run"):
        if (" " + k) in verd: dist[k] = dist.get(k, 0) + 1
def shrink_candidates(c): return gen.shrink_automata(c)
def explain(c, impl, verd):
    return ("case = incl <A> <B>; impl = V <8 verdicts: up_nosim up_sim down_nonrec_nosim down_nonrec_sim down_rec_nosim down_rec_opt_nosim "
            "down_rec_sim down_rec_opt_sim> S <sanitized A> <sanitized B> <n> I <operands afterwards>; a gate named after a selection fails when "
            "its verdict differs from the verified decider incl_dec A B (C01_gate_verdict); sanitize_lang = prepared operands changed language")

LEVEL_TEXT = ("Coq theorems (all pairs of automata, no bounds): the verdict function every selection must compute (trim both operands, decide) is true "
              "exactly when L(A) is included in L(B), hence all selections agree; the boolean gate applied to each reported verdict decides the "
              "property; preparation that keeps the operands' languages keeps the verdict; (A) the recursive downward algorithm with choice functions and a coinductive workset is partially correct for every fuel (an answer is the truth), also with a simulation preorder, with the cache of positive answers scoped to one expansion (one cache shared by all levels is refuted by a closed witness) and with the implication cache of the opt selections (antecedents and consequents, promotion to the global cache only with an empty antecedent; careless promotion refuted); comparing final states is a sufficient, not a necessary test for operands sharing a table; (A) the upward saturation with antichain pruning (new macro pairs subsumed by stored ones are skipped) gives the verdict of the full subset construction; the leaf branch of the non-recursive downward checker as "
              "fixed is exact and as it was (defect D1) is refuted by a vm_compute witness. Tie to the C++: libvata rebuilt from /repo runs all 8 "
              "selections through the documented protocol on generated pairs (complete small slice + targeted + random) and every verdict is "
              "compared with the extracted verified decider.")
LEVEL_NOTE = ("Apart from the recursive downward algorithm (with / without preorder, with the positive cache, with the implication cache; termination not proved: fuel; subsumption by set inclusion only), the antichain-pruned upward saturation (identity preorder, contains-test only) and the leaf branch, the inclusion algorithms (the negative cache, refine, the lte cache keyed by addresses, the non-recursive stack emulation) are modelled at function level only: the theorem "
              "fixes the function, the tie is verdict equality on generated pairs. Trusted: Coq kernel, ExtrOcamlBasic extraction, OCaml/C++ glue, "
              "generators. No axioms (closed under the global context).")
TECHNIQUE = "Coq proof (verified inclusion decider + verdict gate); extracted-model correspondence on all 8 selections"
DESIGN_REF = "DESIGN.md 5/C01"
def kf_none(c, impl, verd, k): return False
READY = True
