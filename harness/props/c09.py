"""C09 — NFA inclusion is exact for the antichain algorithm and the congruence algorithm (depth / breadth), all agree."""
import gen, gen_nfa
ID = "C09"
DRIVER = "c09"
MODEL = "c09"
COQ_PROPS = ["Properties_C09.v"]
COQ_EXTRACT = "Extract_C09.v"
LEVEL = "proof"
RULE = ("cases = pairs (smaller, bigger) of NFAs over letters {0,1} (some families 3 letters / a one-sided letter), built through the Timbuk "
        "loader or the facade setters; every case asks ExplicitFiniteAut::CheckInclusion for alg=antichains, alg=congr order=depth, "
        "alg=congr order=breadth (sim=no), on the operands as built (overlapping state numbers) and on operands sanitized first as the "
        "CLI does; streams: corpus (triggers of D5, D6, boundary cases), all pairs of NFAs with <=2 states and <=2 edges over 2 letters "
        "(up to the swap of the two states), a seeded sample of <=2-state/<=4-edge pairs, targeted families (epsilon in L, several "
        "start states, incomparable macro-states, one-sided symbols, unreachable/dead states, quotient and near-miss pairs, "
        "disjoint numbering, operands that are two copies of one automaton (shared transition table) with their own start/final states), random pairs up to 4+4 states; a case is non-trivial when L(smaller) is non-empty (distinct by case text)")
TRUSTED_BASE = [
    "Coq 8.16.1 kernel (coqc, full .vo build); vm_compute only in the *_refuted witnesses and Examples; no native_compute",
    "extraction: Require Extraction + ExtrOcamlBasic only; N, positive, nat stay inductive; no Extract Constant of our own; OCaml 4.13.1",
    "hand-written glue: harness/ml/common.ml.in, nfa_io.ml.in, c09_main.ml (parsing/printing), harness/drv/c09.cc + nfa_common.hh + common.hh "
    "(builds the operands, calls the public CheckInclusion, prints the verdicts), harness/gen.py, harness/gen_nfa.py, harness/core.py",
    "modelled, not verified: src/explicit_finite_incl.cc and the functors it instantiates; the antichain algorithm with its memo tables is "
    "modelled and proved (algorithmic model), the congruence closure is tied behaviourally: every verdict of every selection is compared "
    "with the verified decider on generated inputs",
]
ASSUMPTIONS = ["sim=no selections only (ANTICHAINS_NOSIM, CONGR_DEPTH_NOSIM, CONGR_BREADTH_NOSIM): these are what the CLI options alg/order select",
               "correspondence is sampling: an input shape no generator produces is not covered"]
FLAVOURS = {"quick": ["plain"], "thorough": ["plain", "asan"]}
EXHAUSTIVE_SLICES = ("all pairs of NFAs with states {0,1}, <=2 edges over 2 letters, every start/final set, one representative per swap of the "
                     "two states (automata without start resp. without final states: one representative each): 171 x 171 pairs in the quick "
                     "tier; the thorough tier enumerates the labelled automata without the swap reduction (335 x 335 pairs; automata without start "
                     "resp. without final states still one representative each); the run as a whole is not exhaustive")

CORPUS = [
    # boundaries
    "incl L W 0 0 0 W 0 0 0",
    "incl L W 1 0 1 0 0 W 0 0 0",
    "incl F W 1 0 1 0 0 W 1 0 1 0 0",
    "incl L W 1 0 1 0 1 0 0 0 W 1 0 1 1 2 0 0 1 1 0 1",
    "incl L W 1 0 1 1 2 0 0 1 1 0 1 W 1 0 1 0 1 0 0 0",
    "incl F W 1 0 1 1 1 0 0 1 W 1 0 1 1 1 0 1 1",
    "incl L W 2 0 1 1 1 1 0 0 1 W 1 0 1 1 1 0 0 1",
    # D6: operands sharing state numbers (every freshly built pair does); minimised failures of the code before 365b24d4
    "incl F W 1 0 1 0 2 0 0 0 0 0 1 W 2 0 1 2 0 1 2 0 0 1 1 1 1",
    "incl L W 1 0 1 0 1 1 0 0 W 2 0 1 2 0 1 2 0 0 1 0 1 1",
    "incl L W 1 0 0 0 W 0 1 0 0",
    "incl F W 1 0 1 0 1 0 0 0 W 2 0 1 2 0 1 2 0 0 1 0 1 1",
    "incl L W 1 0 1 1 2 0 0 0 0 1 1 W 2 0 1 2 0 1 2 0 0 0 1 1 0",
    "incl F W 1 0 1 1 2 0 1 1 1 0 1 W 2 0 1 2 0 1 2 0 0 1 0 1 0",
    # D5: incomparable macro-states met by the same state of the smaller automaton, compared in both orders;
    # minimised failures (wrong "included" / no termination) of the code before 7ca3f30b
    "incl F W 2 0 1 1 0 2 0 0 1 1 0 0 W 1 0 1 0 2 0 0 1 1 0 0",
    "incl L W 1 0 1 0 2 0 0 0 0 1 0 W 2 0 1 2 0 1 2 0 0 1 0 1 0",
    "incl F W 1 0 1 0 2 0 0 0 0 1 0 W 2 0 1 2 0 1 2 0 0 0 0 1 1",
    "incl F W 1 0 1 1 3 0 0 1 1 0 1 1 1 1 W 1 1 3 0 1 2 5 1 0 1 0 1 0 1 0 0 2 0 1 1 1 2",
    "incl F W 1 0 1 1 6 0 0 0 0 0 1 0 1 0 0 1 1 1 0 1 1 1 1 W 2 0 1 3 0 1 2 6 1 0 1 0 1 0 1 0 0 2 0 1 2 1 2 1 1 2",
]

def line(rng, a, b):
    return "incl %s %s %s" % (rng.choice("LF"), a.fmt(), b.fmt())

def cases(rng, tier):
    cs = [(l, "corpus") for l in CORPUS]
    if tier == "quick":
        sl = gen_nfa.slice2(2)
    else:
        sl = gen_nfa.slice2(2, iso=False, keep_trivial=False)
    for a in sl:
        for b in sl:
            cs.append((line(rng, a, b), "exhaustive"))
    s4 = gen_nfa.slice2(4)
    for _ in range(3000 if tier == "quick" else 60000):
        cs.append((line(rng, rng.choice(s4), rng.choice(s4)), "sample_2state_4edge"))
    for fam, a, b in gen_nfa.targeted_pairs(rng, 150 if tier == "quick" else 3000):
        cs.append((line(rng, a, b), fam))
    for _ in range(400 if tier == "quick" else 8000):
        a, b = gen_nfa.incomparable_macro(rng); cs.append((line(rng, a, b), "incomparable"))
    for _ in range(1500 if tier == "quick" else 20000):
        # both operands over ONE edge list (the driver builds them as two copies of one automaton: shared copy-on-write table) with their own
        # start and final states
        base = gen.rand_nfa_sized(rng, 4, 8, rng.choice([2, 2, 3]))
        if not base.edges: continue
        st = sorted(base.states())
        a = base.copy()
        b = base.copy()
        r = rng.random()
        if r < 0.35: a.starts = a.starts + [rng.choice(st)]                       # the copy got a further start state
        elif r < 0.55: b.starts = b.starts + [rng.choice(st)]
        elif r < 0.75: a.finals = [q for q in st if rng.random() < 0.4]; b.finals = [q for q in st if rng.random() < 0.4]
        else: a.starts = [q for q in st if rng.random() < 0.4]; b.starts = [q for q in st if rng.random() < 0.4]; b.finals = b.finals + [rng.choice(st)]
        cs.append(("incl F %s %s" % (a.fmt(), b.fmt()), "shared_table"))
    for _ in range(120 if tier == "quick" else 600):
        # many start states (the start-state set is iterated in hash order and rehashed as it grows): some of them final, the empty word (or a
        # one-letter word) the only possible counterexample; and few start states in front of a long chain of further states
        k = rng.choice([2, 3, 4, 11, 12, 16, 17, 20])
        ids = rng.sample(range(1, 90), k) if rng.random() < 0.5 else list(range(1, k + 1))
        fs = [q for q in ids if rng.random() < 0.1] or [rng.choice(ids)]             # final start states: no transitions
        if rng.random() < 0.5: fs = [rng.choice(ids)]
        n = rng.choice([1, 1, 3, 12, 13, 14]); base = 2000
        edges = [(q, 0, base + 1) for q in ids if q not in fs] + [(base + i, 0, base + i + 1) for i in range(1, n)]
        a = gen.NFA(ids, fs + [base + n], edges)
        # B = A without the final start states: L(B) = L(A) minus the empty word; in a third of the cases B accepts the empty word as well
        b = gen.NFA([q for q in ids if q not in fs], [base + n], edges)
        if rng.random() < 0.33: b.starts = b.starts + [3000]; b.finals = b.finals + [3000]
        if not b.starts: b.starts = [3001]
        if rng.random() < 0.1: a, b = b, a
        cs.append((line(rng, a, b), "many_starts"))
    n = 4000 if tier == "quick" else 80000
    for _ in range(n):
        ns = rng.choice([2, 2, 3])
        a = gen.rand_nfa_sized(rng, 4, 8, ns); b = gen.rand_nfa_sized(rng, 4, 8, ns)
        r = rng.random()
        if r < 0.2: b = gen_nfa.shift(b, 7)
        elif r < 0.4: a = gen_nfa.permute(rng, a, sparse=True)
        cs.append((line(rng, a, b), "random"))
    return cs

def nontrivial(c, impl, verd):
    return " Anonempty" in verd

def observe(dist, c, impl, verd):
    for k in ("incl", "notincl", "Aempty", "Anonempty", "dead"):
        if (" " + k) in verd: dist[k] = dist.get(k, 0) + 1
    for w in verd.split():
        if w.startswith("sb="): dist["statesB_" + w[3:]] = dist.get("statesB_" + w[3:], 0) + 1
    m = "build_loader" if c.startswith("incl L") else "build_setters"
    dist[m] = dist.get(m, 0) + 1

def shrink_candidates(c): return gen.shrink_automata(c)

def explain(c, impl, verd):
    return ("case = incl <L loader|F facade setters> <smaller> <bigger>, automaton = W nstarts starts nfinals finals nedges {src sym dst}; impl = "
            "R <antichains> <congr depth> <congr breadth> (operands as built) S <the same three on operands sanitized first, as the CLI does> "
            "I <operands afterwards>; gate names raw_/san_ + selection: the reported verdict differs from the verified decider wincl_dec "
            "(proved: true iff every word accepted by smaller is accepted by bigger); _exc: the call threw")

LEVEL_TEXT = ("Coq theorems for all pairs of NFAs: the verdict function of the three selections (sanitize both operands, then antichains resp. "
              "equivalence of smaller+bigger with bigger) is true exactly when L(smaller) is included in L(bigger), and the selections agree; "
              "an algorithmic model of the antichain algorithm as coded (worklist ordered by macro-state size, antichain refinement, the two "
              "memo tables of macro-state comparisons) is proved to return the same verdict for every input, with the memo tables proved sound "
              "for the current filling and refuted (vm_compute witness) for the historical one; an algorithmic model of the congruence algorithm (bisimulation up to congruence on the union automaton: pairs of macro-states, the closure test by rewriting to a normal form, successors scheduled depth-first or breadth-first) is proved partially correct for every fuel and order (an answer is the truth; key lemma: a relation progressing into its own congruence closure lies inside language equivalence); the gate (reported verdict = verified decider) "
              "is proved to decide 'the verdict is the truth'. Tie to the C++: libvata rebuilt from /repo's working tree answers the three "
              "selections on generated pairs, raw and pre-sanitized, and every verdict is judged by the extracted decider.")
LEVEL_NOTE = ("Trusted: Coq kernel, ExtrOcamlBasic extraction, OCaml/C++ glue, generators. The congruence algorithm is modelled with its relation, todo list and rewriting closure test, without the used-rule cache keyed by "
              "macro-state addresses and without termination (fuel); the antichain algorithm is modelled with its worklist and memo tables but "
              "hash iteration orders and pointer-keyed caches are abstracted (proof is order-agnostic). No axioms.")
TECHNIQUE = "Coq proof of verdict model + algorithmic antichain and congruence (HKC) models + verified decider; extracted-model correspondence against libvata on generated NFA pairs"
DESIGN_REF = "DESIGN.md 5/C09"
READY = True
