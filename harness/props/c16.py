"""C16 — the LTS simulation engine returns the greatest simulation inside a given initial partition/preorder."""
import gen_sim as gs
ID = "C16"
DRIVER = "c16"
MODEL = "c16"
COQ_PROPS = ["Properties_C16.v"]
COQ_EXTRACT = "Extract_C16.v"
LEVEL = "proof"
RULE = ("cases = labelled transition systems over states 0..n-1 (1-8 states, 1-3 labels incl. label numbers with gaps, parallel edges, "
        "states without outgoing/incoming/any edges) with an initial partition into non-empty blocks and a reflexive-transitive relation "
        "on the blocks (or no partition: the two default entry points); every case is run for every output size 0..n. Streams: corpus, the "
        "complete slice (all systems with 2 states and <=2 labels x all partitions x all block preorders, and the same for 3 states / 1 label), "
        "eight targeted families (missing labels, chains, parallel edges, near-copies, singleton blocks, isolated states/label gaps, dense 8-state "
        "systems, cycles), random systems. A case is non-trivial when the result is a strict subset of the initial relation and still "
        "relates two different states (distinct by case line)")
TRUSTED_BASE = [
    "Coq 8.16.1 kernel (coqc, full .vo build); vm_compute only in Examples; no native_compute",
    "extraction: Require Extraction + ExtrOcamlBasic only; N, positive, nat stay inductive; no Extract Constant of our own; OCaml 4.13.1",
    "hand-written glue: harness/ml/common.ml.in, c16_main.ml (parsing/printing, loops over output sizes), harness/drv/c16.cc + common.hh "
    "(builds the ExplicitLTS, calls computeSimulation, prints get(i,j) for i,j < size()), harness/gen_sim.py, harness/core.py",
    "modelled at the level of the function it must compute, not verified and not modelled algorithmically: src/explicit_lts_sim.cc "
    "(SimulationEngine: splitting, counters, remove queues), include/vata/explicit_lts.hh, src/util/splitting_relation.hh, shared_counter.hh, "
    "shared_list.hh, caching_allocator.hh, smart_set.hh, BinaryRelation; tied by exact comparison of the returned relation on generated inputs",
]
ASSUMPTIONS = ["an ExplicitLTS may be extended by addTransition over labels it already has after init() and initialised again (the driver builds every second object in two such phases); a label that first appears after init() is not used that way (init() does not support it on the unchanged sources)", 
    "inputs satisfy the engine's documented preconditions (isPartition, isConsistent in explicit_lts_sim.cc; asserts are compiled out): "
    "blocks non-empty, every state below states() in exactly one block, block relation reflexive; generated block relations are also transitive "
    "as the property says; the model main re-checks this on every case (gate badcase)",
    "output sizes 0..n only (ComputeSimulation of the tree automata never asks for more than states())",
    "correspondence is sampling: an input shape no generator produces is not covered",
]
FLAVOURS = {"quick": ["plain"], "thorough": ["plain", "asan"]}
EXHAUSTIVE_SLICES = ("all LTSs with 2 states over 1 and 2 labels (every edge set) x every partition x every block preorder x every output size; "
                     "all LTSs with 3 states over 1 label likewise (the run as a whole is not exhaustive)")

CORPUS = [
    "lts 0 0 P 0 R 0",
    "ltsd 0 0",
    "lts 1 0 P 1 1 0 R 1 0 0",
    "ltsd 1 0",
    "ltsd 1 1 0 0 0",
    "ltsd 3 0",
    # label numbers with a gap (label 1 never used) and an isolated state
    "lts 3 2 0 0 1 1 2 1 P 2 2 0 2 1 1 R 3 0 0 1 1 0 1",
    # the example of Properties_C16.v
    "lts 3 4 0 0 1 1 0 1 2 0 0 2 1 2 P 2 2 0 2 1 1 R 3 0 0 0 1 1 1",
    # parallel edges: counter must be decremented once per edge
    "lts 3 5 0 0 1 0 0 1 0 0 2 1 1 1 2 0 2 P 1 3 0 1 2 R 1 0 0",
    "ltsd 4 6 0 0 1 1 0 2 2 0 3 3 1 3 0 0 1 0 1 0",
    # chain of length 8: the difference at the end travels back through all states
    "ltsd 8 8 0 0 1 1 0 2 2 0 3 3 0 4 4 0 5 5 0 6 6 0 7 7 1 7",
    # block relation that is a strict linear order 2 < 0 < 1
    "lts 3 3 0 0 1 1 0 2 2 0 0 P 3 1 1 1 2 1 0 R 6 0 0 1 1 2 2 2 0 0 1 2 1",
    # shrunk triggers of seeded mutations in a scratch copy (parallel edges decremented once; no initial pruning by missing
    # labels; counters initialised over unrelated blocks; new block not marked for removal; counter zero test off by one)
    "ltsd 4 5 0 0 1 1 0 2 2 0 3 3 1 3 0 0 1",
    "lts 2 1 0 0 1 P 2 1 0 1 1 R 3 0 0 0 1 1 1",
    "lts 3 3 0 0 1 0 0 2 1 0 0 P 2 2 0 1 1 2 R 2 0 0 1 1",
    "lts 3 2 0 0 1 2 0 2 P 1 3 0 1 2 R 1 0 0",
    "ltsd 8 3 4 0 5 5 0 6 6 0 7",
    "lts 3 2 0 0 2 1 0 0 P 2 2 0 1 1 2 R 2 0 0 1 1",
    "lts 7 5 6 0 0 5 2 6 4 0 3 3 1 0 1 2 4 P 1 7 3 5 6 1 4 2 0 R 1 0 0",
]

def cases(rng, tier):
    out = [(l, "corpus") for l in CORPUS]
    for c in gs.lts_exhaustive(2, 1): out.append((c.fmt(), "exhaustive"))
    for c in gs.lts_exhaustive(2, 2): out.append((c.fmt(), "exhaustive"))
    for c in gs.lts_exhaustive(3, 1): out.append((c.fmt(), "exhaustive"))
    for c in gs.lts_targeted(rng, 6000 if tier == "quick" else 60000): out.append((c.fmt(), "targeted"))
    n = 16000 if tier == "quick" else 120000
    for i in range(n):
        out.append((gs.rand_lts_case(rng, 8, default=(i % 8 == 0)).fmt(), "random"))
    # larger systems: more than 31 (label, source) pairs, so that the engine's shared counters span several rows and blocks are split repeatedly
    for i in range(150 if tier == "quick" else 4000):
        out.append((gs.rand_lts_case(rng, 36, default=(i % 4 == 0), minn=12, maxlabels=6).fmt(), "random_large"))
    # a small core plus padding states with self-loops: the core's (label, state) counters end up alone in a row of the shared counter table
    for i in range(1500 if tier == "quick" else 8000):
        nc = rng.randint(3, 7); npad = rng.randint(24, 34); n = nc + npad
        nl = rng.randint(1, 3)
        es = []
        for e in gs.rand_edges(rng, nc, nl, rng.randint(nc, 3 * nc)):
            es.append(e)
            while rng.random() < 0.3: es.append(e)               # parallel edges: counters >= 2 for one successor
        es += [(q, rng.randrange(nl) if rng.random() < 0.2 else 0, q) for q in range(nc, n) if rng.random() < 0.95]
        perm = list(range(n)); rng.shuffle(perm)
        if rng.random() < 0.5: perm = list(range(n))
        es = [(perm[s], a, perm[d]) for (s, a, d) in es]
        if i % 3 == 0: out.append((gs.LtsCase(n, es).fmt(), "targeted_padded"))
        else:
            part = gs.rand_partition(rng, n, rng.randint(1, 3))
            out.append((gs.LtsCase(n, es, part, gs.rand_preorder(rng, len(part))).fmt(), "targeted_padded"))
    # few labels, many parallel edges, coarse partitions with a small block relation (collapsed counter rows while blocks are still split)
    for i in range(4000 if tier == "quick" else 40000): out.append((gs.parallel_edges_case(rng).fmt(), "targeted_parallel_edges"))
    return out

def nontrivial(c, impl, verd):
    return " refined" in verd and " nonid" in verd

def observe(dist, c, impl, verd):
    for w in verd.split():
        if w in ("refined", "unrefined", "nonid", "id") or w.startswith("n=") or w.startswith("labels=") or w.startswith("kind=") or w.startswith("algo="):
            dist[w] = dist.get(w, 0) + 1
        elif w.startswith("blocks="):
            k = int(w[7:]); b = "blocks=1" if k == 1 else "blocks=2-3" if k <= 3 else "blocks>=4"
            dist[b] = dist.get(b, 0) + 1
        elif w.startswith("edges="):
            k = int(w[6:]); b = "edges=0" if k == 0 else "edges<=5" if k <= 5 else "edges<=12" if k <= 12 else "edges>12"
            dist[b] = dist.get(b, 0) + 1

def shrink_candidates(c): return gs.shrink_lts(c)

def explain(c, impl, verd):
    return ("case = lts <n> <#edges> {src label dst}* P <#blocks> {<size> members}* R <#pairs> {block block}* (ltsd: no partition); "
            "impl = for each output size m: O m S <size() of the returned relation> <#pairs> {q r}* (F = computeSimulation() without size); "
            "gates: exact = the reported pairs are exactly the pairs below m of the greatest simulation contained in the initial relation "
            "(Coq: C16_gate_lts / C16_gate_lts_default); size = size() equals m; badcase = generated input outside the preconditions")

LEVEL_TEXT = ("Coq theorems (all LTSs, partitions and block relations, no bounds) about the function the engine must compute: the result is the "
              "greatest simulation contained in the initial relation {(q,r) | block(q) rel block(r)}, it is reflexive and transitive for a partition "
              "with a reflexive-transitive block relation, the default entry point yields the greatest simulation preorder, and the output "
              "restriction reports exactly the pairs below the requested size; plus a theorem that the boolean gate used on libvata's output "
              "holds iff the output is that relation. Tie to the C++: the engine rebuilt from /repo's working tree is driven directly "
              "(addTransition/init/computeSimulation) on generated systems for every output size and its relation is compared exactly.")
LEVEL_NOTE = ("The engine's refinement algorithm (src/explicit_lts_sim.cc) is modelled at the level of states (every block a singleton): pruning "
              "by enabled labels, remove sets, the queue, and the counters are proved partially correct for every fuel and queue discipline "
              "(C16_algo_*, C16_counters_*; counters computed before the pruning are refuted); the splitting of blocks and the shared-counter "
              "storage are NOT modelled. The gate is the functional model: the tie to the C++ is behavioural (exact equality of the "
              "returned relation on generated inputs, distribution in the evidence; the algorithmic models are executed on the small systems "
              "and compared with the functional model as drift). Trusted: Coq kernel, ExtrOcamlBasic extraction, OCaml/C++ "
              "glue, generators. No axioms (Print Assumptions: closed under the global context).")
TECHNIQUE = "Coq proof of a functional model (greatest fixpoint by refinement) + verified gate; extracted-model correspondence against the engine driven directly"
DESIGN_REF = "DESIGN.md 5/C16"
EXPLANATION = "the API contract fixes the returned relation, so equality with the functional model is the gate; drift = the extracted models of the refinement algorithm (remove sets, counters) disagree with the functional model on a small system (never observed)"
READY = True
