"""C12 — rule container, iterators and lookups reflect exactly the rules added."""
import itertools
ID = "C12"
DRIVER = "c12"
MODEL = "c12"
COQ_PROPS = ["Properties_C12.v"]
COQ_EXTRACT = "Extract_C12.v"
LEVEL = "proof"
RULE = ("cases = sequences of AddTransition (both overloads) / SetStateFinal / SetStatesFinal / EraseFinalStates / Clear on one "
        "ExplicitTreeAut through the public facade, interleaved with full reads (range-for, GetFinalStates, GetAcceptTrans, GetUsedStates, "
        "AreTransitionsEmpty, operator[] + empty() for listed states, IsStateFinal, ContainsTransition (both overloads) for listed probe rules); "
        "corpus, the complete slice of all sequences of <=3 mutating ops over a 9-op universe with a read after every op, targeted families "
        "(accepting-transition layouts, fat clusters, near-miss probes, clear-and-refill, one symbol with several arities) and random sequences "
        "up to 30 ops; a case is non-trivial when at least two distinct rules are live at some read and it exercises a repeated rule, a nullary "
        "rule, a multi-arity symbol, a final state without rules or a read after Clear/EraseFinalStates")
TRUSTED_BASE = [
    "Coq 8.16.1 kernel (coqc, full .vo build); no vm_compute/native_compute in the C12 theorems",
    "extraction: Require Extraction + ExtrOcamlBasic only; N, positive, nat stay inductive; no Extract Constant of our own; OCaml 4.13.1",
    "hand-written glue: harness/ml/common.ml.in, c12_main.ml (parsing, calling the extracted gates, flags), harness/drv/c12.cc + common.hh "
    "(calls the public facade, prints every view sorted with duplicates kept), harness/props/c12.py, harness/core.py",
    "modelled, not verified: src/explicit_tree_aut_core.hh/.cc (nested unordered_map/set store, Iterator, AcceptTransIterator, DownAccessor, "
    "ContainsTransition, GetUsedStates, Clear), src/explicit_tree_aut.cc; tied by the gates (= the property clauses, proved equivalent to "
    "multiset equality with the nested-store model) on generated op sequences",
]
ASSUMPTIONS = ["one automaton per case, no structural sharing (sharing is C11's subject)",
               "hash-consing of tuples (Util::Cache) is observed only through set membership; its memory protocol belongs to C20",
               "correspondence is sampling: an op-sequence shape no generator produces is not covered"]
FLAVOURS = {"quick": ["plain"], "thorough": ["plain", "asan"]}

def rl(r): return "%d %d %d%s" % (r[0], r[1], len(r[2]), "".join(" %d" % c for c in r[2]))

def fmt(steps):
    out = ["c12", str(len(steps))]
    for s in steps:
        k = s[0]
        if k in ("A", "T"): out.append(k + " " + rl(s[1]))
        elif k == "F": out.append("F %d" % s[1])
        elif k == "G": out.append("G %d%s" % (len(s[1]), "".join(" %d" % q for q in s[1])))
        elif k in ("E", "C", "Y", "W"): out.append(k)
        elif k == "Z": out.append("Z " + rl(s[1]))
        elif k == "H": out.append("H %d" % s[1])
        elif k == "R": out.append("R %d%s %d%s" % (len(s[1]), "".join(" %d" % q for q in s[1]), len(s[2]), "".join(" " + rl(r) for r in s[2])))
    return " ".join(out)

def parse(line):
    t = line.split(); assert t[0] == "c12"
    n = int(t[1]); i = 2; steps = []
    def rule():
        nonlocal i
        s, p, k = int(t[i]), int(t[i + 1]), int(t[i + 2]); i += 3
        cs = tuple(int(x) for x in t[i:i + k]); i += k
        return (s, p, cs)
    for _ in range(n):
        k = t[i]; i += 1
        if k in ("A", "T"): steps.append((k, rule()))
        elif k == "F": steps.append(("F", int(t[i]))); i += 1
        elif k == "G":
            m = int(t[i]); i += 1; steps.append(("G", [int(x) for x in t[i:i + m]])); i += m
        elif k in ("E", "C", "Y", "W"): steps.append((k,))
        elif k == "Z": steps.append(("Z", rule()))
        elif k == "H": steps.append(("H", int(t[i]))); i += 1
        elif k == "R":
            m = int(t[i]); i += 1; ds = [int(x) for x in t[i:i + m]]; i += m
            m = int(t[i]); i += 1; ps = [rule() for _ in range(m)]
            steps.append(("R", ds, ps))
    return steps

def near_misses(rng, r, states, syms):
    s, p, cs = r
    out = [r, (rng.choice(syms), p, cs), (s, rng.choice(states), cs)]
    if cs:
        out.append((s, p, cs[:-1])); out.append((s, p, tuple(reversed(cs))))
        j = rng.randrange(len(cs)); out.append((s, p, cs[:j] + (rng.choice(states),) + cs[j + 1:]))
    out.append((s, p, cs + (rng.choice(states),)))
    return out

def full_read(rng, steps, states, syms, nprobe=6):
    added = [s[1] for s in steps if s[0] in ("A", "T")]
    ps = []
    for r in (rng.sample(added, min(len(added), nprobe)) if added else []):
        ps += rng.sample(near_misses(rng, r, states, syms), 3) + [r]
    if not ps: ps = [(syms[0], states[0], ())]
    ds = sorted(set(states) | {p for (_, p, _) in added})[:8]
    return ("R", ds, ps)

# ---- exhaustive slice: all sequences of <= L mutating ops over a tiny universe, read after every op ----
UNI_RULES = [(0, 0, ()), (0, 0, (0,)), (0, 1, (0,)), (1, 1, (0, 1))]
UNI = [("A", r) for r in UNI_RULES] + [("F", 0), ("F", 1), ("G", [0, 1]), ("E",), ("C",)]
UNI_READ = ("R", [0, 1, 2], UNI_RULES + [(1, 0, ()), (1, 1, (0,)), (0, 1, (0, 0)), (1, 1, (1, 0))])
def exhaustive(L):
    for n in range(0, L + 1):
        for seq in itertools.product(UNI, repeat=n):
            steps = [UNI_READ]
            for s in seq: steps += [s, UNI_READ]
            yield fmt(steps)
EXHAUSTIVE_SLICES = ("all sequences of <=3 (quick) / <=4 (thorough) mutating ops over {4 rules incl. a nullary one, one symbol with arities 0 and 1, "
                     "SetStateFinal 0/1, SetStatesFinal{0,1}, EraseFinalStates, Clear}, all views read before and after every op "
                     "(the run as a whole is not exhaustive)")

def targeted(rng, n):
    out = []
    for _ in range(n):
        fam = rng.randrange(5)
        states = list(range(rng.randint(2, 6))); syms = list(range(rng.randint(1, 4)))
        steps = []
        if fam == 0:
            # accepting-transition layouts: k finals, an arbitrary subset owns rules (first / last / none / all)
            k = rng.randint(1, 5); fin = rng.sample(range(0, 12), k); states = sorted(set(states) | set(fin))
            owners = [f for f in fin if rng.random() < rng.choice([0.2, 0.5, 0.9])]
            if rng.random() < 0.2: owners = [min(fin)] if rng.random() < 0.5 else [max(fin)]
            for q in owners + [q for q in states if rng.random() < 0.3]:
                for _ in range(rng.randint(1, 3)):
                    a = rng.choice(syms)
                    for _ in range(rng.randint(1, 3)):
                        steps.append(("A", (a, q, tuple(rng.choice(states) for _ in range(rng.randint(0, 2))))))
            rng.shuffle(steps)
            for f in fin:
                steps.insert(rng.randint(0, len(steps)), ("F", f) if rng.random() < 0.7 else ("G", [f]))
        elif fam == 1:
            # fat clusters: several parents x several symbols x several tuples (every branch of operator++)
            for q in rng.sample(states, rng.randint(1, len(states))):
                for a in rng.sample(syms, rng.randint(1, len(syms))):
                    for _ in range(rng.randint(1, 4)):
                        steps.append((rng.choice(["A", "T"]), (a, q, tuple(rng.choice(states) for _ in range(rng.randint(0, 3))))))
            if rng.random() < 0.5: rng.shuffle(steps)
            steps.append(("G", rng.sample(states, rng.randint(0, len(states)))))
        elif fam == 2:
            # one symbol with several arities, repeated rules, nullary rules
            a = rng.choice(syms)
            for _ in range(rng.randint(3, 10)):
                r = (a, rng.choice(states), tuple(rng.choice(states) for _ in range(rng.randint(0, 3))))
                steps.append(("A", r))
                if rng.random() < 0.4: steps.append(("T", r))
            steps.append(("F", rng.choice(states)))
        elif fam == 3:
            # clear and refill; erase finals and re-set; reads in between
            for phase in range(rng.randint(2, 4)):
                for _ in range(rng.randint(0, 5)):
                    steps.append(("A", (rng.choice(syms), rng.choice(states), tuple(rng.choice(states) for _ in range(rng.randint(0, 2))))))
                for _ in range(rng.randint(0, 2)): steps.append(("F", rng.choice(states)))
                steps.append(full_read(rng, steps, states, syms))
                steps.append(rng.choice([("C",), ("E",), ("C",)]))
                steps.append(full_read(rng, steps, states, syms))
        else:
            # finals without rules, sparse state numbers, empty SetStatesFinal
            states = rng.sample(range(0, 1000), rng.randint(2, 5))
            for _ in range(rng.randint(0, 4)):
                steps.append(("A", (rng.choice(syms), rng.choice(states), tuple(rng.choice(states) for _ in range(rng.randint(0, 2))))))
            steps.append(("G", []))
            steps.append(("G", rng.sample(states, rng.randint(1, len(states))) + [rng.randrange(1000, 1100)]))
            if rng.random() < 0.3: steps.append(("E",)); steps.append(("F", rng.choice(states)))
        steps.append(full_read(rng, steps, states, syms))
        out.append(fmt(steps))
    return out

def bystander_seq(rng):
    """a copy of the automaton (sharing its copy-on-write storage at every level) is extended on its own, under parents and symbols the
    automaton already has, while the automaton itself is extended and read: rules given to the copy must never show in the automaton"""
    states = list(range(rng.randint(2, 5))); syms = list(range(rng.randint(1, 3)))
    def rule(): return (rng.choice(syms), rng.choice(states), tuple(rng.choice(states + [7, 8]) for _ in range(rng.choice([0, 1, 1, 2]))))
    steps = [("A", rule()) for _ in range(rng.randint(2, 6))]
    if rng.random() < 0.5: steps.append(("F", rng.choice(states)))
    steps.append(("Y",))
    for _ in range(rng.randint(2, 8)):
        x = rng.random()
        if x < 0.5: steps.append(("Z", rule()))
        elif x < 0.7: steps.append(("A", rule()))
        elif x < 0.78: steps.append(("W",))
        elif x < 0.84: steps.append(("H", rng.choice(states)))
        elif x < 0.9: steps.append(("Y",))
        else: steps.append(full_read(rng, steps, states, syms, 3))
    steps.append(full_read(rng, steps, states, syms))
    return fmt(steps)

def rand_seq(rng, maxlen):
    states = list(range(rng.randint(1, 5))) if rng.random() < 0.8 else rng.sample(range(0, 200), rng.randint(1, 5))
    syms = list(range(rng.randint(1, 4)))
    steps = []
    pool = []
    for _ in range(rng.randint(0, maxlen)):
        x = rng.random()
        if x < 0.55:
            if pool and rng.random() < 0.25: r = rng.choice(pool)
            else: r = (rng.choice(syms), rng.choice(states), tuple(rng.choice(states) for _ in range(rng.choice([0, 0, 1, 1, 2, 3]))))
            pool.append(r); steps.append((rng.choice(["A", "A", "T"]), r))
        elif x < 0.70: steps.append(("F", rng.choice(states)))
        elif x < 0.76: steps.append(("G", rng.sample(states, rng.randint(0, len(states)))))
        elif x < 0.81: steps.append(("E",))
        elif x < 0.86: steps.append(("C",))
        else: steps.append(full_read(rng, steps, states, syms, 3))
    steps.append(full_read(rng, steps, states, syms))
    return fmt(steps)

CORPUS = [
    "c12 1 R 2 0 1 1 0 0 0",                                                        # fresh automaton
    "c12 4 A 0 0 0 R 1 0 1 0 0 0 C R 1 0 1 0 0 0",                                  # read after Clear
    "c12 5 A 0 0 0 F 0 R 1 0 1 0 0 0 C R 1 0 1 0 0 0",                              # Clear must drop finals too
    "c12 6 A 0 1 0 A 0 1 1 1 A 0 1 2 1 1 F 1 E R 2 0 1 3 0 1 0 0 1 1 1 0 1 1 0",      # one symbol, arities 0,1,2; erased finals
    "c12 7 F 5 F 3 F 9 A 1 9 0 A 2 9 1 3 A 0 4 0 R 4 3 4 5 9 2 1 9 0 1 5 0",          # only the last final owns rules
    "c12 7 F 5 F 3 F 9 A 1 3 0 A 2 3 1 3 A 0 4 0 R 4 3 4 5 9 2 1 3 0 1 5 0",          # only the first final owns rules
    "c12 4 F 1 F 2 A 0 0 0 R 3 0 1 2 1 0 0 0",                                       # no final owns rules
    "c12 6 A 0 0 0 A 1 0 0 A 0 1 0 A 1 1 1 0 G 2 0 1 R 2 0 1 4 0 0 0 1 0 0 1 1 0 0 1 1 0",  # same children, different symbols
    "c12 5 A 0 0 0 T 0 0 0 A 0 0 0 G 0 R 1 0 1 0 0 0",                               # repeated rule, empty SetStatesFinal
    "c12 8 A 0 0 0 A 0 1 0 A 0 2 0 C A 0 1 0 R 3 0 1 2 3 0 0 0 0 1 0 0 2 0 F 1 R 3 0 1 2 1 0 1 0",  # refill after Clear
]

def cases(rng, tier):
    cs = [(l, "corpus") for l in CORPUS]
    cs += [(l, "exhaustive") for l in exhaustive(3 if tier == "quick" else 4)]
    cs += [(l, "targeted") for l in targeted(rng, 1500 if tier == "quick" else 20000)]
    cs += [(bystander_seq(rng), "targeted_bystander") for _ in range(1200 if tier == "quick" else 20000)]
    n = 4000 if tier == "quick" else 80000
    cs += [(rand_seq(rng, rng.choice([5, 12, 30])), "random") for _ in range(n)]
    return cs

def nontrivial(c, impl, verd):
    import re
    m = re.search(r"maxlive=(\d+)", verd)
    return bool(m) and int(m.group(1)) >= 2 and any(f in verd for f in (" dup", " nullary", " multiarity", " final_without_rule", " read_after_clear"))

def observe(dist, c, impl, verd):
    import re
    for f in ("dup", "nullary", "multiarity", "final_without_rule", "read_after_clear"):
        if " " + f in verd: dist[f] = dist.get(f, 0) + 1
    m = re.search(r"reads=(\d+) maxlive=(\d+)", verd)
    if m:
        r, l = int(m.group(1)), int(m.group(2))
        k = "reads=1" if r <= 1 else "reads=2-4" if r <= 4 else "reads>=5"; dist[k] = dist.get(k, 0) + 1
        k = "live=0" if l == 0 else "live=1-3" if l <= 3 else "live=4-9" if l <= 9 else "live>=10"; dist[k] = dist.get(k, 0) + 1

def shrink_candidates(c):
    steps = parse(c)
    last = len(steps) - 1
    for i in range(len(steps)):
        if i == last and steps[i][0] == "R": continue
        yield fmt(steps[:i] + steps[i + 1:])
    for i, s in enumerate(steps):
        if s[0] == "R":
            for j in range(len(s[1])): yield fmt(steps[:i] + [("R", s[1][:j] + s[1][j + 1:], s[2])] + steps[i + 1:])
            for j in range(len(s[2])): yield fmt(steps[:i] + [("R", s[1], s[2][:j] + s[2][j + 1:])] + steps[i + 1:])
        if s[0] == "G":
            for j in range(len(s[1])): yield fmt(steps[:i] + [("G", s[1][:j] + s[1][j + 1:])] + steps[i + 1:])
        if s[0] in ("A", "T") and s[1][2]:
            r = s[1]; yield fmt(steps[:i] + [(s[0], (r[0], r[1], r[2][:-1]))] + steps[i + 1:])

def explain(c, impl, verd):
    return ("case = c12 <n> steps: A/T s p k c.. = AddTransition(children c.., symbol s, parent p) (T: Transition overload), F q = SetStateFinal, "
            "G n q.. = SetStatesFinal, E = EraseFinalStates, C = Clear, R nd d.. np rules = read: I iteration, F finals, A GetAcceptTrans, U GetUsedStates, "
            "E AreTransitionsEmpty, D per state d: empty() and the rules of operator[](d), S IsStateFinal(d), K/V ContainsTransition for the probe rules; "
            "every list is printed sorted with duplicates kept. Gates (Properties_C12.v): iter = no duplicate and exactly the rules added since the last Clear; "
            "accept_trans = exactly those with a final parent, once; down = exactly those with that parent, once; contains = true exactly for live rules; "
            "used_states, finals, is_final, trans_empty, down_empty accordingly.")

LEVEL_TEXT = ("Coq theorems for ALL finite sequences of the five mutating calls about an algorithmic model of the three-level store "
              "(state -> symbol -> tuple set, fetch-or-create at each level as the code does): iteration is duplicate-free and complete w.r.t. "
              "the rules added since the last Clear, ContainsTransition / GetAcceptTrans / operator[] / GetUsedStates / AreTransitionsEmpty are exact, "
              "no cluster or tuple set is ever empty; plus theorems that each boolean gate evaluated on libvata's output is equivalent to the "
              "property clause (and to multiset equality with the model's view). Tie to the C++: libvata rebuilt from /repo's working tree is driven "
              "through the public facade on generated op sequences (complete small slice + targeted + random) and every view is judged by the extracted gates.")
LEVEL_NOTE = ("Trusted: Coq kernel, ExtrOcamlBasic extraction, OCaml/C++ glue (parsing, sorted printing), generators. The C++ is modelled, not verified: "
              "the tie is behavioural on generated op sequences (distribution in the evidence). No axioms (Print Assumptions: closed under the global context).")
TECHNIQUE = "Coq proof of a nested-store model + verified gate deciders; extracted gates judge libvata's views on generated op sequences"
DESIGN_REF = "DESIGN.md 5/C12"
EXPLANATION = explain("", "", "")
READY = True
