"""C10 — NFA Union, UnionDisjointStates, Intersection, Reverse, RemoveUnreachableStates, RemoveUselessStates,
GetCandidateTree are exact (language level), operands unchanged, results dumpable."""
import gen, gen_nfa
ID = "C10"
DRIVER = "c10"
MODEL = "c10"
COQ_PROPS = ["Properties_C10.v"]
COQ_EXTRACT = "Extract_C10.v"
LEVEL = "proof"
RULE = ("cases = pairs (A,B) of NFAs over letters {0,1} (a few families use 3 letters or a one-sided extra letter; one family gives both operands ONE edge list and the driver builds them as two copies of one automaton sharing the copy-on-write table), each built "
        "either through the Timbuk loader or through the facade setters; every case runs Union (with maps), "
        "UnionDisjointStates, Intersection (with product map), A.Reverse, A.RemoveUnreachableStates, A.RemoveUselessStates, "
        "A.GetCandidateTree, DumpToString of every result; streams: corpus (triggers of D7, D8, D13 and boundary cases), the complete "
        "slice of <=2-state NFAs (any edge set over 2 letters, up to the swap of the two states) as A with a rotating partner B, all "
        "pairs of <=2-state/<=1-edge NFAs, targeted families (epsilon in L, epsilon-only witness, several start states, pairs "
        "with exactly one initial component, incomparable macro-states, one-sided symbols, unreachable/dead states, quotient and "
        "near-miss pairs, disjoint numbering), random pairs up to 4+4 states; a case is non-trivial when L(A) is non-empty and A "
        "accepts epsilon, has several start states, has useless states, or the intersection is non-empty (distinct by case text)")
TRUSTED_BASE = [
    "Coq 8.16.1 kernel (coqc, full .vo build); vm_compute only in the *_refuted witnesses and Examples; no native_compute",
    "extraction: Require Extraction + ExtrOcamlBasic only; N, positive, nat stay inductive; no Extract Constant of our own; OCaml 4.13.1",
    "hand-written glue: harness/ml/common.ml.in, nfa_io.ml.in, c10_main.ml (parsing/printing, choice of which gate applies), "
    "harness/drv/c10.cc + nfa_common.hh + common.hh (builds the operands, calls the public API, prints canonically; final states and "
    "edges are read from the core object behind the facade because the facade offers no iteration; the same results are also read "
    "through the public DumpToString and compared), harness/gen.py, harness/gen_nfa.py, harness/core.py",
    "modelled, not verified: src/explicit_finite_union.cc, _isect.cc, _reverse.cc, _unreach.cc, _useless.cc, _candidate.cc; tied by the "
    "gates (the property clauses evaluated on libvata's output by verified deciders) on generated inputs",
]
ASSUMPTIONS = ["UnionDisjointStates is gated only on operands with disjoint state sets (its contract); on overlapping operands only drift is reported",
               "the start symbol of a nullary rule is not part of the word (as the property states)",
               "correspondence is sampling: an input shape no generator produces is not covered"]
FLAVOURS = {"quick": ["plain"], "thorough": ["plain", "asan"]}
EXHAUSTIVE_SLICES = ("unary operations: every NFA with states {0,1}, any subset of the 8 possible edges over 2 letters, every start/final "
                     "set, one representative per swap of the two states (automata without start resp. without final states: one "
                     "representative each); binary operations: all pairs of such NFAs with <=1 edge (the run as a whole is not exhaustive)")

CORPUS = [
    # D13: final start state, the search reaches no other final state: witness must accept epsilon
    "ops L W 1 0 1 0 0 W 1 0 1 0 0",
    "ops F W 1 0 1 0 1 0 0 1 W 0 0 0",
    "ops L W 2 0 1 1 1 1 0 0 1 W 1 0 1 0 0",
    # D8: dump of a reversed automaton whose final states were not start states
    "ops L W 1 0 1 1 1 0 0 1 W 1 0 1 1 2 0 0 1 1 1 1",
    "ops L W 1 0 2 1 2 2 0 0 1 0 1 2 W 0 0 0",
    # D7: a* /\ a+ must not accept epsilon; {eps} /\ {eps} = {eps}
    "ops L W 1 0 1 0 1 0 0 0 W 1 0 1 1 2 0 0 1 1 0 1",
    "ops F W 1 0 1 1 2 0 0 1 1 0 1 W 1 0 1 0 1 0 0 0",
    "ops L W 1 0 1 0 0 W 1 0 1 0 0",
    # boundaries: empty automata, no start, no final, start without edges, self loops, overlapping numbers
    "ops L W 0 0 0 W 0 0 0",
    "ops F W 0 1 0 1 0 0 0 W 1 0 0 1 0 1 0",
    "ops L W 2 0 1 2 0 1 2 0 0 1 1 1 0 W 1 5 1 5 0",
    "ops L W 1 3 1 4 2 3 0 4 4 1 3 W 1 3 1 3 1 3 0 3",
    "ops F W 1 0 1 2 3 0 0 1 1 0 2 0 1 0 W 2 10 11 1 12 2 10 0 12 11 1 12",
]

PARTNERS = [gen.NFA([0], [0], [(0, 0, 0)]), gen.NFA([0], [1], [(0, 0, 1), (1, 1, 1)]), gen.NFA([0, 1], [1], [(0, 1, 1), (1, 0, 0)]),
            gen.NFA([0], [0], []), gen.NFA([5], [6], [(5, 0, 6), (6, 0, 6), (6, 1, 5)]), gen.NFA([1], [0], [(1, 0, 0), (1, 1, 1), (0, 0, 1)])]

def line(rng, a, b):
    return "ops %s %s %s" % (rng.choice("LF"), a.fmt(), b.fmt())

def cases(rng, tier):
    cs = [(l, "corpus") for l in CORPUS]
    sl = gen_nfa.slice2(8)
    for i, a in enumerate(sl):
        cs.append((line(rng, a, PARTNERS[i % len(PARTNERS)]), "exhaustive_unary"))
    s1 = gen_nfa.slice2(1)
    for a in s1:
        for b in s1:
            cs.append((line(rng, a, b), "exhaustive_binary"))
    for fam, a, b in gen_nfa.targeted_pairs(rng, 150 if tier == "quick" else 1500):
        cs.append((line(rng, a, b), fam))
    for _ in range(1200 if tier == "quick" else 15000):
        # both operands over ONE edge list (the driver builds them as two copies of one automaton: shared copy-on-write table) with their own
        # start and final states — nondeterministic bases, so that a word is accepted by the two copies along different runs
        base = gen.rand_nfa_sized(rng, 4, 9, rng.choice([1, 2, 2]))
        if not base.edges: continue
        st = sorted(base.states())
        a = base.copy(); b = base.copy()
        r = rng.random()
        if r < 0.4: a.finals = [q for q in st if rng.random() < 0.4] or [rng.choice(st)]; b.finals = [q for q in st if rng.random() < 0.4] or [rng.choice(st)]
        elif r < 0.7: a.starts = [rng.choice(st)]; b.starts = [rng.choice(st)]
        elif r < 0.85: b.starts = b.starts + [rng.choice(st)]; b.finals = b.finals + [rng.choice(st)]
        else: a.starts = [q for q in st if rng.random() < 0.4] or [rng.choice(st)]; b.finals = [q for q in st if rng.random() < 0.5]
        cs.append(("ops F %s %s" % (a.fmt(), b.fmt()), "shared_table"))
    n = 5000 if tier == "quick" else 60000
    for _ in range(n):
        ns = rng.choice([2, 2, 3])
        a = gen.rand_nfa_sized(rng, 4, 8, ns); b = gen.rand_nfa_sized(rng, 4, 8, ns)
        r = rng.random()
        if r < 0.2: b = gen_nfa.shift(b, 7)
        elif r < 0.4: a = gen_nfa.permute(rng, a, sparse=True)
        cs.append((line(rng, a, b), "random"))
    return cs

def nontrivial(c, impl, verd):
    return " Anonempty" in verd and (" eps" in verd or " multistart" in verd or " dead" in verd or " Xnonempty" in verd)

def observe(dist, c, impl, verd):
    for k in ("Aempty", "Anonempty", "eps", "multistart", "dead", "disj", "overlap", "Xempty", "Xnonempty"):
        if (" " + k) in verd: dist[k] = dist.get(k, 0) + 1
    for w in verd.split():
        if w.startswith("sa="): dist["statesA_" + w[3:]] = dist.get("statesA_" + w[3:], 0) + 1
    m = "build_loader" if c.startswith("ops L") else "build_setters"
    dist[m] = dist.get(m, 0) + 1

def shrink_candidates(c): return gen.shrink_automata(c)

def explain(c, impl, verd):
    return ("case = ops <L loader|F facade setters> <A> <B>, automaton = W nstarts starts nfinals finals nedges {src sym dst}; impl = U Union + "
            "maps MA MB, D UnionDisjointStates, X Intersection + product map PM, V A.Reverse, N A.RemoveUnreachableStates, K composed operations (results as operands: chain_* gates), L "
            "A.RemoveUselessStates, C A.GetCandidateTree, each followed by d? = the same result read through DumpToString (EXC = the dump "
            "threw), I = operands afterwards; a CRASH line means the driver process died in this case (e.g. DumpToString of a reversed "
            "automaton). gates: union/uniondisj L(R)=L(A)+L(B); isect L(R)=L(A)&L(B); reverse = mirror images; unreach/useless same "
            "language; candidate sub-language and non-empty iff A non-empty; dump_* public dump shows the same automaton; operand_changed")

LEVEL_TEXT = ("Coq theorems for all NFAs (no bounds) about executable models that follow the code: Union through the reported translation maps and "
              "UnionDisjointStates accept exactly the union (under validity of the maps / disjointness), the product from the start pairs followed "
              "by trimming accepts exactly the intersection, Reverse exactly the mirror images, RemoveUnreachableStates and RemoveUselessStates "
              "(= unreach, reverse, unreach, reverse as coded) keep the language, a candidate accepted by ncandidate_ok has a sub-language and is "
              "non-empty if the operand is; plus theorems that every boolean gate evaluated on libvata's output (built from the verified "
              "deciders wincl_dec / wequiv_dec / wis_empty) decides exactly its property clause. Tie to the C++: libvata rebuilt from /repo's "
              "working tree is run on generated pairs (complete small slice, targeted families, random) and each result is judged by the "
              "extracted gates; structural equality with the models through the reported maps is reported as drift.")
LEVEL_NOTE = ("Trusted: Coq kernel, ExtrOcamlBasic extraction, OCaml/C++ glue (construction, observation through the core object and through "
              "DumpToString, printing), generators. The C++ is modelled, not verified: the tie is behavioural on generated inputs (distribution "
              "in the evidence). The historical defects D7 (product start states) and D13 (witness of epsilon) are kept as *_refuted theorems "
              "about the models of the old code. No axioms (Print Assumptions: closed under the global context).")
TECHNIQUE = "Coq proof of models + verified gate deciders; extracted-model correspondence against libvata on generated NFA pairs"
DESIGN_REF = "DESIGN.md 5/C10"
READY = True
