"""C15 — the witness automaton is a sub-language, empty only for an empty language."""
import gen
ID = "C15"; DRIVER = "c15"; MODEL = "c15"
COQ_PROPS = ["Properties_C15.v"]; COQ_EXTRACT = "Extract_C15.v"
LEVEL = "proof"
RULE = ("cases = explicit tree automata over {a/0,b/0,g/1,f/2}(+h/3): corpus; complete slice (all automata with <=2 states and <=3 rules); targeted "
        "(only leaves accepted, deep witnesses = chains, unproductive final states, final state reached by a leaf rule, all rules used); histories (the call repeated on objects derived from earlier operands and results: selective copies with other final states, final states replaced or a rule added in place); random up to "
        "5 states. Non-trivial = non-empty language and the witness is a proper sub-automaton; distinct by rule/final sets")
EXHAUSTIVE_SLICES = "all automata with 1 state,<=4 rules and 2 states,<=3 rules over {a/0,b/0,g/1,f/2}, every final set (the run as a whole is not exhaustive)"
TRUSTED_BASE = [
    "Coq 8.16.1 kernel (coqc, full .vo build); vm_compute only in Examples; no native_compute",
    "extraction: Require Extraction + ExtrOcamlBasic only; N, positive, nat stay inductive; no Extract Constant of our own; OCaml 4.13.1",
    "hand-written glue: harness/ml/common.ml.in, ta_io.ml.in, c15_main.ml, harness/drv/c15.cc + common.hh, harness/gen.py, harness/core.py",
    "modelled, not verified: src/explicit_tree_candidate.cc (the search itself is not modelled algorithmically; the theorem covers every result that is a sub-automaton and non-empty when A is, the gate decides the property on every result)",
]
ASSUMPTIONS = ["correspondence is sampling: an input shape no generator produces is not covered"]
FLAVOURS = {"quick": ["plain"], "thorough": ["plain", "asan"]}
CORPUS = ["cand T 0 0", "cand T 1 0 1 0 0 0", "cand T 1 3 0", "cand T 2 0 5 2 0 0 0 2 5 1 5",
          "cand T 1 2 4 0 0 0 2 1 1 0 2 2 1 1 3 2 2 2 2"]
def cases(rng, tier):
    cs = [(l, "corpus") for l in CORPUS]
    for a in gen.enum_ta(1, 4): cs.append(("cand " + a.fmt(), "exhaustive"))
    for a in gen.enum_ta(2, 3): cs.append(("cand " + a.fmt(), "exhaustive"))
    for _ in range(200):   # chains: deep witness needed
        n = rng.randint(2, 7)
        rules = [(0, 0, ())] + [(2, i + 1, (i,)) for i in range(n)]
        for _ in range(rng.randint(0, 3)): rules.append((3, rng.randrange(n + 1), (rng.randrange(n + 2), rng.randrange(n + 2))))
        rng.shuffle(rules)
        cs.append(("cand " + gen.TA([n] + ([n + 1] if rng.random() < 0.5 else []), rules).fmt(), "targeted"))
    for _ in range(200):   # only leaves accepted / final reached by leaf rule / unproductive finals
        a = gen.rand_ta_sized(rng, 4, 7, leafbias=0.5, pfinal=0.3)
        a.finals += [p for (f, p, c) in a.rules if not c][:1]
        a.finals.append(9)
        cs.append(("cand " + a.fmt(), "targeted"))
    for _ in range(200):   # every non-nullary rule eventually fires (remaining == 0 path)
        a = gen.rand_ta_sized(rng, 3, 6, leafbias=0.5, pfinal=0.5)
        for q in sorted(a.states()): a.rules.append((rng.choice([0, 1]), q, ()))
        cs.append(("cand " + a.fmt(), "targeted"))
    for _ in range(300 if tier == "quick" else 5000):   # rules of arity >= 3 with the same child at non-adjacent positions, needed by every accepting derivation
        n = rng.randint(2, 4); st = list(range(n))
        rules = [(rng.choice([0, 1]), q, ()) for q in st if rng.random() < 0.7] or [(0, 0, ())]
        top = n
        x, y = rng.choice(st), rng.choice(st)
        shape = rng.choice([(x, y, x), (x, y, y, x), (y, x, y), (x, x, y, x), (x, y, x, y)])
        rules.append((4 if len(shape) == 3 else 8, top, shape))
        for _ in range(rng.randint(0, 3)):
            f, ar = rng.choice([(2, 1), (3, 2), (4, 3)])
            rules.append((f, rng.choice(st), tuple(rng.choice(st) for _ in range(ar))))
        rng.shuffle(rules)
        cs.append(("cand " + gen.TA([top], rules).fmt(), "targeted"))
    for _ in range(1500 if tier == "quick" else 20000):   # histories: the call repeated on objects derived from earlier operands / results
        a = gen.rand_ta_sized(rng, 5, 9, sigma=rng.choice([gen.SIGMA, gen.SIGMA_U]), leafbias=rng.choice([0.2, 0.4]), pfinal=rng.choice([0.3, 0.8]))
        if rng.random() < 0.3:
            for q in sorted(a.states()): a.rules.append((rng.choice([0, 1]), q, ()))
        st = sorted(a.states()) or [0]
        line = "candh " + a.fmt()
        for _ in range(rng.randint(1, 4)):
            mode = rng.choice([0, 1, 1, 2, 5, 5])
            if mode == 5:
                f, k = rng.choice(gen.SIGMA)
                line += " 5 %d %d %d %s" % (f, rng.choice(st), k, " ".join(str(rng.choice(st)) for _ in range(k)))
                line = line.rstrip()
            else:
                fin = [q for q in st if rng.random() < 0.3] or [rng.choice(st)]
                line += " %d %d %s" % (mode, len(fin), " ".join(str(f) for f in fin))
        cs.append((line, "history"))
    n = 3000 if tier == "quick" else 60000
    for _ in range(n):
        a = gen.rand_ta_sized(rng, 5, 10, sigma=rng.choice([gen.SIGMA, gen.SIGMA3]), leafbias=rng.choice([0.15, 0.35]))
        if rng.random() < 0.3: a, _ = gen.permute_states(rng, a, sparse=True)
        cs.append(("cand " + a.fmt(), "random"))
    return cs
def nontrivial(c, impl, verd): t = verd.split(); return "nonempty" in t and "proper" in t
def observe(dist, c, impl, verd):
    for k in verd.split():
        if k in ("empty", "nonempty", "whole", "proper", "as_model", "other_witness", "history"): dist[k] = dist.get(k, 0) + 1
def shrink_candidates(c):
    if not c.startswith("candh"): return gen.shrink_automata(c)
    return shrink_history(c)
def shrink_history(c):
    """drop a stage; drop a rule / final state of the first automaton"""
    items = gen.split_case(c); a = items[1]; rest = items[2:]
    stages = []; i = 0
    while i < len(rest):
        n = 4 + int(rest[i + 3]) if rest[i] == "5" else 2 + int(rest[i + 1])
        stages.append(rest[i:i + n]); i += n
    for k in range(len(stages)):
        yield gen.join_case([items[0], a] + [x for j, s in enumerate(stages) if j != k for x in s])
    for j in range(len(a.rules)):
        b = a.copy(); b.rules.pop(j)
        yield gen.join_case([items[0], b] + rest)
    for j in range(len(a.finals)):
        b = a.copy(); b.finals.pop(j)
        yield gen.join_case([items[0], b] + rest)
def explain(c, impl, verd):
    return "case = cand <A> (candh <A> stages: 0/1/2 <finals> = selective copy of the current object / the same object with its final states replaced / selective copy of the last result, 5 <rule> = AddTransition in place; each stage prints V <value> and the call again, gates prefixed again_; history_value = the derived object does not show the value it must); impl = R <GetCandidateTree result> I <operand afterwards>; gate witness = L(R) included in L(A) and R non-empty whenever A is (C15_gate)"
LEVEL_TEXT = ("Coq theorems (all automata, no bounds): (A) a model of the search itself (all nullary rules, then rounds keeping one justifying rule per newly reached state, reached final states, top-down pruning) yields, for every order of the rules, a sub-automaton that is non-empty whenever A is (invariant: every reached state has a tree over the kept rules; the rounds stop at a closed set, which contains every productive state); (gate) the boolean gate evaluated on libvata's witness decides exactly the property (sub-language; "
              "non-empty whenever A is), and every sub-automaton that is non-empty whenever A is satisfies it. Tie to the C++: GetCandidateTree of "
              "libvata rebuilt from /repo on generated automata (complete small slice + targeted + random) judged by the extracted verified gate.")
LEVEL_NOTE = ("The model of the search does not stop at the first final state as the code does and scans in list order rather than hash order; which witness libvata picks is therefore not compared structurally (reported as as_model / other_witness), the tie is the "
              "gate on generated inputs. Trusted: Coq kernel, ExtrOcamlBasic extraction, OCaml/C++ glue, generators. No axioms.")
TECHNIQUE = "Coq-verified gate (inclusion + emptiness deciders) applied to libvata's witness; correspondence on generated automata"
DESIGN_REF = "DESIGN.md 5/C15"
READY = True
