"""C03 — trimming keeps the language and leaves no dead state; emptiness exact."""
import gen
ID = "C03"
DRIVER = "c03"
MODEL = "c03"
COQ_PROPS = ["Properties_C03.v"]
COQ_EXTRACT = "Extract_C03.v"
LEVEL = "proof"
RULE = ("cases = explicit tree automata over {a/0,b/0,g/1,f/2}: corpus, the complete slice of automata with <=2 states and "
        "<=3 rules (2788, every final set), a targeted family (|reachable| = |rule owners| with different sets, finals without "
        "rules, unproductive children, no finals, rules of arity 17-70 with an unproductive child at any position), histories (the three calls repeated on objects derived from earlier operands and results: selective copies with other final states, final states replaced in place, results trimmed again) and random automata up to 5 states / 10 rules; a case is non-trivial when "
        "the automaton has a non-empty language and at least one useless or unreachable state or rule (distinct by rule/final sets)")
TRUSTED_BASE = [
    "Coq 8.16.1 kernel (coqc, full .vo build); vm_compute only in the *_refuted witness and Examples; no native_compute",
    "extraction: Require Extraction + ExtrOcamlBasic only (bool, option, unit, list, prod, sumbool, sumor; andb/orb inlined); N, positive, nat stay inductive; no Extract Constant of our own; OCaml 4.13.1",
    "hand-written glue: harness/ml/common.ml.in, ta_io.ml.in, c03_main.ml (parsing/printing only), harness/drv/c03.cc + common.hh (calls the public API, prints canonically), harness/gen.py, harness/core.py",
    "modelled, not verified: src/explicit_tree_unreach.cc, src/explicit_tree_useless.cc, IsLangEmpty; tied by the gates (the property itself evaluated on libvata's output by verified deciders) on generated inputs",
]
ASSUMPTIONS = ["the C++ driver observes results by iteration over the public API (symbol codes), never through the alphabet",
               "correspondence is sampling: an input shape no generator produces is not covered"]
FLAVOURS = {"quick": ["plain"], "thorough": ["plain", "asan"]}

def targeted(rng):
    out = []
    # |R| = |owners|, R != owners : k final states without rules, k owners unreachable
    for _ in range(300):
        k = rng.randint(1, 3)
        a = gen.rand_ta(rng, 3, rng.randint(1, 5), states=[0, 1, 2], pfinal=0.3)
        dead = [10 + i for i in range(k)]
        for i, d in enumerate(dead):
            a.rules.append((rng.choice([0, 1]), d, ()))
            if rng.random() < 0.5: a.rules.append((2, d, (rng.choice(dead),)))
        a.finals += [20 + i for i in range(rng.randint(0, k + 1))]
        out.append(a)
    # unproductive children, no finals, only unproductive finals
    for _ in range(300):
        a = gen.rand_ta(rng, 4, rng.randint(1, 7), leafbias=0.15, pfinal=rng.choice([0.0, 0.2, 0.6]))
        out.append(a)
    # chains: deep productive witnesses
    for _ in range(100):
        n = rng.randint(2, 6)
        rules = [(0, 0, ())] + [(2, i + 1, (i,)) for i in range(n)] + [(3, rng.randrange(n + 1), (rng.randrange(n + 2), rng.randrange(n + 2)))]
        out.append(gen.TA([rng.randrange(n + 2)], rules))
    # wide rules (arity around the word sizes 32 and 64): one unproductive child at any position must keep the rule from firing
    for w in (17, 31, 32, 33, 34, 40, 63, 64, 65, 70):
        for _ in range(6):
            ch = [1] * w
            rules = [(0, 1, ())]
            if rng.random() < 0.5:
                rules.append((2, 3, (1,)))
                for i in range(w):
                    if rng.random() < 0.3: ch[i] = 3
            k = rng.choice([0, 1, 1, 1, 2])
            for _ in range(k): ch[rng.choice([0, w - 1, w - 1, rng.randrange(w), min(w - 1, 32), min(w - 1, 33)])] = 2      # state 2 owns no rule
            fin = [0] + ([2] if rng.random() < 0.2 else [])
            rules.append((200 + w, 0, tuple(ch)))
            if rng.random() < 0.3: rules.append((0, 0, ()))
            out.append(gen.TA(fin, rules))
    return out

def cases(rng, tier):
    cases = []
    for line in CORPUS: cases.append((line, "corpus"))
    maxr = 3 if tier == "quick" else 3
    for a in gen.enum_ta(1, 4): cases.append(("trim " + a.fmt(), "exhaustive"))
    for a in gen.enum_ta(2, maxr): cases.append(("trim " + a.fmt(), "exhaustive"))
    for a in targeted(rng): cases.append(("trim " + a.fmt(), "targeted"))
    for _ in range(1500 if tier == "quick" else 20000):   # histories: the calls repeated on objects derived from earlier operands / results
        a = gen.rand_ta_sized(rng, 5, 9, sigma=rng.choice([gen.SIGMA, gen.SIGMA_U]), leafbias=rng.choice([0.2, 0.4]), pfinal=rng.choice([0.3, 0.9]))
        st = sorted(a.states()) or [0]
        line = "trimh " + a.fmt()
        for _ in range(rng.randint(1, 4)):
            mode = rng.choice([0, 0, 1, 1, 2, 3, 4])
            fin = [q for q in st if rng.random() < 0.3] or [rng.choice(st)]
            line += " %d %d %s" % (mode, len(fin), " ".join(str(f) for f in fin))
        cases.append((line, "history"))
    n = 3000 if tier == "quick" else 60000
    for _ in range(n):
        a = gen.rand_ta_sized(rng, 5, 10, sigma=rng.choice([gen.SIGMA, gen.SIGMA3]))
        if rng.random() < 0.3: a, _ = gen.permute_states(rng, a, sparse=True)
        cases.append(("trim " + a.fmt(), "random"))
    return cases

EXHAUSTIVE_SLICES = "all automata with 1 state and <=4 rules, and with 2 states and <=3 rules, over {a/0,b/0,g/1,f/2}, every final set (the run as a whole is not exhaustive)"

CORPUS = [
    "trim T 1 5 1 0 7 0",                       # D2: final without rules + unreachable owner: counts equal, sets differ
    "trim T 1 0 2 0 0 0 0 1 0",
    "trim T 0 1 0 0 0",
    "trim T 1 0 0",
    "trim T 2 0 1 3 0 0 0 3 1 2 0 2 2 2 1 2",
]

def nontrivial(c, impl, verd):
    return " nonempty" in verd and " dead" in verd

def observe(dist, c, impl, verd):
    k = "empty_language" if " empty" in verd else "nonempty_language"
    dist[k] = dist.get(k, 0) + 1
    if " history" in verd: dist["history"] = dist.get("history", 0) + 1
    if " dead" in verd: dist["has_dead_part"] = dist.get("has_dead_part", 0) + 1
    n = c.count(" ")
    b = "tokens<=10" if n <= 10 else "tokens<=25" if n <= 25 else "tokens>25"
    dist[b] = dist.get(b, 0) + 1

def shrink_candidates(c):
    if not c.startswith("trimh"): return gen.shrink_automata(c)
    return shrink_history(c)
def shrink_history(c):
    """drop a stage; drop a rule of the first automaton; (state merging would have to rename the stages' final states: not attempted)"""
    items = gen.split_case(c); a = items[1]; rest = items[2:]
    stages = []; i = 0
    while i < len(rest):
        nf = int(rest[i + 1]); stages.append(rest[i:i + 2 + nf]); i += 2 + nf
    for k in range(len(stages)):
        yield gen.join_case([items[0], a] + [x for j, s in enumerate(stages) if j != k for x in s])
    for j in range(len(a.rules)):
        b = a.copy(); b.rules.pop(j)
        yield gen.join_case([items[0], b] + rest)
    for j in range(len(a.finals)):
        b = a.copy(); b.finals.pop(j)
        yield gen.join_case([items[0], b] + rest)

def explain(c, impl, verd):
    return ("case = automaton (T nfinals finals nrules {sym parent arity children}), for trimh followed by stages <mode> <final states> (0 selective copy of the current object, 1 the same object with its final states replaced, 2/3 selective copy of the last RemoveUnreachable/RemoveUseless result, 4 the last RemoveUseless result; each stage prints V <value> and the calls again, gates prefixed again_; history_value = the derived object does not show the value it must); impl = U <RemoveUnreachableStates> L <RemoveUselessStates> "
            "E <IsLangEmpty> I <operand afterwards>; gates: unreach = same language and every remaining state top-down reachable; "
            "useless = same language and every remaining state/rule in an accepting run; empty = verdict equals emptiness")

def kf_unreach_shortcut(c, impl, verd, k):
    return verd.startswith("FAIL unreach")

LEVEL_TEXT = ("Coq theorems (all automata, no bounds) about executable models of RemoveUnreachableStates / RemoveUselessStates / IsLangEmpty that "
              "follow the code's phases and shortcuts: language kept, no dead state or rule afterwards, emptiness exact; plus theorems that the "
              "boolean gates used on libvata's output decide exactly the property. Tie to the C++: libvata rebuilt from /repo's working tree is run "
              "on generated automata (complete small slice + targeted + random) and its outputs are judged by the extracted verified gates; "
              "structural equality with the model is reported as drift.")
LEVEL_NOTE = ("Besides the function-level models, the counter / work-list algorithm behind RemoveUselessStates and IsLangEmpty is modelled and proved to mark exactly the productive states for every fuel (C03_counter_algorithm_exact; run as drift on every case). Trusted: Coq kernel, ExtrOcamlBasic extraction, OCaml/C++ glue (parsing, printing), generators. The C++ is modelled, not verified: "
              "the tie is behavioural on generated inputs (distribution in the evidence). No axioms (Print Assumptions: closed under the global context).")
TECHNIQUE = "Coq proof of model + verified gate deciders; extracted-model correspondence against libvata on generated automata"
DESIGN_REF = "DESIGN.md 5/C03"
READY = True
