"""C18 — MTBDD nodes live exactly as long as something refers to them."""
import itertools
import gen_mtbdd as G
ID = "C18"
DRIVER = "c18"
MODEL = "c18"
COQ_PROPS = ["Properties_C18.v"]
COQ_EXTRACT = "Extract_C18.v"
LEVEL = "proof"
RULE = ("cases = histories of creating (from an assignment, from a constant), copying, assigning (incl. self-assignment), combining (unary, binary, "
        "ternary apply, ExtendWith, GetMtbddForPrefix) and destroying MTBDD objects that share sub-graphs in the one process-wide node store, for "
        "unsigned and std::set<unsigned> leaves: corpus; ALL histories of <= 3 steps over 1 and over 2 variables with leaf values {0,1} "
        "(op alphabet: every construction of full length, constants, copy, assignment of every pair, 2 unary and 2 binary codes, destroy); "
        "targeted families (shared sub-graphs released in every order, self-assignment of a sole owner, assignment over a shared / unshared root, "
        "apply whose result is an operand or a constant, unused and shared sinks, early return of construction, extension and prefix selection, the "
        "accumulate-through-a-temporary pattern) and "
        "random histories of up to 30 steps with small leaf domains; after EVERY step both unique-table sizes and the values of all live objects on "
        "all 2^NV assignments are compared with the model, and at the end everything is destroyed and the tables must be back at the case's baseline. "
        "A case is non-trivial when it has >= 4 steps, releases at least one node and at some moment an internal node has two referrers (distinct by case text)")
TRUSTED_BASE = [
    "Coq 8.16.1 kernel (coqc, full .vo build); vm_compute only in Examples; no native_compute",
    "extraction: Require Extraction + ExtrOcamlBasic only; N, positive, nat stay inductive; no Extract Constant of our own; OCaml 4.13.1",
    "hand-written glue: harness/ml/common.ml.in, c18_main.ml (parsing, enumeration of the 2^NV assignments, comparison of numbers and strings, printing), "
    "harness/drv/c18.cc + mtbdd_common.hh (instantiates the templates; reads leafCache_.size() / internalCache_.size() through `#define private public` placed after all "
    "standard/boost/vata headers, read-only), harness/gen_mtbdd.py, harness/core.py",
    "the leaf operations are given by code twice: coq/MtbddOps.v and mtbdd_common.hh; their agreement is trusted",
    "modelled, not verified: src/mtbdd/ondriks_mtbdd.hh, mtbdd_node.hh, apply*func.hh; tied by the gates after every step of generated histories",
]
ASSUMPTIONS = [
    "node identities are fresh numbers in the model (an address is never reused); what malloc does with freed addresses is outside the model (C20)",
    "an apply functor is modelled as hash-consing its functional result bottom-up (it creates exactly the nodes of the result, children first, through spawnLeaf / spawnInternal); its memo table is not modelled",
    "disposeOfInternalNode erases the table entry, releases the children and deletes the node last; the model removes table entry and node at once (nothing reads the node in between)",
    "Project and Rename are excluded, as in the property (they leave count-zero intermediates in the tables)",
    "the recursion of release is guided by the ghost diagram of the released object (structural fuel; it is the diagram the node denotes by the invariant, never consulted for data); a heap that does not match it is a fault, excluded by C18_step_inv",
    "the driver keeps objects in std::unique_ptr slots; copy elision of returned temporaries is the compiler's business and does not change the counts after the statement",
    "correspondence is sampling: a history shape no generator produces is not covered",
]
FLAVOURS = {"quick": ["plain"], "thorough": ["plain", "asan"]}

def exhaustive(tier):
    out = []
    for n in (1, 2, 3): out += G.enum_hist("u", 1, n)
    for n in (1, 2, 3): out += G.enum_hist("u", 2, n)
    for n in (1, 2, 3): out += G.enum_hist("s", 1, n, vals=(0, 5), f1=(0, 3), f2=(0, 2))
    if tier == "thorough":
        out += G.enum_hist("s", 2, 3, vals=(0, 5), f1=(0, 3), f2=(0, 2))
        out += G.enum_hist("u", 1, 4)
    return out

def targeted(rng, tier):
    out = []
    k = 1 if tier == "quick" else 6
    for _ in range(40 * k):
        # shared sub-graphs released in every order
        dom = rng.choice("us"); nv = rng.randint(2, 3)
        base = G.Hist(dom, nv)
        suffix = G.rand_asgn(rng, nv - 1, 0.0)
        hs = [base.C(rng.choice("01") + suffix, rng.randrange(1, 3), 0) for _ in range(2)]
        hs.append(base.B(rng.randrange(G.NOPS[dom][1]), hs[0], hs[1]))
        if rng.random() < 0.5: hs.append(base.Y(hs[rng.randrange(3)]))
        else: hs.append(base.C("X" + suffix, 1, 0))
        for perm in itertools.permutations(hs):
            t = base.copy()
            for h in perm: t.D(h)
            out.append(t.fmt())
    for _ in range(150 * k):
        # self-assignment (sole owner, shared, after copies), assignment over shared / unshared roots, same-root assignment
        dom = rng.choice("us"); nv = rng.randint(1, 3)
        t = G.rand_hist(rng, dom, nv, rng.randint(1, 5), vals=[0, 1, 2], pdestroy=0.0)
        lv = sorted(t.live)
        a = rng.choice(lv)
        t.A(a, a)
        c = t.Y(a); t.A(a, c); t.A(c, a); t.A(c, c)
        b = t.C(G.rand_asgn(rng, nv), 1, 0)
        t.A(b, a); t.A(a, b)
        if rng.random() < 0.5: t.D(c)
        t.A(a, a)
        lv = sorted(t.live); rng.shuffle(lv)
        for h in lv[:rng.randint(0, len(lv))]: t.D(h)
        out.append(t.fmt())
    for _ in range(150 * k):
        # apply whose result is an operand / a constant / shares with the operands, then the operands die first
        dom = rng.choice("us"); nv = rng.randint(1, 3)
        t = G.Hist(dom, nv)
        a = t.C(G.rand_asgn(rng, nv, 0.2), rng.randrange(1, 4), 0)
        b = t.C(G.rand_asgn(rng, nv, 0.2), rng.randrange(1, 4), 0)
        z = t.K(0)
        if dom == "u":
            rs = [t.B(1, a, z), t.B(4, a, b), t.B(5, a, b), t.B(6, a, a), t.U(3, a), t.U(2, b), t.T(1, z, a, b), t.B(0, a, b)]
        else:
            rs = [t.B(0, a, z), t.B(0, a, a), t.B(1, a, a), t.B(2, a, a), t.U(1, a), t.U(2, b), t.T(0, a, a, z), t.B(0, a, b)]
        order = [a, b, z] + rs
        if rng.random() < 0.5: rng.shuffle(order)
        for h in order[:rng.randint(3, len(order))]: t.D(h)
        out.append(t.fmt())
    for _ in range(150 * k):
        # constants, early return (value = default), unused sink (all don't-care) while the sink value is / is not alive elsewhere
        dom = rng.choice("us"); nv = rng.randint(0, 3)
        t = G.Hist(dom, nv)
        v, d = rng.randrange(3), rng.randrange(3)
        pre = []
        if rng.random() < 0.5: pre.append(t.K(d))
        if rng.random() < 0.5: pre.append(t.K(v))
        if rng.random() < 0.3 and nv: pre.append(t.C(G.rand_asgn(rng, nv, 0.0), 3, d))
        x = t.C("X" * rng.randint(0, nv), v, d)
        y = t.C(G.rand_asgn(rng, rng.randint(0, nv)), v, v)
        k2 = t.K(v)
        e = t.E(G.rand_asgn(rng, rng.randint(0, nv)), 0, k2) if nv else t.Y(k2)
        order = pre + [x, y, k2, e]; rng.shuffle(order)
        for h in order[:rng.randint(0, len(order))]: t.D(h)
        if rng.random() < 0.5 and t.live:
            t.C("X" * rng.randint(0, nv), d, v)
        out.append(t.fmt())
    for _ in range(120 * k):
        # extension and prefix selection sharing the operand's nodes, operand destroyed first
        dom = rng.choice("us"); nv = rng.randint(2, 4); low = rng.randint(1, nv - 1)
        t = G.rand_hist(rng, dom, low, rng.randint(1, 4), vals=[0, 1, 2], pdestroy=0.0)
        t.nv = nv
        a = rng.choice(sorted(t.live))
        off = rng.randint(t.live[a], nv - 1)
        e1 = t.E(G.rand_asgn(rng, rng.randint(0, nv - off), 0.2), off, a)
        e2 = t.E(G.rand_asgn(rng, rng.randint(0, nv - off), 0.2), off, a)
        x1 = t.X(G.rand_asgn(rng, nv), rng.randint(0, nv), e1)
        x2 = t.X(G.rand_asgn(rng, nv), off, e2)
        b = t.B(rng.randrange(G.NOPS[dom][1]), e1, e2)
        order = [a, e1, e2, x1, x2, b]; rng.shuffle(order)
        for h in order[:rng.randint(1, len(order))]: t.D(h)
        out.append(t.fmt())
    for _ in range(150 * k):
        # the accumulate pattern of the BDD automata: acc = op(acc, fresh construction) through a temporary, many times; copies kept alive in between
        dom = rng.choice("us"); nv = rng.randint(2, 4)
        t = G.Hist(dom, nv)
        f = rng.choice((0, 1)) if dom == "u" else rng.choice((0, 3))
        acc = t.C(G.rand_asgn(rng, nv, 0.0), rng.randrange(1, 4), 0)
        keep = []
        for _i in range(rng.randint(3, 9)):
            c = t.C(G.rand_asgn(rng, nv, 0.15), rng.randrange(1, 4), 0)
            tmp = t.B(f, acc, c)
            if rng.random() < 0.3: keep.append(t.Y(acc))
            t.A(acc, tmp); t.D(tmp)
            if rng.random() < 0.7: t.D(c)
            if keep and rng.random() < 0.3: t.D(keep.pop(rng.randrange(len(keep))))
        if rng.random() < 0.5:
            lv = sorted(t.live); rng.shuffle(lv)
            for h in lv: t.D(h)
        out.append(t.fmt())
    return out

def reapply(rng):
    """the same functor applied twice to the same operands with the first result destroyed (or kept) in between, interleaved with
    other applications and destructions: exercises whatever the functor objects cache between top-level applications"""
    nv = rng.choice((1, 2, 2, 3))
    def asg(): return "".join(rng.choice("01X") for _ in range(nv))
    steps = ["C 0 %s %d %d" % (asg(), rng.randrange(3), rng.randrange(3)), "C 1 %s %d %d" % (asg(), rng.randrange(3), rng.randrange(3))]
    if rng.random() < 0.5: steps.append("B 9 %d 0 1" % rng.randrange(2))
    f = rng.randrange(2)
    steps.append("B 2 %d 0 1" % f)
    steps.append(rng.choice(["D 2", "D 2", "Y 5 2", "D 2"]))
    if rng.random() < 0.3: steps.append("U 6 %d 0" % rng.randrange(2))
    steps.append("B 3 %d 0 1" % f)
    steps += rng.sample(["D 3", "D 0", "D 1"], 3)
    if rng.random() < 0.5: steps.insert(len(steps) - 2, "B 4 %d 3 3" % f) if "D 3" not in steps[:len(steps) - 2] else None
    return "c18 %s %d %s" % (rng.choice("us"), nv, " ".join(x for x in steps if x))
def cases(rng, tier):
    cs = [(l, "corpus") for l in CORPUS]
    cs += [(l, "exhaustive") for l in exhaustive(tier)]
    cs += [(l, "targeted") for l in targeted(rng, tier)]
    cs += [(reapply(rng), "targeted_reapply") for _ in range(400 if tier == "quick" else 6000)]
    for _ in range(1000 if tier == "quick" else 12000):
        cs.append((G.assign_same_root_hist(rng, rng.choice("us"), rng.choice((1, 2, 3))).fmt(), "targeted_assign_same_root"))
    for _ in range(12 if tier == "quick" else 60):
        cs.append((G.bulk_hist(rng, rng.choice("us"), rng.choice((1, 2, 3))).fmt(), "targeted_bulk_references"))
    n = 6000 if tier == "quick" else 100000
    for _ in range(n):
        dom = rng.choice("us")
        nv = rng.choice((1, 2, 2, 3, 3))
        vals = rng.choice(([0, 1], [0, 1, 2], [0, 1, 2], None))
        cs.append((G.rand_hist(rng, dom, nv, rng.randint(3, 30), vals=vals, maxlive=rng.randint(2, 7),
                               pdc=rng.choice((0.1, 0.34, 0.6)), pdestroy=rng.choice((0.1, 0.22, 0.4)),
                               destroy_all=rng.random() < 0.3).fmt(), "random"))
    return cs

EXHAUSTIVE_SLICES = ("ALL histories of exactly 1, 2 and 3 steps over 1 variable and over 2 variables with unsigned leaves {0,1}, and over 1 variable with set "
                     "leaves {0,5} (2 variables and 4-step histories in the thorough tier), over the op alphabet: every construction of full length with "
                     "(v,d) in vals^2, both constants, copy of every live object, assignment of every ordered pair incl. self, 2 unary and 2 binary codes on "
                     "every operand tuple, destroy of every live object; every history is followed by the destruction of all remaining objects (the run as "
                     "a whole is not exhaustive)")

CORPUS = [
    "c18 u 2 C 0 10 1 0 C 1 X1 2 0 B 2 0 0 1 D 2 B 3 0 0 1 D 3 D 0 D 1",
    "c18 u 0 K 0 1 D 0",
    "c18 u 2 C 0 X 2 1 C 1 X 1 1 E 2 1 1 1",
    "c18 u 1 C 0 1 1 0 A 0 0 D 0",
    "c18 u 2 C 0 10 1 0 C 1 X1 2 0 B 2 0 0 1 Y 3 2 A 0 0 A 0 1 D 1 D 2 K 4 3 D 0 D 3",
    "c18 s 2 C 0 01 5 0 C 1 1X 3 0 B 2 0 0 1 U 3 0 2 X 5 1 1 2 D 0",
    "c18 u 2 C 0 11 1 0 C 1 01 1 0 D 0 D 1",
    "c18 u 2 C 0 11 1 0 C 1 01 1 0 D 1 D 0",
    "c18 u 2 C 0 XX 1 0 K 1 0 C 2 XX 1 0 D 1 C 3 XX 2 0",
    "c18 u 2 C 0 1X 1 0 Y 1 0 A 1 1 D 0 A 1 1 D 1",
    "c18 u 3 C 0 1 1 0 E 1 01 1 0 E 2 11 1 0 D 0 X 3 XX 1 1 D 1 D 2 D 3",
]

import re
def flags(verd): return dict(m.groups() for m in re.finditer(r"(?:^| )([a-z]+)=(\d+)(?= |$)", "" if verd.startswith("FAIL exception") else verd))
def nontrivial(c, impl, verd):
    w = flags(verd)
    return int(w.get("steps", 0)) >= 4 and int(w.get("released", 0)) >= 1 and " shared" in verd

def observe(dist, c, impl, verd):
    w = flags(verd); toks = c.split()
    for k in ("dom_" + toks[1], "nv_" + toks[2]): dist[k] = dist.get(k, 0) + 1
    s = int(w.get("steps", 0))
    b = "steps_1-3" if s <= 3 else "steps_4-10" if s <= 10 else "steps_11-20" if s <= 20 else "steps_21+"
    dist[b] = dist.get(b, 0) + 1
    if " shared" in verd: dist["node_with_two_referrers"] = dist.get("node_with_two_referrers", 0) + 1
    if int(w.get("selfassign", 0)) > 0: dist["has_self_assignment"] = dist.get("has_self_assignment", 0) + 1
    r = int(w.get("released", 0))
    b = "released_0" if r == 0 else "released_1-5" if r <= 5 else "released_6+"
    dist[b] = dist.get(b, 0) + 1
    m = int(w.get("maxnodes", 0))
    b = "maxnodes_<=3" if m <= 3 else "maxnodes_4-10" if m <= 10 else "maxnodes_11+"
    dist[b] = dist.get(b, 0) + 1

def shrink_candidates(c): return G.shrink18(c)

def explain(c, impl, verd):
    return ("case = c18 <leaf domain> <number of variables> then steps on named objects (C h asgn v d construct, K h v constant, Y h g copy-construct h from g, "
            "A h g assignment h = g, U/B/T apply into new h, E ExtendWith, X GetMtbddForPrefix, D h destroy); impl = per step <leaf table size>:<internal "
            "table size>:<object>=<values on all 2^NV assignments>,... relative to the start of the case, then END sizes after destroying everything; gates: "
            "size, value, handles, baseline, invalid (see harness/ml/c18_main.ml)")

LEVEL_TEXT = ("Coq theorems (all histories, no bounds) about an executable store-level model transcribed from ondriks_mtbdd.hh (two unique tables, nodes with "
              "reference counters, live objects; spawnLeaf / spawnInternal / constructMTBDD incl. sink disposal / recursive release / copy / assignment with "
              "self test / destruction; apply = hash-consing of the functional result): every step preserves the invariant (counter = number of referrers, "
              "tables inverse to the heap, no dangling child, denoted diagrams well formed, every node referenced), never changes what another live object "
              "denotes, never faults (no release of a missing or zero-count node), deletes each node at most once and only unreferenced ones, and the table "
              "sizes are a function of the set of live diagrams (hence back to baseline). Tie to the C++: the instantiated templates rebuilt from /repo's "
              "working tree are run on generated histories; after every step both table sizes and all live values are compared with the extracted model.")
LEVEL_NOTE = ("Trusted: Coq kernel, ExtrOcamlBasic extraction, OCaml/C++ glue, the `#define private public` read of the two table sizes, generators. The C++ is "
              "modelled, not verified; apply and GetMtbddForPrefix are modelled as hash-consing their functional result (memo table not modelled); construction, "
              "ExtendWith, copy, assignment, destruction and the recursive release are transcribed; addresses are never reused in the model. All theorems of "
              "DESIGN.md 5/C18 are proved in full (no _partial theorem): step_inv, frame, no double release (per step and over a whole history), table sizes "
              "determined by the live diagrams, baseline. The drivers run every case in a forked worker so that a crash or hang caused by a counting error "
              "becomes a failed case. No axioms (closed under the global context).")
TECHNIQUE = "Coq proof of a reference-counting store model; extracted-model correspondence (table sizes and values after every step) against the instantiated templates"
DESIGN_REF = "DESIGN.md 5/C18"
READY = True
