"""C19 — invariance under renaming / re-ordering and the laws of language inclusion, on the shipped automata."""
import os
import gen
ID = "C19"; DRIVER = "c19"; MODEL = "c19"
COQ_PROPS = ["Properties_C19.v"]; COQ_EXTRACT = "Extract_C19.v"
LEVEL = "proof"
REPO = os.environ.get("VERIF_REPO", "/repo")
RULE = ("cases = pairs (A,B) of automata shipped in the repository (automata/small_timbuk, tests/aut_timbuk_smaller; thorough: all listed pairs of "
        "tests/aut_timbuk_smaller_incl.txt) and of generated medium-sized automata (6-40 states, beyond the reach of the verified decider), each with a seeded twin pair built through the public API (random bijection on states, shuffled rule "
        "insertion order, symbols registered in shuffled order into a fresh alphabet). Per pair: 8 selections on (A,B), (A,A) and the twins, emptiness, 13 laws x 2 "
        "selections, sizes after Reduce / trimming, downward and upward simulation against the twin's. Every implementation call runs under a per-call time limit; a call "
        "that hits it is inconclusive, never a violation. Non-trivial = at least 20 answered questions; distinct by (files, seed)")
EXHAUSTIVE_SLICES = "none"
TRUSTED_BASE = [
    "Coq 8.16.1 kernel (coqc, full .vo build); no native_compute",
    "extraction: Require Extraction + ExtrOcamlBasic only; OCaml 4.13.1",
    "hand-written glue: harness/ml/common.ml.in, c19_main.ml (maps characters to outcomes, applies the extracted judges), harness/drv/c19.cc (twins, fork + per-call time limit, comparison of the two simulation relations under the renaming), harness/core.py",
    "modelled, not verified: everything in libvata; here the expected values are constants derived from theorems (laws, equivariance), so no second implementation is trusted",
]
ASSUMPTIONS = ["automata are read with libvata's own Timbuk parser", "a call exceeding the per-call limit is inconclusive for that selection (speed is not a property)",
               "size invariance of Reduce under renaming is tied by correspondence only (the Coq corollaries cover verdicts, emptiness, laws, and the size after trimming)"]
FLAVOURS = {"quick": ["plain"], "thorough": ["plain"]}
def small_files():
    d = os.path.join(REPO, "automata", "small_timbuk")
    fs = sorted(f for f in os.listdir(d) if f.startswith("A") and f[1:].isdigit())
    return [os.path.join(d, f) for f in fs]
def smaller_files():
    d = os.path.join(REPO, "tests", "aut_timbuk_smaller")
    return [os.path.join(d, f) for f in sorted(os.listdir(d))]
CORPUS = []
def cases(rng, tier):
    cs = []
    sm, big = small_files(), smaller_files()
    lim = 1500 if tier == "quick" else 2000
    pairs = [(a, b) for a in sm for b in sm]
    rng.shuffle(pairs)
    for (a, b) in pairs[: (14 if tier == "quick" else 400)]:
        cs.append(("laws %s %s %d %d" % (a, b, rng.randrange(1 << 30), lim), "small_timbuk"))
    bp = [(a, b) for a in big[:8] for b in big[:8]]
    rng.shuffle(bp)
    for (a, b) in bp[: (5 if tier == "quick" else 30)]:
        cs.append(("laws %s %s %d %d" % (a, b, rng.randrange(1 << 30), lim), "aut_timbuk_smaller"))
    # generated medium-sized automata (10-40 states): too large for the verified decider, the laws still prescribe every answer
    ng = 60 if tier == "quick" else 600
    for i in range(ng):
        sg = rng.choice([gen.SIGMA, gen.SIGMA3])
        n = rng.randint(6, 40)
        a = gen.rand_ta(rng, n, rng.randint(n, 3 * n), sigma=sg, pfinal=0.2, leafbias=0.3)
        if rng.random() < 0.5:
            b, _ = gen.permute_states(rng, a)
            for _ in range(rng.randint(0, 3)):
                if rng.random() < 0.5 and b.rules: b.rules.pop(rng.randrange(len(b.rules)))
                else: b.rules += gen.rand_ta(rng, n, 2, sigma=sg).rules
        else:
            m = rng.randint(6, 40)
            b = gen.rand_ta(rng, m, rng.randint(m, 3 * m), sigma=sg, pfinal=0.2, leafbias=0.3)
        if rng.random() < 0.3: a, _ = gen.permute_states(rng, a, sparse=True)
        cs.append(("laws %s %s %d %d" % (a.fmt(), b.fmt(), rng.randrange(1 << 30), 400 if tier == "quick" else 1500), "generated_medium"))
    # small cyclic pairs on which a downward check must not keep answers obtained under a hypothesis (gen.coinductive_trap_pair /
    # defective_copies_pair): the 8 selections must agree with each other and with their verdicts on the renamed / re-ordered twin
    for i in range(250 if tier == "quick" else 3000):
        a, b = gen.coinductive_trap_pair(rng) if i % 4 else gen.defective_copies_pair(rng)
        cs.append(("laws %s %s %d %d" % (a.fmt(), b.fmt(), rng.randrange(1 << 30), 400 if tier == "quick" else 1500), "generated_trap"))
    # automata whose trimming re-uses the operand's storage (every inner rule has one distinct child state and is productive and reachable)
    # while a final state without rules is dropped: the laws A <= trim(A) <= A are then asked on objects that share storage
    for i in range(120 if tier == "quick" else 1500):
        n = rng.randint(2, 6)
        rules = [(rng.choice([0, 1]), 0, ())] + [(rng.choice([2, 5]) if rng.random() < 0.7 else 3, k + 1, (k,) if rng.random() < 0.7 else (k, k)) for k in range(n)]
        rules = [(f if len(c) != 2 else 3, p, c) for (f, p, c) in rules]
        rules = [(2 if (len(c) == 1 and f == 3) else f, p, c) for (f, p, c) in rules]
        fin = [n] + ([rng.randrange(n)] if rng.random() < 0.4 else []) + [50 + j for j in range(rng.randint(1, 2))]
        a = gen.TA(fin, rules)
        b = gen.rand_ta(rng, 3, 6, sigma=gen.SIGMA) if rng.random() < 0.5 else gen.TA([n], rules)
        cs.append(("laws %s %s %d %d" % (a.fmt(), b.fmt(), rng.randrange(1 << 30), 400), "generated_trim_share"))
    # pairs on which upward inclusion with a simulation must prune by the preorder in the right direction (gen.sim_prune_pair)
    for i in range(60 if tier == "quick" else 1000):
        a, b = gen.sim_prune_pair(rng)
        cs.append(("inv %s %s %d %d %d" % (a.fmt(), b.fmt(), rng.randrange(1 << 30), 1000, 2), "invariance_sim_prune"))
    # invariance stream: small cyclic pairs (split pairs: deciding them needs unions of copies under cyclic sub-goals) with several twins each;
    # only the 8 selections are asked, all answers of a case must coincide
    for i in range(1500 if tier == "quick" else 20000):
        a, b = gen.split_pair(rng)
        if rng.random() < 0.15: a, b = b, a
        cs.append(("inv %s %s %d %d %d" % (a.fmt(), b.fmt(), rng.randrange(1 << 30), 1000, 3), "invariance_split"))
    if tier != "quick":
        listed = [l.split() for l in open(os.path.join(REPO, "tests", "aut_timbuk_smaller_incl.txt")) if len(l.split()) == 3]
        rng.shuffle(listed)
        d = os.path.join(REPO, "tests", "aut_timbuk_smaller")
        for (a, b, _) in listed[:25]:
            cs.append(("laws %s %s %d %d" % (os.path.join(d, a), os.path.join(d, b), rng.randrange(1 << 30), 2000), "aut_timbuk_smaller_listed"))
    return cs
def nontrivial(c, impl, verd):
    for w in verd.split():
        if w.startswith("answered="): return int(w[9:]) >= 20
    return False
def observe(dist, c, impl, verd):
    for w in verd.split():
        if w.startswith("answered="): dist["answered"] = dist.get("answered", 0) + int(w[9:])
        if w.startswith("timeouts="): dist["timeouts_inconclusive"] = dist.get("timeouts_inconclusive", 0) + int(w[9:])
        if w in ("included", "notincluded", "unknown"): dist[w] = dist.get(w, 0) + 1
    for w in impl.split():
        if w.startswith("N="):
            n = int(w[2:].split(":")[0]); k = "states<=20" if n <= 20 else "states<=60" if n <= 60 else "states>60"
            dist[k] = dist.get(k, 0) + 1
def explain(c, impl, verd):
    return ("case = laws <file A> <file B> <seed> <per-call limit ms> (inv <A> <B> <seed> <limit> <k>: only the 8 selections, on the pair and on k twins: INV=<8>:<8>:..., every answer must be the same); impl: AB/AA/TW = verdicts of the 8 selections on (A,B), (A,A), twin pair (1 0 T=time limit E=exception); "
            "E = emptiness of A and its twin; LAWS = 13 laws x 2 selections (A<=AuB, B<=AuB, AnB<=A, AnB<=B, AnB<=AuB, A<=Reduce, Reduce<=A, A<=trim, trim<=A, A<=reindexed, reindexed<=A, "
            "A<=reloaded, reloaded<=A); SZ = states after Reduce of A / twin, after trimming of A / twin; SIMD/SIMU = simulation of A equals renamed simulation of the twin")
LEVEL_TEXT = ("Coq corollaries (all automata, no bounds) of the theorems of C01/C02/C03/C05/C14: a verdict or emptiness answer is invariant under renamings injective on the operands' "
              "states and under re-ordering of rules; all selections compute one function; A<=A, A<=AuB, AnB<=A, transitivity, equivalence with the trimmed, re-indexed and reduced "
              "forms; and the judges (must-hold, all-agree, pairwise-agree) accept every implementation that answers with the model's verdict or not at all. Tie to the C++: on the "
              "shipped automata (up to ~90 states / 1400 rules), where no reference can be computed, every observation is compared with the constant its theorem prescribes.")
LEVEL_NOTE = ("Expected values come from theorems, not from a second implementation. Size invariance of Reduce/trimming and equivariance of the simulations are observed (the latter is a theorem "
              "of C04's model). Calls that exceed the per-call time limit are inconclusive. Trusted: Coq kernel, extraction, OCaml/C++ glue (twin construction, relation comparison).")
TECHNIQUE = "Coq-proved laws/equivariance corollaries as oracle for libvata's answers on the shipped large automata and their renamed/re-ordered twins"
DESIGN_REF = "DESIGN.md 5/C19"
READY = True
