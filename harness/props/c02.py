"""C02 — union / intersection of explicit tree automata exact; maps name the states; operands unchanged."""
import gen
ID = "C02"
DRIVER = "c02"
MODEL = "c02"
COQ_PROPS = ["Properties_C02.v"]
COQ_EXTRACT = "Extract_C02.v"
LEVEL = "proof"
RULE = ("cases = pairs (A,B) of explicit tree automata over a ranked alphabet {a/0,b/0,g/1,f/2}(+h/3) with optional pre-filled union maps: corpus; "
        "complete slice (all A with <=2 states,<=2 rules x all B with 1 state,<=2 rules); targeted (overlapping / disjoint / sparse numbers, empty "
        "operands, useless states, unproductive product pairs, pre-filled maps from a previous call or with values far above the counter, "
        "common sub-languages, operands that are modified copies of one base automaton and physically share rule storage); random pairs up to 4+4 states. Each case runs Union, UnionDisjointStates (if disjoint), Intersection, IntersectionBU. "
        "Non-trivial = both operand languages non-empty; distinct by rule/final sets and prefill")
EXHAUSTIVE_SLICES = "all A with <=2 states, <=2 rules x all B with 1 state, <=2 rules over {a/0,b/0,g/1,f/2}, every final set, no prefill (the run as a whole is not exhaustive)"
TRUSTED_BASE = [
    "Coq 8.16.1 kernel (coqc, full .vo build); vm_compute only in Examples; no native_compute",
    "extraction: Require Extraction + ExtrOcamlBasic only; N, positive, nat stay inductive; no Extract Constant of our own; OCaml 4.13.1",
    "hand-written glue: harness/ml/common.ml.in, ta_io.ml.in, c02_main.ml, harness/drv/c02.cc + common.hh, harness/gen.py, harness/core.py",
    "modelled, not verified: src/explicit_tree_union.cc, explicit_tree_isect.cc, explicit_tree_isect_bu.cc, ReindexStates; tied by gates (property evaluated on libvata's results by verified deciders) on generated pairs; structural equality with the (R) models is drift",
]
ASSUMPTIONS = ["operands use a ranked alphabet (a symbol has one arity), as Intersection asserts",
               "pre-filled union maps are injective with values the shared counter cannot produce or come from a previous call (the form the API can honour)",
               "correspondence is sampling: an input shape no generator produces is not covered"]
FLAVOURS = {"quick": ["plain"], "thorough": ["plain", "asan"]}

def line(a, b, pl=(), pr=()):
    f = lambda m: " ".join([str(len(m))] + ["%d %d" % kv for kv in m])
    return "bin %s %s PL %s PR %s" % (a.fmt(), b.fmt(), f(list(pl)), f(list(pr)))

CORPUS = [
    "bin T 0 0 T 0 0 PL 0 PR 0",
    "bin T 1 0 1 0 0 0 T 0 0 PL 0 PR 0",
    "bin T 1 0 2 0 0 0 3 0 2 0 0 T 1 1 2 0 1 0 3 1 2 1 1 PL 0 PR 0",
    "bin T 1 0 2 0 0 0 3 0 2 0 0 T 1 0 2 0 0 0 3 0 2 0 0 PL 1 0 1000 PR 1 0 2000",
    "bin T 2 0 1 3 0 0 0 1 1 0 2 1 1 0 T 1 2 3 0 2 0 2 2 1 2 2 3 1 3 PL 0 PR 0",
]

def wide_pair(rng):
    """rules of arity around the word sizes (31-34, 63-65): A's rule has the leaf states of `a` or `b` at every position, B's rule demands the same leaves (or, in 40 % of the pairs, another leaf at one position); the product must pair the children position by position, whatever the position"""
    w = rng.choice([31, 32, 33, 34, 63, 64, 65]); sym = 200 + w
    cha = [rng.choice([1, 3]) for _ in range(w)]
    chb = [5 if c == 1 else 6 for c in cha]      # every state has exactly one tree: the judge's subset constructions stay linear
    if rng.random() < 0.4:                       # one position that does not fit: the intersection is empty
        i = rng.choice([0, w - 1, w - 1, min(w - 1, 32), rng.randrange(w)]); chb[i] = 6 if cha[i] == 1 else 5
    a = gen.TA([0], [(0, 1, ()), (1, 3, ()), (sym, 0, tuple(cha))])
    b = gen.TA([4], [(0, 5, ()), (1, 6, ()), (sym, 4, tuple(chb))])
    if rng.random() < 0.3: b = b.rename({q: q + 100 for q in b.states()})
    return (a, b) if rng.random() < 0.7 else (b, a)

def targeted(rng):
    out = []
    for _ in range(40): out.append(line(*wide_pair(rng)))
    for _ in range(300):   # disjoint numbering (UnionDisjointStates applies), sparse
        a = gen.rand_ta_sized(rng, 3, 7); b = gen.rand_ta_sized(rng, 3, 7)
        off = rng.choice([10, 100, 4])
        b = b.rename({q: q + off for q in b.states()})
        if rng.random() < 0.3: a, _ = gen.permute_states(rng, a, sparse=True); a = a.rename({q: q + 1000 for q in a.states()})
        out.append(line(a, b))
    for _ in range(300):   # prefilled maps: injective, far above the counter, disjoint between sides; partial
        a = gen.rand_ta_sized(rng, 3, 7); b = gen.rand_ta_sized(rng, 3, 7)
        sa = sorted(a.states()); sb = sorted(b.states())
        pl = [(q, 1000 + i) for i, q in enumerate(sa) if rng.random() < 0.6]
        pr = [(q, 2000 + i) for i, q in enumerate(sb) if rng.random() < 0.6]
        out.append(line(a, b, pl, pr))
    for _ in range(300):   # common sub-language: B = renamed A plus noise; intersections non-empty
        a = gen.rand_ta_sized(rng, 3, 7, leafbias=0.4, pfinal=0.6)
        b, _ = gen.permute_states(rng, a)
        extra = gen.rand_ta(rng, 3, 3, states=sorted(b.states()) or [0])
        b.rules += extra.rules
        if rng.random() < 0.5 and b.rules: b.rules.pop(rng.randrange(len(b.rules)))
        out.append(line(a, b) if rng.random() < 0.5 else line(b, a))
    for _ in range(500):   # operands that physically share storage: copies of one base automaton, modified afterwards
        base = gen.rand_ta(rng, rng.randint(2, 4), rng.randint(2, 7), pfinal=0.0, leafbias=0.2)
        st = sorted(base.states()) or [0]
        a = base.copy(); b = base.copy()
        a.rules += gen.rand_ta(rng, 0, rng.randint(0, 3), states=st + [max(st) + 1], leafbias=0.6).rules
        b.rules += gen.rand_ta(rng, 0, rng.randint(0, 3), states=st + [max(st) + 1], leafbias=0.6).rules
        a.finals = [q for q in st if rng.random() < 0.5] or [st[0]]
        b.finals = [q for q in st if rng.random() < 0.5] or [st[0]]
        if rng.random() < 0.3: b.finals = list(a.finals)
        out.append(line(a, b) + " SHARE %d" % len(base.rules))
    for _ in range(400):   # rule-owning and final states of the operands are disjoint, but one operand mentions, only as a child, a number that is a
        a = gen.rand_ta_sized(rng, 3, 7, leafbias=0.4, pfinal=0.5)          # live state of the other (a dead rule there): Union must keep them apart
        b = gen.rand_ta_sized(rng, 3, 7, leafbias=0.3, pfinal=0.6)
        b = b.rename({q: q + 10 for q in b.states()})
        sa = sorted(a.states()) or [0]
        rules = []
        for (f, p, cs) in b.rules:
            if cs and rng.random() < 0.4:
                cs = list(cs); cs[rng.randrange(len(cs))] = rng.choice(sa); cs = tuple(cs)
            rules.append((f, p, cs))
        b.rules = rules
        out.append(line(a, b) if rng.random() < 0.5 else line(b, a))
    for _ in range(150):   # useless / unproductive pairs
        a = gen.rand_ta_sized(rng, 4, 8, leafbias=0.15, pfinal=0.3); b = gen.rand_ta_sized(rng, 4, 8, leafbias=0.15, pfinal=0.3)
        out.append(line(a, b))
    return out

def cases(rng, tier):
    cs = [(l, "corpus") for l in CORPUS]
    bs = list(gen.enum_ta(1, 2))
    ex = [line(a, b) for a in gen.enum_ta(2, 2) for b in bs]
    if tier == "quick": ex = rng.sample(ex, 4000)
    cs += [(l, "exhaustive" if tier != "quick" else "exhaustive-sample") for l in ex]
    cs += [(l, "targeted") for l in targeted(rng)]
    n = 1500 if tier == "quick" else 30000
    for _ in range(n):
        sg = rng.choice([gen.SIGMA, gen.SIGMA, gen.SIGMA3])
        a = gen.rand_ta_sized(rng, 4, 8, sigma=sg); b = gen.rand_ta_sized(rng, 4, 8, sigma=sg)
        cs.append((line(a, b), "random"))
    return cs

def nontrivial(c, impl, verd): return " Anonempty" in verd and " Bnonempty" in verd
def observe(dist, c, impl, verd):
    for k in ("Aempty", "Bempty", "Xempty", "Xnonempty", "overlap", "disjoint"):
        if (" " + k) in verd: dist[k] = dist.get(k, 0) + 1
    if " SHARE " in c: dist["operands_sharing_storage"] = dist.get("operands_sharing_storage", 0) + 1
    if " PL 0 PR 0" not in c: dist["prefilled"] = dist.get("prefilled", 0) + 1
def shrink_candidates(c):
    if " SHARE " in c: return iter(())          # the sharing prefix must stay aligned: such cases are reported unshrunk
    return gen.shrink_automata(c)
def explain(c, impl, verd):
    return ("case = bin <A> <B> PL <prefilled lhs map> PR <prefilled rhs map>; impl = U <Union result> ML/MR <final maps> D <UnionDisjointStates|SKIP> "
            "X <Intersection> PM <product map> XB <IntersectionBU> PM <product map> UN/XN/XBN <the same operations called without the optional maps> I <operands afterwards>; gates: *_lang = exact union/intersection "
            "language (C02_gate_union / C02_gate_isect), *_names = every result state is named by the reported map and has the named state's (pair's) "
            "language, operand_changed, union_prefill_kept")

LEVEL_TEXT = ("Coq theorems (all automata, no bounds): Union as built by re-indexing under any valid pair of maps, UnionDisjointStates under disjointness, "
              "and both product constructions (top-down from final pairs, bottom-up) accept exactly the union / intersection; every product state has "
              "the intersection of its components' state languages; the boolean gates used on libvata's results (language of the result, naming of every "
              "result state by the reported maps) decide exactly these clauses. Tie to the C++: libvata rebuilt from /repo runs the four operations on "
              "generated pairs and the extracted verified gates judge results, maps and untouched operands; structural equality with the models under "
              "the reported maps is reported as drift.")
LEVEL_NOTE = ("The worklist algorithms and the copy-on-write store are modelled at result level only (rule sets under reported maps); of the worklists only the numbering of product states (fresh number = size of the translation map) is modelled algorithmically (C02_numbering_*). Trusted: Coq kernel, "
              "ExtrOcamlBasic extraction, OCaml/C++ glue, generators. No axioms (closed under the global context).")
TECHNIQUE = "Coq proof of union/product models + verified language gates; extracted-model correspondence with reported translation maps"
DESIGN_REF = "DESIGN.md 5/C02"
READY = True
