"""C06 — Complement accepts exactly the trees over the alphabet the automaton rejects."""
import gen
ID = "C06"; DRIVER = "c06"; MODEL = "c06"
COQ_PROPS = ["Properties_C06.v"]; COQ_EXTRACT = "Extract_C06.v"
LEVEL = "proof"
RULE = ("cases = (A, Sigma): explicit tree automaton with <=3-4 dense states whose symbols are drawn from a fresh on-the-fly alphabet Sigma of 1-4 ranked "
        "symbols (ranks 0-2, occasionally 3), including symbols registered but unused by A, nullary-only alphabets, empty and universal languages; "
        "corpus + complete slice (alphabet {a/0,g/1} and {a/0,b/0,f/2}, all A with <=2 states and <=2 rules) + targeted + random. Non-trivial = both A "
        "and its complement non-empty; distinct by (A, Sigma)")
EXHAUSTIVE_SLICES = "all A with <=2 states and <=2 rules over {a/0,g/1} and over {a/0,b/0,f/2}, every final set (the run as a whole is not exhaustive)"
TRUSTED_BASE = [
    "Coq 8.16.1 kernel (coqc, full .vo build); no vm_compute in the property theorems; no native_compute",
    "extraction: Require Extraction + ExtrOcamlBasic only; N, positive, nat stay inductive; no Extract Constant of our own; OCaml 4.13.1",
    "hand-written glue: harness/ml/common.ml.in, ta_io.ml.in, c06_main.ml, harness/drv/c06.cc + common.hh (fresh OnTheFlyAlphabet per case), harness/gen.py, harness/core.py",
    "modelled, not verified: src/explicit_tree_comp_down.hh/.cc (choice-function construction, macro-state cache) and the final RemoveUselessStates; tied at language level by the verified gate (universality over Sigma of A u C, emptiness of A n C, C inside T(Sigma))",
]
ASSUMPTIONS = ["states of A are dense 0..n-1 (Complement indexes vectors by state number)", "the tie is semantic (language level), not structural: macro-state numbers are internal",
               "correspondence is sampling: an input shape no generator produces is not covered"]
FLAVOURS = {"quick": ["plain"], "thorough": ["plain", "asan"]}
def line(a, ranks): return "comp %s S %d %s" % (a.fmt(), len(ranks), " ".join(map(str, ranks)))
CORPUS = [
    "comp T 0 0 S 1 0", "comp T 0 0 S 2 0 1", "comp T 1 0 1 0 0 0 S 1 0", "comp T 1 0 1 0 0 0 S 2 0 0",
    "comp T 1 0 2 0 0 0 1 0 1 0 S 2 0 1", "comp T 1 0 2 0 0 0 2 0 2 0 0 S 3 0 0 2", "comp T 1 1 3 0 0 0 1 1 0 2 1 2 0 1 S 3 0 0 2",
]
def rand_case(rng, maxs, maxr):
    ranks = [0] + [rng.choice([0, 1, 1, 2, 2]) for _ in range(rng.randint(0, 3))]
    if rng.random() < 0.1: ranks.append(3)
    rng.shuffle(ranks)
    sigma = [(i, r) for i, r in enumerate(ranks)]
    used = [s for s in sigma if rng.random() < 0.8] or sigma[:1]
    n = rng.randint(1, maxs)
    a = gen.rand_ta(rng, n, rng.randint(0, maxr), sigma=used, pfinal=0.5, leafbias=0.4)
    return line(a, ranks)
def cases(rng, tier):
    cs = [(l, "corpus") for l in CORPUS]
    for a in gen.enum_ta(2, 2, sigma=[(0, 0), (1, 1)]): cs.append((line(a, [0, 1]), "exhaustive"))
    ex = [line(a, [0, 0, 2]) for a in gen.enum_ta(2, 2, sigma=[(0, 0), (1, 0), (2, 2)])]
    cs += [(l, "exhaustive") for l in ex]
    for _ in range(300):   # universal / near-universal languages: one state with most rules
        ranks = [0, rng.choice([0, 1]), rng.choice([1, 2])]
        rules = [(i, 0, tuple([0] * r)) for i, r in enumerate(ranks) if rng.random() < 0.85]
        a = gen.TA([0] if rng.random() < 0.9 else [], rules)
        if rng.random() < 0.5: a.rules += gen.rand_ta(rng, 2, 2, sigma=list(enumerate(ranks))).rules
        cs.append((line(a, ranks), "targeted"))
    n = 4000 if tier == "quick" else 40000
    for _ in range(n): cs.append((rand_case(rng, 3, 6), "random"))
    if tier != "quick":
        for _ in range(3000): cs.append((rand_case(rng, 4, 8), "random"))
    return cs
def nontrivial(c, impl, verd): t = verd.split(); return "Anonempty" in t and "Cnonempty" in t
def observe(dist, c, impl, verd):
    for k in verd.split():
        if k in ("Aempty", "Anonempty", "Cempty", "Cnonempty"): dist[k] = dist.get(k, 0) + 1
    k = "alphabet_size_%s" % c.split(" S ")[1].split()[0]
    dist[k] = dist.get(k, 0) + 1
def shrink_candidates(c):
    head, tail = c.split(" S ")
    for cand in gen.shrink_automata(head): yield cand + " S " + tail
def explain(c, impl, verd):
    return ("case = comp <A> S <n> <rank of symbol 0..n-1>; impl = C <Complement result> I <operand afterwards>; gate complement = over Sigma every tree is "
            "accepted by A or C, by no means both, and C accepts only trees over Sigma (C06_gate)")
LEVEL_TEXT = ("Coq theorems (all automata and alphabets, no bounds): (A) the choice-function construction of the code, as a top-down run relation over macro-states, is exact: a macro-state P accepts t iff t is over Sigma and no state of P accepts t in A (macro_spec, by induction on trees with a finite-choice lemma), hence from the set of final states exactly the rejected trees over Sigma; (gate) the boolean gate evaluated on libvata's result C decides exactly the property — every tree "
              "over Sigma is accepted by exactly one of A and C, and C accepts no tree outside Sigma — using the verified inclusion decider, the "
              "verified intersection gate and a universal automaton proved to accept exactly T(Sigma). Tie to the C++: Complement of libvata rebuilt from "
              "/repo, each case under a fresh on-the-fly alphabet (with unused symbols, nullary-only alphabets, empty and universal languages), judged by "
              "the extracted gate.")
LEVEL_NOTE = ("The construction is modelled relationally (crun); the executable numbering of macro-states, the antichain refinement of child sets and the final trimming are not modelled; the tie is semantic (language level) on "
              "generated inputs. Trusted: Coq kernel, ExtrOcamlBasic extraction, OCaml/C++ glue, generators. No axioms.")
TECHNIQUE = "Coq-verified complement gate (universality + disjointness + alphabet) applied to libvata's result; correspondence on generated automata/alphabets"
DESIGN_REF = "DESIGN.md 5/C06"
READY = True
