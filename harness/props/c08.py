"""C08 — BDD encodings: load/dump, union, intersection, trimming, conversion keep exact languages; operands untouched."""
import gen
ID = "C08"; DRIVER = "c08"; MODEL = "c08"
COQ_PROPS = ["Properties_C08.v"]; COQ_EXTRACT = "Extract_C08.v"
LEVEL = "proof"
RULE = ("cases = histories (3-10 steps, <=5 live handles) over a pool of automata in ONE BDD encoding (bottom-up or top-down): load from Timbuk text, "
        "new-empty + load-into (with a copy alive), load-further-rules into a table-sharing copy, copy, SetStateFinal, Union, UnionDisjointStates (disjoint numbers or table-sharing copies), "
        "Intersection, RemoveUnreachableStates, RemoveUselessStates, destroy; after EVERY step EVERY live handle is dumped (and, bottom-up, its "
        "GetTopDownAut()). corpus (D11/D12 shapes) + targeted (table-sharing copies differing in final states as union/intersection operands; load into a "
        "shared table; intersections of quotient pairs and of richer automata in both operand orders) + random histories over automata with <=3 states. Non-trivial = history with at least one binary operation whose result is non-empty "
        "and at least 3 live handles at the end; distinct by the history text")
EXHAUSTIVE_SLICES = "none (histories are sampled)"
TRUSTED_BASE = [
    "Coq 8.16.1 kernel (coqc, full .vo build); no native_compute",
    "extraction: Require Extraction + ExtrOcamlBasic only; N, positive, nat stay inductive; no Extract Constant of our own; OCaml 4.13.1",
    "hand-written glue: harness/ml/common.ml.in, ta_io.ml.in, c08_main.ml (steps the extracted pool model, re-bases it on verified observations), harness/drv/c08.cc + bdd_common.hh + common.hh, harness/gen.py, harness/core.py",
    "translator: harness/scrape_dispatch.py regenerates coq/DispatchTable.v from /repo on every run (here: SYMBOL_SIZE, SYMBOL_ARITY_LENGTH and the formula of MAX_SYMBOL_ARITY, tied to the arity-prefix model by C08_arity_constants_from_source)",
    "modelled, not verified: MTBDD apply functors, transition-table sharing, AND/OR-graph usefulness analysis, arity prefixes; a handle is modelled by the rule set it denotes; tied by language equivalence (verified decider) of every live handle after every step",
]
ASSUMPTIONS = ["dumps are read back through libvata's own Timbuk serializer/parser (C13 checks those)", "UnionDisjointStates is only applied to operands with disjoint state numbers or to table-sharing copies",
               "correspondence is sampling: a history shape no generator produces is not covered"]
FLAVOURS = {"quick": ["plain"], "thorough": ["plain", "asan"]}
SANITIZER_CAP = 3000
SIG = [(0, 0), (1, 0), (2, 1), (3, 2)]
CORPUS = [
    "bu 5 ; L 0 T 1 101 2 0 100 0 3 101 2 100 100 ; L 1 T 1 1 3 1 0 0 2 1 1 0 2 1 1 1 ; L 2 T 1 1 2 0 0 0 2 1 1 0 ; UD 3 0 1 ; UD 4 0 2",      # D14
    "td 5 ; L 0 T 1 101 2 0 100 0 3 101 2 100 100 ; L 1 T 1 1 2 0 2 0 2 1 1 2 ; L 2 T 1 1 1 2 1 1 2 ; UD 3 0 1 ; UD 4 0 2",                        # D14, top-down: dangling child
    "bu 5 ; L 0 T 1 0 2 0 0 0 1 1 0 ; C 1 0 ; F 1 1 ; U 2 0 1 ; UD 3 0 1",          # D11
    "td 5 ; L 0 T 1 0 2 0 0 0 1 1 0 ; C 1 0 ; F 1 1 ; U 2 0 1 ; UD 3 0 1",
    "bu 3 ; N 0 ; C 1 0 ; LI 0 T 1 0 2 0 0 0 1 1 0",                                # D12
    "td 3 ; N 0 ; C 1 0 ; LI 0 T 1 0 2 0 0 0 1 1 0",
    "bu 4 ; L 0 T 1 1 3 0 0 0 1 0 0 3 1 2 0 0 ; L 1 T 1 3 4 0 1 0 1 2 0 3 3 2 1 1 3 3 2 2 2 ; X 2 0 1 ; UL 3 2",
    "td 4 ; L 0 T 1 1 3 0 0 0 1 0 0 3 1 2 0 0 ; L 1 T 1 3 4 0 1 0 1 2 0 3 3 2 1 1 3 3 2 2 2 ; X 2 0 1 ; UL 3 2",
]
def small(rng, off=0):
    a = gen.rand_ta(rng, rng.randint(1, 3), rng.randint(1, 6), sigma=SIG, pfinal=0.5, leafbias=0.45)
    if off: a = a.rename({q: q + off for q in a.states()})
    return a
def history(rng, enc, targeted):
    steps, live, info, nxt = [], [], {}, 0          # info[k] = ("loaded", offset) | ("copy", src) | "derived"
    n = rng.randint(3, 10)
    def fresh():
        nonlocal nxt
        k = nxt; nxt += 1; return k
    while len(steps) < n:
        r = rng.random()
        if not live or (r < 0.22 and len(live) < 5):
            k = fresh(); off = rng.choice([0, 0, 10, 20]); steps.append("L %d %s" % (k, small(rng, off).fmt())); live.append(k); info[k] = ("loaded", off)
        elif r < 0.30 and len(live) < 4 and len(steps) + 3 <= n:
            k = fresh(); j = fresh()
            steps += ["N %d" % k, "C %d %d" % (j, k), "LI %d %s" % (rng.choice([k, j]), small(rng).fmt())]; live += [k, j]; info[k] = info[j] = "derived"
        elif r < 0.45 and len(live) < 5:
            j = rng.choice(live); k = fresh(); steps.append("C %d %d" % (k, j)); live.append(k); info[k] = ("copy", j)
        elif r < 0.58:
            k = rng.choice(live); steps.append("F %d %d" % (k, rng.randrange(4)))
        elif r < 0.72 and len(live) < 5:
            i, j = rng.choice(live), rng.choice(live); k = fresh()
            if targeted and rng.random() < 0.6:
                cps = [(x, info[x][1]) for x in live if isinstance(info[x], tuple) and info[x][0] == "copy" and info[x][1] in live]
                if cps: i, j = rng.choice(cps); (i, j) = (i, j) if rng.random() < 0.5 else (j, i)
            ud = False
            if isinstance(info[i], tuple) and isinstance(info[j], tuple):
                if info[i][0] == "loaded" and info[j][0] == "loaded" and info[i][1] != info[j][1]: ud = True
                if info[i] == ("copy", j) or info[j] == ("copy", i): ud = True
            steps.append("%s %d %d %d" % ("UD" if (ud and rng.random() < 0.6) else "U", k, i, j)); live.append(k); info[k] = "derived"
        elif r < 0.84 and len(live) < 5:
            i, j = rng.choice(live), rng.choice(live); k = fresh(); steps.append("X %d %d %d" % (k, i, j)); live.append(k); info[k] = "derived"
        elif r < 0.93 and len(live) < 5:
            i = rng.choice(live); k = fresh(); steps.append("%s %d %d" % (rng.choice(["UR", "UL"]), k, i)); live.append(k); info[k] = "derived"
        elif len(live) > 1:
            k = rng.choice(live); live.remove(k); steps.append("D %d" % k)
            for x in list(info):
                if info[x] == ("copy", k): info[x] = "derived"
    return "%s %d SALT %d%s ; %s" % (enc, len(steps), rng.randrange(12), " MAPS" if rng.random() < 0.3 else "", " ; ".join(steps))
def isect_history(rng, enc):
    """targeted at the product constructions: B random, A := image of B under a merging map (repeated states in A's tuples where B has
    distinct ones; L(B) <= L(A), so both intersections must denote L(B)), or two richer random automata; both operand orders, then trimming"""
    if rng.random() < 0.7:
        a, b = gen.quotient_pair(rng, 4, 8, sigma=SIG)
    else:
        a = gen.rand_ta(rng, rng.randint(2, 4), rng.randint(3, 8), sigma=SIG, pfinal=0.5, leafbias=0.35)
        b = gen.rand_ta(rng, rng.randint(2, 4), rng.randint(3, 8), sigma=SIG, pfinal=0.5, leafbias=0.35)
    if rng.random() < 0.5: b = b.rename({q: q + 10 for q in b.states()})
    steps = ["L 0 " + a.fmt(), "L 1 " + b.fmt(), "X 2 0 1", "X 3 1 0", "%s 4 2" % rng.choice(["UL", "UR"]), "U 5 2 3"]
    return "%s %d SALT %d%s ; %s" % (enc, len(steps), rng.randrange(12), " MAPS" if rng.random() < 0.3 else "", " ; ".join(steps))
def leaf_into_copies(rng, enc):
    """copies of one base automaton (sharing its transition table) into which DIFFERENT leaf rules (and only leaf rules) are loaded afterwards,
    then union / intersection of the copies: exercises copy-on-write of the nullary part separately from the shared table"""
    base = gen.rand_ta(rng, rng.randint(2, 3), rng.randint(1, 5), sigma=[(2, 1), (3, 2)], pfinal=0.5)
    st = sorted(base.states()) or [0]
    if not base.finals: base.finals = [st[0]]
    def leaves():
        return gen.TA([q for q in st if rng.random() < 0.2], [(rng.choice([0, 1]), rng.choice(st), ()) for _ in range(rng.randint(1, 3))])
    steps = ["L 0 " + base.fmt() if rng.random() < 0.7 else "N 0", "C 1 0", "LA 0 " + leaves().fmt(), "LA 1 " + leaves().fmt(),
             "U 2 0 1", "U 3 1 0", "X 4 0 1", "%s 5 2" % rng.choice(["UL", "UR"])]     # no UnionDisjointStates: the state sets overlap and the rules differ (outside its precondition)
    if rng.random() < 0.4: steps.insert(2, "C 6 1")
    return "%s %d SALT %d%s ; %s" % (enc, len(steps), rng.randrange(12), " MAPS" if rng.random() < 0.3 else "", " ; ".join(steps))
def shared_finals(rng, enc):
    """copies of one base automaton (sharing its transition table) that get DIFFERENT final states afterwards; the base contains duplicated
    states (q and q+5 carry the same rules), so that trees are accepted by both copies through different states: union / intersection of
    the copies must be computed on the languages, not on the sets of final states"""
    half = gen.rand_ta(rng, rng.randint(1, 3), rng.randint(2, 6), sigma=SIG, pfinal=0.0, leafbias=0.45)
    st = sorted(half.states()) or [0]
    rules = list(half.rules)
    for (f, p, cs) in half.rules:
        rules.append((f, p + 5, tuple((c + 5) if rng.random() < 0.7 else c for c in cs)))
    base = gen.TA([q for q in st if rng.random() < 0.15], rules)
    def fin(shift):
        return gen.TA([(q + 5 if (shift and rng.random() < 0.8) else q) for q in st if rng.random() < 0.5] or [st[0] + (5 if shift else 0)], [])
    f1, f2 = fin(False), fin(True)
    if rng.random() < 0.3: f2 = gen.TA([q for q in f1.finals if rng.random() < 0.6] + [rng.choice(st) + 5], [])
    steps = ["L 0 " + base.fmt(), "C 1 0", "C 2 0", "LA 1 " + f1.fmt(), "LA 2 " + f2.fmt(), "X 3 1 2", "X 4 2 1", "U 5 1 2",
             "%s 6 3" % rng.choice(["UL", "UR"])]
    if rng.random() < 0.4: steps.append("UD 7 1 2")
    if rng.random() < 0.4: steps += ["U 8 0 1", "X 9 8 2"]
    return "%s %d SALT %d%s ; %s" % (enc, len(steps), rng.randrange(12), " MAPS" if rng.random() < 0.3 else "", " ; ".join(steps))
def repeated_ud(rng, enc):
    """UnionDisjointStates applied twice (or more) to the SAME left operand with right operands that re-use each other's state numbers
    (every call satisfies its precondition): what one call leaves behind in a table the left operand shares must not reach the next result
    (D14). Right operands may mention states without rules (dangling children), which must stay dead."""
    a = small(rng, 100)
    steps = ["L 0 " + a.fmt()]
    k = 1; res = []
    for _ in range(rng.randint(2, 3)):
        b = small(rng)
        if rng.random() < 0.4:
            st = sorted(b.states()) or [0]
            f, ar = rng.choice([(2, 1), (3, 2)])
            b.rules.append((f, rng.choice(st), tuple(rng.choice(st + [max(st) + 1, max(st) + 2]) for _ in range(ar))))
        steps.append("L %d %s" % (k, b.fmt())); rhs = k; k += 1
        steps.append("UD %d 0 %d" % (k, rhs)); res.append(k); k += 1
        if rng.random() < 0.3: steps.append("D %d" % res.pop())
    if len(res) >= 2 and rng.random() < 0.5: steps.append("U %d %d %d" % (k, res[0], res[1])); k += 1
    if rng.random() < 0.5: steps.append("%s %d 0" % (rng.choice(["UL", "UR"]), k)); k += 1
    return "%s %d SALT %d%s ; %s" % (enc, len(steps), rng.randrange(12), " MAPS" if rng.random() < 0.3 else "", " ; ".join(steps))
def cases(rng, tier):
    cs = [(l, "corpus") for l in CORPUS]
    for enc in ("bu", "td"):
        for _ in range(150 if tier == "quick" else 2500): cs.append((repeated_ud(rng, enc), "targeted_repeated_ud"))
    for enc in ("bu", "td"):
        for _ in range(150 if tier == "quick" else 2500): cs.append((shared_finals(rng, enc), "targeted_shared_finals"))
    for enc in ("bu", "td"):
        for _ in range(200 if tier == "quick" else 2500): cs.append((leaf_into_copies(rng, enc), "targeted_leaf_into_copies"))
    nt, nr = (250, 500) if tier == "quick" else (2000, 5000)
    for enc in ("bu", "td"):
        for _ in range(nt * 2): cs.append((isect_history(rng, enc), "targeted_isect"))
        for _ in range(nt): cs.append((history(rng, enc, True), "targeted"))
        for _ in range(nr): cs.append((history(rng, enc, False), "random"))
    return cs
def nontrivial(c, impl, verd): return "isect_nonempty" in verd or (" U " in c and c.count(" ; ") >= 5)
def observe(dist, c, impl, verd):
    for op in ("L", "LI", "LA", "C", "F", "U", "UD", "X", "UR", "UL", "D"):
        n = c.count("; %s " % op)
        if n: dist["op_" + op] = dist.get("op_" + op, 0) + n
    dist["enc_" + c[:2]] = dist.get("enc_" + c[:2], 0) + 1
    if "truncated_large" in verd: dist["truncated_large(>12 states: judged up to that step)"] = dist.get("truncated_large(>12 states: judged up to that step)", 0) + 1
def shrink_candidates(c):
    parts = c.split(" ; ")
    enc = parts[0].split()[0]; ops = parts[1:]
    salt = (" SALT " + parts[0].split("SALT")[1].strip()) if "SALT" in parts[0] else ""
    for i in range(len(ops) - 1, -1, -1):
        rest = ops[:i] + ops[i + 1:]
        # keep only histories that never use an undefined handle
        defined, ok = set(), True
        for o in rest:
            w = o.split()
            use = {"LA": w[1:2], "C": w[2:3], "F": w[1:2], "D": w[1:2], "U": w[2:4], "UD": w[2:4], "X": w[2:4], "UR": w[2:3], "UL": w[2:3], "LI": w[1:2]}.get(w[0], [])
            if any(int(u) not in defined for u in use): ok = False; break
            if w[0] == "D": defined.discard(int(w[1]))
            elif w[0] not in ("F", "LA"): defined.add(int(w[1]))
        if ok and rest: yield "%s %d%s ; %s" % (enc, len(rest), salt, " ; ".join(rest))
def explain(c, impl, verd):
    return ("case = <encoding> <n> ; op ; ... (see harness/drv/c08.cc for the ops); impl = after every step 'S' the dump of every live handle (and 'TD' the dump of GetTopDownAut() "
            "of every bottom-up handle); gate <op> (at step i) fails when after step i some live handle does not denote the language the pool model prescribes (C08_gate_sound): the "
            "target handle must denote union / intersection / the operand's language, all other handles must be unchanged")
LEVEL_TEXT = ("Coq theorems about a value-level pool model (all histories, no bounds): a step changes no handle but its target (operands keep their languages), union and intersection "
              "results denote exactly the union / intersection of the operands' values, trimming / conversion / copy denote the operand's value, the per-step gate is sound, and "
              "re-basing the model on language-equivalent observations is justified (operations are congruences). Tie to the C++: random and targeted histories on both BDD encodings "
              "of libvata rebuilt from /repo; after every step every live handle (and its top-down conversion) is dumped and compared by the extracted verified equivalence decider.")
LEVEL_NOTE = ("In the pool model a handle = the rule set it denotes: table sharing and usefulness analysis are not modelled; the symbolic tables (tuple -> MTBDD of parent sets) and their Union / Intersection through Apply2 are modelled separately and proved to give, for every symbol, the union / product of the explicit rules (C08_symbolic_*). Trusted: Coq kernel, ExtrOcamlBasic extraction, OCaml/C++ "
              "glue, libvata's own Timbuk dump/parse for observation, generators. No axioms.")
TECHNIQUE = "Coq proof of a value-level pool model + verified equivalence gate on every live handle after every step of generated histories"
DESIGN_REF = "DESIGN.md 5/C08"
def kf_none(c, impl, verd, k): return False
READY = True
