"""C20 — no memory errors / undefined behaviour (partial by construction; category `other`)."""
import importlib, os, random, re
import gen
ID = "C20"; DRIVER = "c20"; MODEL = "c20"
COQ_PROPS = ["Properties_C20.v"]; COQ_EXTRACT = "Extract_C20.v"
LEVEL = "other"
HERE = os.path.dirname(os.path.abspath(__file__))

def _ready_props():
    out = []
    for f in sorted(os.listdir(HERE)):
        if f.endswith(".py") and f[:-3] != "c20" and f[0] == "c" and f[1:3].isdigit():
            try:
                m = importlib.import_module(f[:-3])
            except Exception:
                continue
            if getattr(m, "READY", False) and not hasattr(m, "route"): out.append(m)
    return out
_PROPS = _ready_props()
DRIVERS = ["c20"] + sorted(set(m.DRIVER for m in _PROPS))
MODELS = ["c20"]
FLAVOURS = {"quick": ["plain", "asan"], "thorough": ["plain", "asan", "valgrind"]}   # plain: the allocator really recycles addresses (ASan quarantines them)
RULE = ("two streams. (1) protocol cases: random op sequences (allocate a set / drop a handle / memo lookup; allocate / reclaim) on Util::Cache + CachedBinaryOp and on "
        "CachingAllocator instantiated from /repo/src/util, with small value domains so that objects die and addresses are recycled, judged by the extracted protocol models. "
        "(2) sweep: the corpus and a seeded sample of the quick-tier cases of every other claimed property (loading, combining, trimming, reducing, complementing, simulating, "
        "comparing automata in every encoding; MTBDD histories; parser inputs), run through that property's driver built with -fsanitize=address,undefined "
        "-fno-sanitize-recover=all (thorough: also under valgrind for uninitialised reads); a sanitizer report, crash or hang on a case is a violation with that case as replay. "
        "Non-trivial = protocol case with at least 3 lookups / any sweep case that ran to completion; distinct by case text")
EXHAUSTIVE_SLICES = "none"
EXPLANATION = ("Theorems (Coq, all histories): memo lookups return f of the current contents under arbitrary address reuse as long as the cache's deleter invalidates the memo (refuted "
               "without it); the allocator pool never hands out a live object under the client discipline (refuted for a double reclaim). MTBDD reference counting is C18's theorem. "
               "Everything else in C20 — bounds, initialisation, iterator validity, signed overflow, use-after-free outside these protocols — cannot be exhibited by a Gallina model; it is "
               "observed by running the correspondence workloads of all properties under ASan/UBSan (and valgrind in the thorough tier). This is instrumented execution, not proof.")
TRUSTED_BASE = [
    "Coq 8.16.1 kernel for the protocol theorems (closed under the global context); vm_compute in the two *_refuted witnesses",
    "extraction: Require Extraction + ExtrOcamlBasic only; OCaml 4.13.1",
    "GCC 12 AddressSanitizer/UndefinedBehaviorSanitizer and valgrind 3.19 memcheck as observers of the implementation side (supporting instruments, not proof)",
    "hand-written glue: harness/drv/c20.cc, harness/ml/c20_main.ml (handle/refcount bookkeeping, address numbering), all other drivers, harness/core.py",
]
ASSUMPTIONS = ["memory-safety outside the three modelled protocols is only observed on the executed workloads", "leaks are not part of the property (detect_leaks=0)"]

def memo_case(rng):
    n = rng.randint(4, 30); ops = []; handles = set()
    for _ in range(n):
        r = rng.random()
        if r < 0.4 or len(handles) < 2:
            h = rng.randrange(5); k = rng.randint(0, 3); es = [rng.randrange(4) for _ in range(k)]
            ops.append(("A %d %d %s" % (h, k, " ".join(map(str, es)))).strip()); handles.add(h)
        elif r < 0.6:
            h = rng.choice(sorted(handles)); ops.append("R %d" % h); handles.discard(h)
        else:
            ops.append("L %d %d" % (rng.choice(sorted(handles)), rng.choice(sorted(handles))))
    return "memo %d %s" % (len(ops), " ".join(ops))
def pool_case(rng):
    n = rng.randint(3, 30)
    ops = ["A" if rng.random() < 0.55 else "R %d" % rng.randrange(8) for _ in range(n)]
    return "pool %d %s" % (len(ops), " ".join(ops))
CORPUS = ["memo 6 A 0 1 0 A 1 1 5 L 0 1 R 0 A 0 1 9 L 0 1", "pool 6 A A R 0 R 0 A A", "memo 5 A 0 0 A 1 0 L 0 1 R 0 L 1 1"]

def cases(rng, tier):
    cs = [(l, "corpus") for l in CORPUS]
    n = 1500 if tier == "quick" else 20000
    for _ in range(n): cs.append((memo_case(rng), "protocol_memo"))
    for _ in range(n // 3): cs.append((pool_case(rng), "protocol_pool"))
    per = 150 if tier == "quick" else 1500
    for m in _PROPS:
        sub = random.Random(rng.randrange(1 << 30))
        try:
            pc = m.cases(sub, "quick")
        except Exception as e:
            continue
        corpus = [c for c in pc if c[1] == "corpus"]
        rest = [c for c in pc if c[1] != "corpus"]
        # stratified by generator family: the targeted families (few cases each in a uniform sample) are the ones that reach the unusual paths
        fams = {}
        for c in rest: fams.setdefault(c[1], []).append(c)
        kf = (4 if m.ID == "C19" else 60) if tier == "quick" else (40 if m.ID == "C19" else 600)
        pick = list(corpus)
        for f in sorted(fams):
            l = fams[f]
            pick += sub.sample(l, kf) if len(l) > kf else l
        for (c, fam) in pick: cs.append(("@%s %s" % (m.ID.lower(), c), "sweep_" + m.ID))
    return cs

_BY_ID = {m.ID.lower(): m for m in _PROPS}
def route(case):
    if case.startswith("@"):
        pid, rest = case[1:].split(" ", 1)
        return (_BY_ID[pid].DRIVER, None, rest)
    return ("c20", "c20", case)
def judge(case, impl):
    if impl.startswith("CRASH"): return "FAIL memory_error " + impl[:300]
    # drivers that run library calls in forked children (time limits) report a child that died as a token, not by dying themselves
    if "Ecrash" in impl.split() or "@CRASH" in impl: return "FAIL memory_error a forked library call died: " + impl[:200]
    if case.startswith("@c19") and re.search(r"(AB|AA|TW|INV|LAWS)=[^ ]*E", impl): return "FAIL memory_error a forked library call died or threw: " + impl[:200]
    if impl.startswith("HANG"): return "FAIL hang"
    if impl == "SKIPPED": return "OK skipped-after-crash-cap"
    return "OK sweep"
def nontrivial(c, impl, verd):
    if c.startswith("@"): return verd.startswith("OK")
    for w in verd.split():
        if w.startswith("lookups="): return int(w[8:]) >= 3
    return " pool" in verd and c.count("A") >= 3
def observe(dist, c, impl, verd):
    k = "sweep_" + c[1:4] if c.startswith("@") else c.split()[0]
    dist[k] = dist.get(k, 0) + 1
def shrink_candidates(c):
    if c.startswith("@"):
        pid, rest = c[1:].split(" ", 1)
        m = _BY_ID.get(pid)
        if m is not None and hasattr(m, "shrink_candidates"):
            for x in m.shrink_candidates(rest): yield "@%s %s" % (pid, x)
        return
    w = c.split()
    kind = w[0]; ops = []; i = 2
    while i < len(w):
        if w[i] == "A" and kind == "memo": k = int(w[i + 2]); ops.append(w[i:i + 3 + k]); i += 3 + k
        elif w[i] == "A": ops.append([w[i]]); i += 1
        elif w[i] == "R": ops.append(w[i:i + 2]); i += 2
        elif w[i] == "L": ops.append(w[i:i + 3]); i += 3
        else: return
    for j in range(len(ops)):
        rest = ops[:j] + ops[j + 1:]
        if kind == "memo":      # keep handle discipline: no use of an undefined handle
            live, ok = set(), True
            for o in rest:
                if o[0] == "A": live.add(o[1])
                elif o[0] == "R":
                    if o[1] not in live: ok = False; break
                    live.discard(o[1])
                elif o[1] not in live or o[2] not in live: ok = False; break
            if not ok: continue
        yield "%s %d %s" % (kind, len(rest), " ".join(" ".join(o) for o in rest))
def explain(c, impl, verd):
    return ("protocol cases: see harness/drv/c20.cc; sweep cases '@cNN <case of property NN>' run that property's driver under the sanitizers: impl CRASH/HANG = sanitizer report, "
            "crash or hang while processing that case (first lines of the report follow)")
LEVEL_TEXT = ("Partial by construction. Proved in Coq (all histories): soundness of the address-keyed memo protocol under address reuse, the allocator pool discipline (and C18's "
              "no-double-release for MTBDD nodes); each with a refuted variant showing what the invariant protects against. Observed, not proved: every driver of every claimed "
              "property is rebuilt with ASan+UBSan (thorough: valgrind too) and run on its corpus and a seeded sample of its workload; any sanitizer report is a violation with the case as replay.")
LEVEL_NOTE = ("A Gallina model cannot exhibit out-of-bounds or uninitialised reads; those clauses of C20 rest on instrumented execution of the generated workloads (sampling), which is "
              "not a proof. Trusted: Coq kernel, extraction, the sanitizers and valgrind, glue.")
TECHNIQUE = "Coq proofs of cache/memo and allocator protocols + sanitizer-instrumented execution of all correspondence workloads (partial)"
DESIGN_REF = "DESIGN.md 5/C20"
READY = True
