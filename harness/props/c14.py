"""C14 — renaming states or symbols yields exactly the image automaton."""
import itertools, re
import gen
ID = "C14"
DRIVER = "c14"
MODEL = "c14"
COQ_PROPS = ["Properties_C14.v"]
COQ_EXTRACT = "Extract_C14.v"
LEVEL = "proof"
RULE = ("cases = (explicit tree automaton, map) pairs for ReindexStates (functor overload returning a new automaton, functor overload into an "
        "existing destination with/without final states, weak-translator overload with a pre-filled map), CollapseStates (map overload) and "
        "TranslateSymbols: corpus, the complete slice of automata with <=2 states and <=2 rules x all 9 maps {0,1}->{0,1,5} (variants cycled), "
        "targeted families (merging maps hitting one destination cluster repeatedly, parent/child images different, non-empty destination "
        "overlapping the image, pre-filled translators, symbol merges) and random automata up to 6 states / 12 rules with identity / injective / "
        "merging / sparse maps; a case is non-trivial when the automaton has >=2 states and >=2 rules and the map is not the identity on them")
TRUSTED_BASE = [
    "Coq 8.16.1 kernel (coqc, full .vo build); vm_compute only in the Example C14_gate_example",
    "extraction: Require Extraction + ExtrOcamlBasic only; N, positive, nat stay inductive; no Extract Constant of our own; OCaml 4.13.1",
    "hand-written glue: harness/ml/common.ml.in, ta_io.ml.in, c14_main.ml (parsing, building the map function from the read-back pairs, calling the "
    "extracted gates), harness/drv/c14.cc + common.hh (table functors, weak translator with counter allocator, canonical printing), harness/props/c14.py, harness/core.py",
    "modelled, not verified: ReindexStates / CollapseStates / TranslateSymbols in src/explicit_tree_aut_core.hh, facade in src/explicit_tree_aut.cc, "
    "include/vata/util/transl_weak.hh; tied by the gates (result = image under the read-back map, exactly; translator extends the pre-filled part "
    "and is total on the used states) on generated inputs",
]
ASSUMPTIONS = ["CollapseStates is called with maps total on the used states (a missing key makes std::unordered_map::at throw; not part of the property)",
               "results are observed by iteration (symbol codes), never through the alphabet",
               "correspondence is sampling: an input shape no generator produces is not covered"]
FLAVOURS = {"quick": ["plain"], "thorough": ["plain", "asan"]}

def fmap(m): return "M %d%s" % (len(m), "".join(" %d %d" % (k, v) for k, v in m))

def case(variant, a, m, off=0, addf=1, dst=None):
    if variant == "RF": return "c14 RF %d %s %s %d" % (addf, a.fmt(), fmap(m), off)
    if variant == "RD": return "c14 RD %d %s %s %s %d" % (addf, a.fmt(), (dst or gen.TA()).fmt(), fmap(m), off)
    if variant == "RW": return "c14 RW %s %s %d" % (a.fmt(), fmap(m), off)
    if variant == "CS": return "c14 CS %s %s" % (a.fmt(), fmap(m))
    if variant == "TS": return "c14 TS %s %s %d" % (a.fmt(), fmap(m), off)
    raise ValueError(variant)

def rand_map(rng, keys, kind=None):
    keys = sorted(keys)
    kind = kind or rng.choice(["identity", "injective", "merging", "merging1", "sparse", "shift"])
    if kind == "identity": return [(k, k) for k in keys]
    if kind == "injective":
        tg = rng.sample(range(0, 2 * len(keys) + 3), len(keys)); return list(zip(keys, tg))
    if kind == "merging":
        n = rng.randint(1, max(1, len(keys) - 1)); return [(k, rng.randrange(n)) for k in keys]
    if kind == "merging1": return [(k, 3) for k in keys]
    if kind == "sparse":
        tg = rng.sample(range(0, 100000), len(keys)); return list(zip(keys, tg))
    return [(k, k + 7) for k in keys]

def any_variant(rng, a, m, total=True):
    """a state-map case in a random API variant; m total on the states of a"""
    v = rng.choice(["RF", "RD", "RW", "CS", "RF", "RD"])
    st = sorted(a.states())
    if v == "RF":
        sub = [e for e in m if rng.random() < 0.8]; off = rng.choice([0, 0, 11, 1000])
        return case("RF", a, sub, off, rng.choice([1, 1, 0]))
    if v == "RD":
        dst = gen.rand_ta_sized(rng, 3, 4, states=None) if rng.random() < 0.7 else gen.TA()
        if dst.rules and rng.random() < 0.6:
            # make the destination overlap the image: same target parents / symbols
            tg = [x for _, x in m] or [0]
            dst = gen.rand_ta(rng, 3, rng.randint(1, 5), states=sorted(set(tg))[:4] + [rng.choice(tg)])
        if rng.random() < 0.2: dst = a.copy()        # the destination is a copy of the source itself
        return case("RD", a, m, 0, rng.choice([1, 0]), dst)
    if v == "RW":
        pre = [e for e in m if rng.random() < rng.choice([0.0, 0.5, 1.0])]
        if rng.random() < 0.3: pre.append((max(st + [0]) + 50, rng.randrange(100)))     # pre-filled entry for an unused state
        return case("RW", a, pre, rng.choice([0, 100, len(st)]))
    extra = [(max(st + [0]) + 60, 1)] if rng.random() < 0.2 else []
    return case("CS", a, m + extra)

def exhaustive():
    tg = [0, 1, 5]
    i = 0
    for a in gen.enum_ta(2, 2):
        for (x, y) in itertools.product(tg, repeat=2):
            m = [(0, x), (1, y)]
            v = ("RF", "CS", "RW", "RD")[i % 4]; i += 1
            if v == "RF": yield case("RF", a, m, 0, 1)
            elif v == "CS": yield case("CS", a, m)
            elif v == "RW": yield case("RW", a, m[: i % 3], 7)
            else: yield case("RD", a, m, 0, (i // 4) % 2, gen.TA([x], [(2, x, (y,))]))
EXHAUSTIVE_SLICES = ("all automata with states {0,1} and <=2 rules over {a/0,b/0,g/1,f/2}, every final set, x all 9 maps into {0,1,5}; the API variant "
                     "(RF/CS/RW/RD) is cycled over the enumeration (the run as a whole is not exhaustive)")

def targeted(rng, n):
    out = []
    for _ in range(n):
        fam = rng.randrange(7)
        if fam == 6:
            # one symbol used with several arities under the SAME parent (a leaf rule and rules with children), then a state renaming
            a = gen.rand_ta_sized(rng, 4, 6)
            st = sorted(a.states()) or [0]
            for _ in range(rng.randint(1, 2)):
                f = rng.choice([0, 2, 3, 9]); p = rng.choice(st)
                a.rules.append((f, p, ()))
                for ar in rng.sample([1, 2, 3], rng.randint(1, 2)):
                    a.rules.append((f, p, tuple(rng.choice(st) for _ in range(ar))))
            rng.shuffle(a.rules)
            m = rand_map(rng, a.states(), rng.choice(["identity", "injective", "shift", "merging", "sparse"]))
            out.append(any_variant(rng, a, m))
        elif fam == 0:
            # many parents owning rules under few symbols, all parents collapse into 1-2 targets (one destination cluster hit repeatedly)
            k = rng.randint(3, 7); st = list(range(k)); syms = [(2, 1), (3, 2), (0, 0)]
            rules = []
            for p in st:
                for _ in range(rng.randint(1, 3)):
                    f, ar = rng.choice(syms); rules.append((f, p, tuple(rng.choice(st) for _ in range(ar))))
            a = gen.TA([q for q in st if rng.random() < 0.4], rules)
            nt = rng.randint(1, 2); m = [(q, 10 + rng.randrange(nt)) for q in st]
            out.append(any_variant(rng, a, m))
        elif fam == 1:
            # parent and children get different images; children of one rule get pairwise different images
            k = rng.randint(2, 5); st = list(range(k))
            rules = [(3, p, (c1, c2)) for p in st for c1 in st for c2 in st if rng.random() < 0.25 and (p != c1 or p != c2)]
            rules += [(2, p, (c,)) for p in st for c in st if p != c and rng.random() < 0.3]
            a = gen.TA([rng.choice(st)], rules or [(2, 0, (1,))])
            m = rand_map(rng, a.states(), rng.choice(["injective", "sparse", "shift", "merging"]))
            out.append(any_variant(rng, a, m))
        elif fam == 2:
            # images colliding after translation: two different source rules with the same image
            st = [0, 1, 2, 3]
            rules = [(3, 0, (2, 3)), (3, 1, (2, 3)), (3, 0, (3, 2)), (2, 0, (2,)), (2, 1, (3,)), (0, 2, ()), (0, 3, ())]
            rng.shuffle(rules); rules = rules[: rng.randint(2, len(rules))]
            a = gen.TA(rng.sample(st, rng.randint(0, 3)), rules)
            m = [(0, 8), (1, 8), (2, rng.choice([5, 8])), (3, 5)]
            m = [e for e in m if e[0] in a.states()]
            out.append(any_variant(rng, a, m))
        elif fam == 3:
            # weak translator: pre-filled part covers none / some / all / more than the used states; allocator collides with pre-filled values
            a = gen.rand_ta_sized(rng, 5, 8)
            st = sorted(a.states())
            pre = [(q, rng.randrange(0, 6)) for q in st if rng.random() < rng.choice([0.0, 0.4, 1.0])]
            if rng.random() < 0.4: pre.append((99, rng.randrange(6)))
            out.append(case("RW", a, pre, rng.choice([0, 3, 50])))
        elif fam == 4:
            # symbols: merges, shifts, a symbol used with several arities, identity
            a = gen.rand_ta_sized(rng, 4, 8, sigma=rng.choice([gen.SIGMA, gen.SIGMA3]))
            if rng.random() < 0.5 and a.rules:
                f = a.rules[0][0]; a.rules.append((f, rng.choice(sorted(a.states())), ())); a.rules.append((f, rng.choice(sorted(a.states())), (rng.choice(sorted(a.states())),)))
            syms = sorted({r[0] for r in a.rules})
            kind = rng.choice(["identity", "injective", "merging", "merging1", "sparse"])
            m = [e for e in rand_map(rng, syms, kind) if rng.random() < 0.85]
            out.append(case("TS", a, m, rng.choice([0, 42])))
        else:
            # empty automata, finals without rules, nullary rules only, no finals
            st = rng.sample(range(0, 30), rng.randint(1, 4))
            rules = [(rng.choice([0, 1]), rng.choice(st), ()) for _ in range(rng.randint(0, 3))]
            a = gen.TA(rng.sample(st, rng.randint(0, len(st))), rules)
            m = rand_map(rng, st)
            out.append(any_variant(rng, a, m))
    return out

def rand_case(rng):
    a = gen.rand_ta_sized(rng, 6, 12, sigma=rng.choice([gen.SIGMA, gen.SIGMA3]))
    if rng.random() < 0.3: a, _ = gen.permute_states(rng, a, sparse=True)
    if rng.random() < 0.15:
        syms = sorted({r[0] for r in a.rules})
        return case("TS", a, [e for e in rand_map(rng, syms) if rng.random() < 0.9], rng.choice([0, 42]))
    return any_variant(rng, a, rand_map(rng, a.states()))

CORPUS = [
    "c14 RF 1 T 1 2 2 0 1 0 3 2 2 1 2 M 2 1 1 2 2 0",                       # identity
    "c14 RF 1 T 1 2 3 0 1 0 0 2 0 3 2 2 1 2 M 2 1 7 2 7 0",                 # everything into one state
    "c14 CS T 2 0 1 4 2 0 1 2 2 1 1 3 3 0 2 2 3 3 1 2 2 3 M 4 0 9 1 9 2 4 3 4",  # two source clusters, one destination cluster, same symbol, same tuple
    "c14 CS T 0 4 2 0 1 2 3 1 1 3 2 2 1 3 3 3 2 2 3 M 4 0 9 1 9 2 4 3 5",     # same destination cluster, different symbols
    "c14 RW T 1 3 3 0 1 0 2 2 1 1 3 3 2 1 2 M 0 0",                           # nothing pre-filled
    "c14 RW T 1 3 3 0 1 0 2 2 1 1 3 3 2 1 2 M 2 2 0 77 5 0",                  # pre-filled value 0 collides with the allocator; unused key 77 kept
    "c14 RW T 1 3 3 0 1 0 2 2 1 1 3 3 2 1 2 M 3 1 4 2 4 3 4 9",               # fully pre-filled merging map
    "c14 RD 1 T 1 1 2 0 1 0 2 1 1 1 T 1 5 2 0 5 0 2 5 1 5 M 1 1 5 0",         # image coincides with rules already in the destination
    "c14 RD 0 T 1 1 2 0 1 0 2 2 1 1 T 1 9 1 0 9 0 M 0 3",                     # addFinalStates = false
    "c14 RF 1 T 0 0 M 0 0",                                                    # empty automaton
    "c14 RF 1 T 2 4 6 0 M 2 4 6 6 4 0",                                        # finals only, swapped
    "c14 TS T 1 1 4 0 1 0 1 1 0 2 1 1 1 3 1 1 1 M 4 0 5 1 5 2 6 3 6 0",       # symbol merges collapse rules
    "c14 TS T 1 1 3 2 1 0 2 1 1 1 2 1 2 1 1 M 0 42",                           # one symbol with three arities, shifted
    "c14 CS T 1 100000 2 0 100000 0 3 7 2 100000 7 M 2 7 3000000 100000 1",    # sparse numbers
]

def cases(rng, tier):
    cs = [(l, "corpus") for l in CORPUS]
    cs += [(l, "exhaustive") for l in exhaustive()]
    cs += [(l, "targeted") for l in targeted(rng, 1500 if tier == "quick" else 25000)]
    n = 3000 if tier == "quick" else 60000
    cs += [(rand_case(rng), "random") for _ in range(n)]
    return cs

def nontrivial(c, impl, verd):
    m = re.search(r"states=(\d+) rules=(\d+)", verd)
    return bool(m) and int(m.group(1)) >= 2 and int(m.group(2)) >= 2 and " identity" not in verd

def observe(dist, c, impl, verd):
    w = verd.split()
    for f in ("RF", "RD", "RW", "CS", "TS", "injective", "merging", "identity", "sparse", "prefilled", "into_nonempty_dst", "dst_is_copy_of_src", "nofinals"):
        if f in w: dist[f] = dist.get(f, 0) + 1
    m = re.search(r"states=(\d+) rules=(\d+)", verd)
    if m:
        r = int(m.group(2)); k = "rules=0" if r == 0 else "rules=1-3" if r <= 3 else "rules=4-8" if r <= 8 else "rules>=9"
        dist[k] = dist.get(k, 0) + 1

def shrink_candidates(c):
    for x in gen.shrink_automata(c): yield x
    t = c.split()
    # drop one map entry
    if "M" in t:
        i = len(t) - 1 - t[::-1].index("M")
        n = int(t[i + 1])
        for j in range(n):
            yield " ".join(t[:i + 1] + [str(n - 1)] + t[i + 2:i + 2 + 2 * j] + t[i + 4 + 2 * j:])

def explain(c, impl, verd):
    return ("case = c14 <variant> ...: RF addf <T src> M pairs off = ReindexStates(functor, addFinalStates) (functor: table, unlisted x -> x+off); "
            "RD addf <T src> <T dst> M pairs off = void ReindexStates(dst, functor, addf) into a pre-built dst; RW <T src> M pre-filled base = "
            "ReindexStates(StateToStateTranslWeak&) with allocator base, base+1, ..; CS <T src> M pairs = CollapseStates(map); TS <T src> M pairs off = "
            "TranslateSymbols(functor). impl = R <result> M <final contents of the translator/map> I <operand afterwards>. Gates (Properties_C14.v): image = "
            "the result has no duplicate and its rules/finals are exactly (dst +) the image of the operand's under the read-back map; translator = the "
            "read-back map is functional, extends the pre-filled part and is total on the used states; simage likewise for symbols; operand_changed.")

LEVEL_TEXT = ("Coq theorems (all automata, all maps): a rule/final state is in image h A iff it is the image of one of A; injective on the states => same "
              "language (Lang.image_lang_inj) and the same number of distinct states and rules; any map => the language grows; for symbol maps the "
              "language is the relabelled language; an algorithmic model of ReindexStates on the nested store (per source cluster fetch-or-create the "
              "destination cluster, per symbol the tuple set) yields exactly destination + image with each rule once; the gates evaluated on libvata's "
              "result are equivalent to 'exactly the image' and carry the consequences. Tie to the C++: libvata rebuilt from /repo's working tree is run "
              "through all public overloads on generated (automaton, map) pairs; the final contents of weak translators are read back and must extend the "
              "pre-filled part and be total on the used states.")
LEVEL_NOTE = ("Trusted: Coq kernel, ExtrOcamlBasic extraction, OCaml/C++ glue, generators. The C++ is modelled, not verified: the tie is behavioural on "
              "generated inputs (distribution in the evidence). No axioms (Print Assumptions: closed under the global context).")
TECHNIQUE = "Coq proof of flat and nested image models + verified gate deciders; extracted gates judge libvata's results under the read-back map"
DESIGN_REF = "DESIGN.md 5/C14"
EXPLANATION = explain("", "", "")
READY = True
