"""C05 — Reduce keeps the language and never grows the automaton."""
import gen
ID = "C05"; DRIVER = "c05"; MODEL = "c05"
COQ_PROPS = ["Properties_C05.v"]; COQ_EXTRACT = "Extract_C05.v"
LEVEL = "proof"
RULE = ("cases = explicit tree automata over {a/0,b/0,g/1,f/2}(+h/3): corpus; complete slice (all automata with <=2 states and <=3 rules); targeted "
        "(duplicated states = several simulation-equivalent final and non-final states, sparse numbers, useless states, simulation-comparable but "
        "inequivalent states); histories (Reduce, the same object extended in place without a new state, Reduce again); medium-sized automata (8-16 states) over a unary-rich alphabet; random up to 5 states. Non-trivial = non-empty language and the result has fewer states than the input; distinct by rule/final sets")
EXHAUSTIVE_SLICES = "all automata with 1 state,<=4 rules and 2 states,<=3 rules over {a/0,b/0,g/1,f/2}, every final set (the run as a whole is not exhaustive)"
TRUSTED_BASE = [
    "Coq 8.16.1 kernel (coqc, full .vo build); vm_compute only in Examples; no native_compute",
    "extraction: Require Extraction + ExtrOcamlBasic only; N, positive, nat stay inductive; no Extract Constant of our own; OCaml 4.13.1",
    "hand-written glue: harness/ml/common.ml.in, ta_io.ml.in, c05_main.ml, harness/drv/c05.cc + common.hh, harness/gen.py, harness/core.py",
    "modelled, not verified: ExplicitTreeAutCore::Reduce (ComputeSimulation, RestrictToSymmetric, GetQuotientProjection, CollapseStates, RemoveUnreachableStates); tied by the gate (property evaluated on libvata's result by verified deciders); structural equality with the (R) model under the recovered representatives is drift",
]
ASSUMPTIONS = ["'every state is the image of a state of A' is evaluated semantically: every state of the result has the state language of some state of A",
               "correspondence is sampling: an input shape no generator produces is not covered"]
FLAVOURS = {"quick": ["plain"], "thorough": ["plain", "asan"]}
CORPUS = [
    "red T 0 0",
    "red T 1 2 4 0 0 0 0 1 0 2 2 1 0 2 2 1 1",
    "red T 2 2 3 6 0 0 0 0 1 0 2 2 1 0 2 3 1 1 3 2 2 0 1 3 3 2 1 0",
    "red T 1 7 3 0 3 0 1 5 0 3 7 2 3 5",
]
def dup_states(rng, a):
    """clone some states (same rules) -> simulation-equivalent copies"""
    st = sorted(a.states())
    if not st: return a
    nxt = max(st) + 1
    b = a.copy()
    for _ in range(rng.randint(1, 2)):
        q = rng.choice(st); c = nxt; nxt += 1
        for (f, p, cs) in list(b.rules):
            if p == q: b.rules.append((f, c, cs))
            if q in cs and rng.random() < 0.7:
                b.rules.append((f, p, tuple(c if x == q and rng.random() < 0.7 else x for x in cs)))
        if q in b.finals and rng.random() < 0.8: b.finals.append(c)
    return b
def cases(rng, tier):
    cs = [(l, "corpus") for l in CORPUS]
    for a in gen.enum_ta(1, 4): cs.append(("red " + a.fmt(), "exhaustive"))
    for a in gen.enum_ta(2, 3): cs.append(("red " + a.fmt(), "exhaustive"))
    for _ in range(600):
        a = dup_states(rng, gen.rand_ta_sized(rng, 3, 6, leafbias=0.4, pfinal=0.5))
        if rng.random() < 0.4: a, _ = gen.permute_states(rng, a, sparse=True)
        cs.append(("red " + a.fmt(), "targeted"))
    for _ in range(200):   # comparable but not equivalent: q has a subset of r's rules
        a = gen.rand_ta_sized(rng, 3, 6, leafbias=0.4, pfinal=0.5)
        st = sorted(a.states()) or [0]; q = rng.choice(st); c = max(st) + 1
        for (f, p, ch) in list(a.rules):
            if p == q and rng.random() < 0.6: a.rules.append((f, c, ch))
        a.rules.append((3, rng.choice(st), (c, q)))
        cs.append(("red " + a.fmt(), "targeted"))
    for _ in range(1000 if tier == "quick" else 25000):   # medium-sized automata over a unary-rich alphabet: long refinement runs of the simulation engine (several pending splits)
        k = rng.randint(8, 14) if tier == "quick" else rng.randint(8, 16)
        a = gen.rand_ta(rng, k, rng.randint(k, 2 * k + 4), sigma=gen.SIGMA_U, pfinal=0.2, leafbias=0.3)
        if rng.random() < 0.3: a, _ = gen.permute_states(rng, a, sparse=True)
        cs.append(("red " + a.fmt(), "medium_unary"))
    for _ in range(1200 if tier == "quick" else 12000):   # histories: Reduce, in-place extension of the SAME object (no new state), Reduce again
        a = dup_states(rng, gen.rand_ta_sized(rng, 3, 6, leafbias=0.4, pfinal=0.5))
        if rng.random() < 0.3: a, _ = gen.permute_states(rng, a, sparse=True)
        st = sorted(a.states()) or [0]
        a2 = a.copy()
        a2.rules = a.rules + gen.rand_ta(rng, 0, rng.randint(1, 3), states=st, leafbias=0.5).rules
        if rng.random() < 0.3: a2.finals = a.finals + [rng.choice(st)]
        cs.append(("red2 %s %s" % (a.fmt(), a2.fmt()), "history"))
    n = 2000 if tier == "quick" else 40000
    for _ in range(n):
        a = gen.rand_ta_sized(rng, 5, 9, sigma=rng.choice([gen.SIGMA, gen.SIGMA3]))
        if rng.random() < 0.3: a, _ = gen.permute_states(rng, a, sparse=True)
        cs.append(("red " + a.fmt(), "random"))
    return cs
def nontrivial(c, impl, verd): return " nonempty" in verd and " shrunk" in verd
def observe(dist, c, impl, verd):
    toks = verd.split()
    for k in ("empty", "nonempty", "shrunk", "same", "history"):
        if k in toks: dist[k] = dist.get(k, 0) + 1
def shrink_candidates(c):
    if not c.startswith("red2"): return gen.shrink_automata(c)
    return shrink_history(c)
def shrink_history(c):
    """the second automaton extends the first (rule list prefix, finals superset): shrink both consistently"""
    items = gen.split_case(c); a, a2 = items[1], items[2]
    n = len(a.rules)
    for j in range(len(a2.rules)):
        b2 = a2.copy(); b2.rules.pop(j); b = a.copy()
        if j < n: b.rules.pop(j)
        yield gen.join_case([items[0], b, b2])
    for f in list(a2.finals):
        b2 = a2.copy(); b2.finals = [x for x in a2.finals if x != f]; b = a.copy(); b.finals = [x for x in a.finals if x != f]
        yield gen.join_case([items[0], b, b2])
def explain(c, impl, verd):
    return ("case = red <A> (or red2 <A> <A2>: Reduce on an object holding A, the same object extended in place to A2, Reduce again; gates of the second call are prefixed again_); impl = R <Reduce result> I <operand afterwards>; gates: lang (same language, C05_gate), states_grow, rules_grow, "
            "onto (every result state has the state language of some state of A), operand_changed")
LEVEL_TEXT = ("Coq theorems (all automata, no bounds): collapsing states by ANY representative map that stays, in both directions, inside ANY relation "
              "accepted by the downward-simulation checker, followed by pruning of unreachable states, keeps the language; the numbers of distinct "
              "states and rules never grow; every result state is a representative. The boolean gate evaluated on libvata's result decides the "
              "property (same language, sizes, every result state has the language of some input state). Tie to the C++: Reduce of libvata rebuilt "
              "from /repo on generated automata, judged by the extracted verified gate; equality with the model under recovered representatives is drift.")
LEVEL_NOTE = ("Simulation computation (LTS engine) and quotient projection are modelled at result level: the theorem covers every valid choice of "
              "representatives, the tie is behavioural. Trusted: Coq kernel, ExtrOcamlBasic extraction, OCaml/C++ glue, generators. No axioms.")
TECHNIQUE = "Coq proof of quotient model + verified language gate; extracted-model correspondence"
DESIGN_REF = "DESIGN.md 5/C05"
READY = True
